#!/usr/bin/env python3
"""regenerates seeded/SUMMARY.md = header + one table row per seeded/<id>/meta.json + seeded/NOTES.md (hand-written notes)"""
import glob, json, os
VERIF = os.path.dirname(os.path.dirname(os.path.abspath(__file__)))
rows = []
for d in sorted(glob.glob(f"{VERIF}/seeded/C??-?")):
    sid = os.path.basename(d)
    try:
        m = json.load(open(d + "/meta.json"))
    except Exception:
        continue
    def cell(ch):
        return ", ".join(f"{c}: {'caught' + (' (no failing input)' if v.get('no_failing_input') or any('no-failing-input-found' in l for l in v.get('report', [])) else '') if v.get('caught') else 'MISSED'}" for c, v in sorted(ch.items()))
    first = cell(m.get("checks", {}))
    now = cell(m.get("checks_now", {})) if m.get("checks_now") else ""
    txt = lambda k: (m.get(k) or "").replace("\n", " ").replace("|", "/")[:160]
    rows.append(f"| {sid} | {m.get('property', sid[:3])} | {txt('summary') or txt('change')} | {txt('needs')} | {first} | {now} |")
hdr = """# Seeded changes — which check catches which change

Each directory holds `patch.diff` (against /repo at the time of seeding), `demo.py` (fails with the change, passes without) and `meta.json` (what it needs to manifest, what was run, which registered quick checks reported it). All changes keep the pinned suite green (72 passed, 6 skipped). They were produced by fresh sub-agents that saw only the property text and a scratch worktree (rounds 2 and 3: plus one-line summaries of the changes already tried, so that new mechanisms are chosen).

Column *when it arrived*: the result of the registered quick check as it stood when the change was delivered (`checks` in meta.json). Column *now*: the result of `tools/rerun_seeded.py --write-meta` with the current checks (`checks_now`). To try a stored change by hand: `tools/try_patch.sh seeded/<id>/patch.diff <Cxx>` (applies to /repo, runs the check, reverts).

| id | property | change | needs | when it arrived | now |
|---|---|---|---|---|---|
"""
notes = open(f"{VERIF}/seeded/NOTES.md").read() if os.path.exists(f"{VERIF}/seeded/NOTES.md") else ""
open(f"{VERIF}/seeded/SUMMARY.md", "w").write(hdr + "\n".join(rows) + "\n\n" + notes)
print(len(rows), "rows")
