#!/usr/bin/env python3
"""par_keep_seeded.py <round-number> [--workers N] [--only C01,C02]

Parallel version of keep_seeded.py for one seeding round: the seeders' output is expected in /tmp/wt/R<round><Cxx>_out
(patch.diff/demo.py/meta.json and optionally patch2.diff/demo2.py/meta2.json).  N workers, each with its own copy of /verif
(under /root/scratch/pv<i>, including the Lean build output, so nothing is rebuilt unless a patch changes a regenerated
table) and its own scratch worktree of /repo (/root/scratch/pr<i>); the checks run in the copy with VERIF_REPO pointing at
the worker's worktree.  /repo and /verif themselves are not touched while the workers run.  For every change: the pinned
suite with the change, the demo without and with the change, the quick check of the property.  Confirmed changes are stored
as /verif/seeded/<Cxx>-<letter>/ (letters by round: 1 a/b, 2 c/d, 3 e/f, 4 g/h, 5 i/j, 6 k/l, ...).  Copies and worktrees are removed at
the end."""
import json
import os
import shutil
import subprocess
import sys
import threading
import time

VERIF = os.path.dirname(os.path.dirname(os.path.abspath(__file__)))
rnd = int(sys.argv[1])
args = sys.argv[2:]
workers = int(args[args.index("--workers") + 1]) if "--workers" in args else 5
only = set(args[args.index("--only") + 1].split(",")) if "--only" in args else None
letters = "abcdefghijklmnopqrstuvwxyz"[2 * (rnd - 1): 2 * rnd]
SCR = "/root/scratch"


def sh(cmd, timeout=None, env=None):
    try:
        p = subprocess.run(cmd, shell=True, stdout=subprocess.PIPE, stderr=subprocess.STDOUT, text=True, timeout=timeout, env=env)
        return p.returncode, p.stdout
    except subprocess.TimeoutExpired:
        return 124, "timeout"


tasks = []
for i in range(1, 21):
    P = f"C{i:02d}"
    if only and P not in only:
        continue
    src = f"/tmp/wt/R{rnd}{P}_out"
    for k, suffix in enumerate(("", "2")):
        if os.path.exists(f"{src}/patch{suffix}.diff") and os.path.exists(f"{src}/demo{suffix}.py"):
            tasks.append(dict(prop=P, name=f"{P}-{letters[k]}", patch=f"{src}/patch{suffix}.diff", demo=f"{src}/demo{suffix}.py", meta=f"{src}/meta{suffix}.json"))
print(len(tasks), "changes,", workers, "workers", flush=True)
lock = threading.Lock()
results = {}


def worker(wi):
    vdir, rdir = f"{SCR}/pv{wi}", f"{SCR}/pr{wi}"
    sh(f"rm -rf {vdir}; git -C /repo worktree remove --force {rdir} 2>/dev/null; rm -rf {rdir}")
    sh(f"mkdir -p {vdir} && rsync -a --exclude .git --exclude 'evidence/replays/*' --exclude seeded {VERIF}/ {vdir}/")
    rc, out = sh(f"git -C /repo worktree add -q --detach {rdir} HEAD")
    if rc != 0:
        print("worker", wi, "cannot create worktree:", out)
        return
    env = dict(os.environ, VERIF_REPO=rdir)
    while True:
        with lock:
            if not tasks:
                break
            t = tasks.pop(0)
        res = {}
        sh(f"git -C {rdir} checkout -q -- .")
        rc, out = sh(f"cd {rdir} && /venv/bin/python {t['demo']}", timeout=600)
        res["demo_without"] = rc
        rc, out = sh(f"git -C {rdir} apply {t['patch']}")
        if rc != 0:
            res["error"] = "patch does not apply: " + out[-300:]
        else:
            junit = f"{SCR}/junit{wi}.xml"
            rc, out = sh(f"cd {rdir} && env -u MAR10_NUTREE_VERIF /venv/bin/python -m pytest -q -p no:cacheprovider --no-cov --timeout=900 --junitxml={junit} >/dev/null 2>&1; "
                         f"python3 -c \"import xml.etree.ElementTree as E; r=E.parse('{junit}').getroot(); t=r if r.tag=='testsuite' else r[0]; a=t.attrib; "
                         f"print('tests=%s failures=%s errors=%s skipped=%s passed=%d' % (a['tests'],a['failures'],a['errors'],a['skipped'],int(a['tests'])-int(a['failures'])-int(a['errors'])-int(a['skipped'])))\"", timeout=1200)
            res["tests"] = out.strip()
            rc, out = sh(f"cd {rdir} && /venv/bin/python {t['demo']}", timeout=600)
            res["demo_with"] = rc
            t0 = time.time()
            rc, out = sh(f"cd {vdir} && ./check {t['prop']} --tier quick", timeout=1800, env=env)
            lines = [l for l in out.split("\n") if l.startswith("VIOLATION") or l.startswith("  what") or l.startswith("  obligation") or l.startswith("  correspondence") or l.startswith("MACHINERY")]
            res["check"] = dict(exit=rc, s=round(time.time() - t0, 1), lines=[l[:400] for l in lines[:3]])
        sh(f"git -C {rdir} checkout -q -- .")
        with lock:
            results[t["name"]] = (t, res)
            ok = res.get("demo_without") == 0 and res.get("demo_with") == 1 and "failures=0 errors=0" in res.get("tests", "") and "passed=72" in res.get("tests", "")
            ck = res.get("check", {})
            print(t["name"], "confirmed" if ok else f"NOT-CONFIRMED {res.get('error') or (res.get('demo_without'), res.get('demo_with'), res.get('tests'))}",
                  "caught" if ck.get("exit") == 1 else f"MISSED(exit={ck.get('exit')})", ck.get("s"), "|", " ".join(ck.get("lines", []))[:230], flush=True)
    sh(f"git -C /repo worktree remove --force {rdir}; rm -rf {rdir} {vdir} {SCR}/junit{wi}.xml")


ths = [threading.Thread(target=worker, args=(i,)) for i in range(workers)]
for th in ths:
    th.start()
for th in ths:
    th.join()
sh("git -C /repo worktree prune")
for name, (t, res) in sorted(results.items()):
    ok = res.get("demo_without") == 0 and res.get("demo_with") == 1 and "failures=0 errors=0" in res.get("tests", "") and "passed=72" in res.get("tests", "")
    if not ok:
        continue
    d = f"{VERIF}/seeded/{name}"
    os.makedirs(d, exist_ok=True)
    shutil.copy(t["patch"], f"{d}/patch.diff")
    shutil.copy(t["demo"], f"{d}/demo.py")
    m = json.load(open(t["meta"])) if os.path.exists(t["meta"]) else {}
    m["confirmed"] = dict(tests=res["tests"], demo_without_change_exit=0, demo_with_change_exit=1,
                          ran=["git apply patch.diff (scratch worktree of /repo)", "pinned suite", "demo.py without / with the change", "./check <id> --tier quick (VERIF_REPO = the worktree)"])
    ck = res["check"]
    m["checks"] = {t["prop"]: dict(caught=ck["exit"] == 1, seconds=ck["s"], report=ck["lines"][:2])}
    json.dump(m, open(f"{d}/meta.json", "w"), indent=1)
n = len(results)
print("changes:", n, "caught on arrival:", sum(1 for _, r in results.values() if r.get("check", {}).get("exit") == 1))
