#!/bin/sh
# try_patch_iso.sh <patch.diff> <check ids...>: like try_patch.sh, but isolated: a copy of /verif (incl. the Lean build output)
# under /root/scratch/tv and a scratch worktree of /repo under /root/scratch/tr; /repo and /verif are not touched, so checks
# of the clean tree may run at the same time.
P="$1"; shift
TV=/root/scratch/tv; TR=/root/scratch/tr
mkdir -p $TV
rsync -a --delete --exclude .git --exclude 'evidence/replays/*' --exclude seeded /verif/ $TV/
[ -d $TR ] || git -C /repo worktree add -q --detach $TR HEAD || exit 2
git -C $TR checkout -q -- .
git -C $TR apply "$P" || exit 2
for c in "$@"; do
  out=$(cd $TV && VERIF_REPO=$TR ./check "$c" --tier quick 2>&1); rc=$?
  echo "$c exit=$rc :: $(echo "$out" | grep -E '^VIOLATION|^  what|^  obligation|^  correspondence|^MACHINERY' | head -2 | cut -c1-260 | tr '\n' ' ')"
done
git -C $TR checkout -q -- .
