#!/usr/bin/env python3
"""mk_seed_round.py <round-tag> [C01,C02,...]: prepares /tmp/wt/<tag>C01..C20 (scratch git worktrees of /repo HEAD) with PROPERTY.txt and
PROMPT.txt for the seeding sub-agents (they get nothing from /verif except the text of one property and one-line summaries of
changes that were already tried)."""
import glob, json, os, subprocess, sys

tag = sys.argv[1]
only = set(sys.argv[2].split(",")) if len(sys.argv) > 2 else None
VERIF = os.path.dirname(os.path.dirname(os.path.abspath(__file__)))
props = [json.loads(l) for l in open(f"{VERIF}/properties.jsonl")]
tried = {}
for d in sorted(glob.glob(f"{VERIF}/seeded/C??-?")):
    try:
        m = json.load(open(d + "/meta.json"))
    except Exception:
        continue
    tried.setdefault(os.path.basename(d)[:3], []).append((m.get("summary") or m.get("change") or "")[:260].replace("\n", " "))
os.makedirs("/tmp/wt", exist_ok=True)
for p in props:
    pid = p["id"]
    if only and pid not in only:
        continue
    wt = f"/tmp/wt/{tag}{pid}"
    out = f"/tmp/wt/{tag}{pid}_out"
    subprocess.run(["git", "-C", "/repo", "worktree", "add", "-q", "--detach", wt, "HEAD"], check=True)
    os.makedirs(out, exist_ok=True)
    text = f"{pid}: {p['title']}\n\n{p['statement']}\n\nQuantifier: {p['quantifier']['text']}\n"
    open(f"{out}/PROPERTY.txt", "w").write(text)
    prompt = f"""You are given a Python library (a git worktree at {wt}; work ONLY there and in {out}) and one semantic property it is
supposed to have (file {out}/PROPERTY.txt). Produce a realistic change to the library's source (under {wt}/nutree/ only) that BREAKS
this property while the code still imports and the existing test suite still passes unedited:
    cd {wt} && /venv/bin/python -m pytest -q -p no:cacheprovider --no-cov 2>&1 | tail -3     (must stay: 72 passed, 6 skipped; exit code 0)
The change must look like something a maintainer could plausibly commit (a refactoring slip, an "optimisation", a simplification, a
changed default, an off-by-one, `==` instead of `is`, a truthiness test, a moved statement …), and it must need something SPECIFIC
to manifest: a particular argument combination, tree shape, data flavour (clones, equal-but-distinct objects, explicit or falsy ids,
typed trees with several kinds, calc_data_id hooks), a multi-step history, two cooperating call sites, or a particular schedule.
Strongly prefer one of these harder kinds of change: (1) TWO cooperating edits at different sites that each look harmless alone;
(2) a change that only manifests after a multi-step history (three or more operations, e.g. a stale cache / index entry that a
LATER call trips over); (3) a change that only manifests under a documented but unusual argument, option or data flavour that
everyday use does not touch; (4) state that ends up in, or is read from, an object the APPLICATION owns or re-uses between calls;
(5) an override in a subclass (TypedNode / TypedTree / FileSystemTree) drifting from its base-class behaviour; (6) the interplay of two
public features (clones + sort, filter + clones, move + metadata, copy + custom ids, ...), or edge positions (first / last sibling, top
level, empty tree, single node, deepest level); (7) a "performance optimisation" (a cache, an early exit, a shared default
object, lazy evaluation, `__slots__`/attribute tricks) whose invalidation or aliasing is subtly incomplete; (8) a changed `except`
clause, a reordered validation, or an exception of an unexpected class coming out of a user callback. Avoid single-token flips of the
kind listed below.
Prefer places and mechanisms DIFFERENT from these, which were already tried for this property:
""" + "".join(f"  - {t}\n" for t in tried.get(pid, [])) + f"""
Deliver, in {out}/:
  patch.diff   (from `cd {wt} && git diff > {out}/patch.diff`),
  demo.py      a self-contained script whose first line is `import os, sys; sys.path.insert(0, os.getcwd())`, that is run as
               `cd {wt} && /venv/bin/python {out}/demo.py`, prints PASS and exits 0 on the ORIGINAL code and prints FAIL (with what went
               wrong, in terms of the property) and exits 1 with your change applied,
  meta.json    {{"property": "{pid}", "summary": "<what was changed, one or two sentences>", "needs": "<what it takes to manifest>",
               "files": [...], "tests_pass_with_change": true, "demo_fails_with_change": true, "demo_passes_without_change": true}}.
If you can, deliver a SECOND, independent change the same way as patch2.diff / demo2.py / meta2.json.
Verify all three claims yourself for each change (suite passes with the change; demo fails with it; demo passes without it). To switch
between states use `git diff > file; git checkout -- .; git apply file` — do NOT use `git stash` (the stash is shared between worktrees).
Leave the worktree clean (`git checkout -- .`) when you are done. Do not commit. Do not touch /repo or any other directory.
"""
    open(f"{out}/PROMPT.txt", "w").write(prompt)
print("prepared", len(props), "worktrees under /tmp/wt with tag", tag)
