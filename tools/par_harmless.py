#!/usr/bin/env python3
"""par_harmless.py [--workers N] [--only h01,...] [--props C01,...]   (derived from par_rerun_seeded.py)

Behaviour-preserving rewrites (seeded/harmless/*.diff) x all 20 quick checks: every (patch, property) pair must exit 0.

par_rerun_seeded.py [--workers N] [--only C01-a,...] [--write-meta]

Parallel version of rerun_seeded.py: every stored change seeded/<id>/patch.diff is applied to a scratch worktree of /repo (one
per worker, each worker also has its own copy of /verif incl. the Lean build output), the quick check of its property runs
with VERIF_REPO pointing at the worktree, the result is printed as one JSON line and (with --write-meta) stored as
`checks_now` in seeded/<id>/meta.json; seeded/SUMMARY.md is regenerated at the end.  /repo and /verif are not touched while
the workers run; copies and worktrees are removed at the end."""
import glob
import json
import os
import subprocess
import sys
import threading
import time

VERIF = os.path.dirname(os.path.dirname(os.path.abspath(__file__)))
args = sys.argv[1:]
workers = int(args[args.index("--workers") + 1]) if "--workers" in args else 6
only = set(args[args.index("--only") + 1].split(",")) if "--only" in args else None
props_only = set(args[args.index("--props") + 1].split(",")) if "--props" in args else None
SCR = "/root/scratch"


def sh(cmd, timeout=None, env=None):
    try:
        p = subprocess.run(cmd, shell=True, stdout=subprocess.PIPE, stderr=subprocess.STDOUT, text=True, timeout=timeout, env=env)
        return p.returncode, p.stdout
    except subprocess.TimeoutExpired:
        return 124, "timeout"


tasks = []
for d in sorted(glob.glob(f"{VERIF}/seeded/harmless/*.diff")):
    hid = os.path.basename(d)[:-5]
    if only and hid not in only:
        continue
    for i in range(1, 21):
        if props_only and f"C{i:02d}" not in props_only:
            continue
        tasks.append(dict(id=f"{hid}/C{i:02d}", prop=f"C{i:02d}", patch=d, dir=None))
print(len(tasks), "changes,", workers, "workers", flush=True)
lock = threading.Lock()
results = {}


def worker(wi):
    vdir, rdir = f"{SCR}/hv{wi}", f"{SCR}/hr{wi}"
    sh(f"rm -rf {vdir}; git -C /repo worktree remove --force {rdir} 2>/dev/null; rm -rf {rdir}")
    sh(f"mkdir -p {vdir} && rsync -a --exclude .git --exclude 'evidence/replays/*' --exclude seeded {VERIF}/ {vdir}/")
    rc, out = sh(f"git -C /repo worktree add -q --detach {rdir} HEAD")
    if rc != 0:
        print("worker", wi, "cannot create worktree:", out)
        return
    env = dict(os.environ, VERIF_REPO=rdir)
    while True:
        with lock:
            if not tasks:
                break
            t = tasks.pop(0)
        sh(f"git -C {rdir} checkout -q -- .")
        rc, out = sh(f"git -C {rdir} apply {t['patch']}")
        if rc != 0:
            res = dict(id=t["id"], property=t["prop"], exit=None, caught=False, error="patch does not apply (the repaired code differs from the code the change was made for): " + out[-160:])
        else:
            t0 = time.time()
            rc, out = sh(f"cd {vdir} && ./check {t['prop']} --tier quick", timeout=1800, env=env)
            lines = [l for l in out.split("\n") if l.startswith("VIOLATION") or l.startswith("  what") or l.startswith("  obligation") or l.startswith("  correspondence") or l.startswith("MACHINERY")]
            res = dict(id=t["id"], property=t["prop"], exit=rc, caught=rc == 1 and any(l.startswith("VIOLATION") for l in lines),
                       no_failing_input=any("no-failing-input-found" in l for l in lines), seconds=round(time.time() - t0, 1), report=[l[:300] for l in lines[:2]])
        sh(f"git -C {rdir} checkout -q -- .")
        with lock:
            results[t["id"]] = res
            print(json.dumps(res), flush=True)
            if "--write-meta" in args and res.get("exit") is not None:
                mp = f"{t['dir']}/meta.json"
                m = json.load(open(mp)) if os.path.exists(mp) else {}
                m["checks_now"] = {t["prop"]: dict(caught=res["caught"], no_failing_input=res.get("no_failing_input", False), seconds=res.get("seconds"), report=res.get("report", []))}
                json.dump(m, open(mp, "w"), indent=1)
    sh(f"git -C /repo worktree remove --force {rdir}; rm -rf {rdir} {vdir}")


ths = [threading.Thread(target=worker, args=(i,)) for i in range(workers)]
for th in ths:
    th.start()
for th in ths:
    th.join()
sh("git -C /repo worktree prune")
if "--write-meta" in args:
    sh(f"python3 {VERIF}/tools/mk_seeded_summary.py")
bad = [r for r in results.values() if r.get("exit") != 0]
print(f"harmless rewrites x checks: {len(results)} runs, not exit 0: {len(bad)}")
for r in bad:
    print("ALARM:", r["id"], r.get("exit"), r.get("report") or r.get("error"))
sys.exit(1 if bad else 0)
n = len(results)
appl = [r for r in results.values() if r.get("exit") is not None]
c = sum(1 for r in appl if r["caught"])
w = sum(1 for r in appl if r["caught"] and not r.get("no_failing_input"))
print(f"seeded changes: {n}, applicable: {len(appl)}, reported: {c}, with a concrete failing input: {w}")
for r in appl:
    if not r["caught"]:
        print("NOT REPORTED:", r["id"], r.get("exit"), r.get("seconds"))
