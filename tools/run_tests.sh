#!/bin/sh
# runs the repository's pinned suite (guard off) and prints the counts
cd "${1:-/repo}" && env -u MAR10_NUTREE_VERIF /venv/bin/python -m pytest -q -p no:cacheprovider --no-cov --timeout=900 --junitxml=/tmp/_verif_junit.xml >/dev/null 2>&1
rc=$?
python3 - <<'PY'
import xml.etree.ElementTree as ET
r=ET.parse('/tmp/_verif_junit.xml').getroot()
ts=r if r.tag=='testsuite' else r[0]
a=ts.attrib
print("tests=%s failures=%s errors=%s skipped=%s passed=%d" % (a['tests'],a['failures'],a['errors'],a['skipped'], int(a['tests'])-int(a['failures'])-int(a['errors'])-int(a['skipped'])))
PY
rm -f /tmp/_verif_junit.xml
exit $rc
