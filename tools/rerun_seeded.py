#!/usr/bin/env python3
"""rerun_seeded.py [--repo DIR] [--only Cxx-a,...] [--out FILE] [--write-meta]

Applies every seeded/<id>/patch.diff in turn to a checkout of mar10/nutree (default: a scratch worktree of /repo HEAD made
under /tmp and removed afterwards; with `vp run --with-repo` pass --repo "$VP_RUN_REPO"), runs the quick check of the
property the change was seeded for (VERIF_REPO points the check at the checkout), reverts, and prints one JSON line per change:
{"id", "property", "exit", "caught", "no_failing_input", "seconds", "report"}.  With --write-meta the result is stored as
`checks_now` in seeded/<id>/meta.json and seeded/SUMMARY.md is regenerated (tools/mk_seeded_summary.py).
Never touches /repo itself."""
import glob
import json
import os
import subprocess
import sys
import tempfile
import time

VERIF = os.path.dirname(os.path.dirname(os.path.abspath(__file__)))
args = sys.argv[1:]


def opt(name, default=None):
    if name in args:
        return args[args.index(name) + 1]
    return default


repo = opt("--repo")
only = set((opt("--only") or "").split(",")) - {""}
outf = opt("--out")
own = None
if repo is None:
    own = tempfile.mkdtemp(prefix="seeded_rerun.")
    repo = os.path.join(own, "repo")
    subprocess.run(["git", "-C", "/repo", "worktree", "add", "-q", "--detach", repo, "HEAD"], check=True)


def sh(cmd, **kw):
    p = subprocess.run(cmd, shell=True, stdout=subprocess.PIPE, stderr=subprocess.STDOUT, text=True, **kw)
    return p.returncode, p.stdout


results = []
try:
    for d in sorted(glob.glob(f"{VERIF}/seeded/C??-?")):
        sid = os.path.basename(d)
        if only and sid not in only:
            continue
        prop = sid[:3]
        sh(f"git -C {repo} checkout -q -- .")
        rc, out = sh(f"git -C {repo} apply {d}/patch.diff")
        if rc != 0:
            res = dict(id=sid, property=prop, exit=None, caught=False, error="patch does not apply: " + out[-200:])
        else:
            t0 = time.time()
            try:
                rc, out = sh(f"cd {VERIF} && VERIF_REPO={repo} ./check {prop} --tier quick", timeout=1500)
            except subprocess.TimeoutExpired:
                rc, out = 2, "timeout"
            lines = [l for l in out.split("\n") if l.startswith("VIOLATION") or l.startswith("  what") or l.startswith("  obligation") or l.startswith("  correspondence")]
            res = dict(id=sid, property=prop, exit=rc, caught=rc == 1 and any(l.startswith("VIOLATION") for l in lines),
                       no_failing_input=any("no-failing-input-found" in l for l in lines), seconds=round(time.time() - t0, 1),
                       report=[l[:300] for l in lines[:2]])
        sh(f"git -C {repo} checkout -q -- .")
        print(json.dumps(res), flush=True)
        results.append(res)
        if "--write-meta" in args:
            mp = f"{d}/meta.json"
            m = json.load(open(mp)) if os.path.exists(mp) else {}
            m["checks_now"] = {prop: dict(caught=res["caught"], no_failing_input=res.get("no_failing_input", False), seconds=res.get("seconds"), report=res.get("report", []))}
            json.dump(m, open(mp, "w"), indent=1)
finally:
    if own:
        subprocess.run(["git", "-C", "/repo", "worktree", "remove", "--force", repo])
        subprocess.run(["rm", "-rf", own])
    # the checks regenerate lean/Nutree/Generated from VERIF_REPO: restore the tables of /repo
    sh(f"cd {VERIF} && python3 translate/gen_tables.py /repo")
if outf:
    json.dump(results, open(outf, "w"), indent=1)
n = len(results)
c = sum(1 for r in results if r["caught"])
w = sum(1 for r in results if r["caught"] and not r.get("no_failing_input"))
print(f"seeded changes: {n}, reported: {c}, with a concrete failing input: {w}")
sys.exit(0 if c == n else 1)
