#!/bin/sh
# applies every seeded/harmless/*.diff to a scratch worktree of /repo (outside /repo and /verif), runs the
# pinned suite and all 20 quick checks against it (VERIF_REPO), removes the worktree, regenerates the tables.
# every line must end with "exit 0".
cd "$(dirname "$0")/.." || exit 2
W=$(mktemp -d /tmp/harmless.XXXXXX)
git -C /repo worktree add -q --detach "$W/repo" HEAD || exit 2
rc=0
for d in seeded/harmless/*.diff; do
  git -C "$W/repo" checkout -q -- . && git -C "$W/repo" apply "$PWD/$d" || { echo "cannot apply $d"; rc=2; continue; }
  echo "== $d: $(tools/run_tests.sh "$W/repo" | tail -1)"
  for p in 01 02 03 04 05 06 07 08 09 10 11 12 13 14 15 16 17 18 19 20; do
    VERIF_REPO="$W/repo" ./check C$p --tier quick 2>&1 | tail -1 | grep -v -- "-> exit 0" && rc=1
  done
done
git -C /repo worktree remove --force "$W/repo"; rm -rf "$W"
python3 translate/gen_tables.py /repo >/dev/null
echo "harmless rewrites: rc=$rc"
exit $rc
