#!/usr/bin/env python3
"""keep_seeded.py <Cxx> [extra checks...]: confirm every patch*.diff in /tmp/wt/<Cxx>_out, run the checks, store under seeded/."""
import json, os, shutil, subprocess, sys
P = sys.argv[1]
extra = [a for a in sys.argv[2:] if not a.startswith("--")]
ROUND2 = "--r2" in sys.argv   # round 2: /tmp/wt/R2<Cxx>_out, stored as <Cxx>-c / <Cxx>-d
ROUND3 = "--r3" in sys.argv   # round 3: /tmp/wt/R3<Cxx>_out, stored as <Cxx>-e / <Cxx>-f
ROUND4 = "--r4" in sys.argv   # round 4: /tmp/wt/R4<Cxx>_out, stored as <Cxx>-g / <Cxx>-h
ROUND5 = "--r5" in sys.argv   # round 5: /tmp/wt/R5<Cxx>_out, stored as <Cxx>-i / <Cxx>-j
VERIF = os.path.dirname(os.path.dirname(os.path.abspath(__file__)))
src = f"/tmp/wt/{'R5' if ROUND5 else 'R4' if ROUND4 else 'R3' if ROUND3 else 'R2' if ROUND2 else ''}{P}_out"
for suffix in ("", "2"):
    patch = f"{src}/patch{suffix}.diff"
    demo = f"{src}/demo{suffix}.py"
    meta = f"{src}/meta{suffix}.json"
    if not (os.path.exists(patch) and os.path.exists(demo)):
        continue
    name = f"{P}-{('i' if suffix == '' else 'j') if ROUND5 else ('g' if suffix == '' else 'h') if ROUND4 else ('e' if suffix == '' else 'f') if ROUND3 else ('c' if suffix == '' else 'd') if ROUND2 else ('a' if suffix == '' else 'b')}"
    out = subprocess.run([f"{VERIF}/tools/try_seeded.py", patch, demo, P] + extra, stdout=subprocess.PIPE, stderr=subprocess.STDOUT, text=True).stdout
    try:
        res = json.loads(out[out.index("{"):])
    except Exception:
        print(name, "ERROR", out[-500:])
        continue
    ok = res.get("demo_without") == 0 and res.get("demo_with") == 1 and "failures=0 errors=0" in res.get("tests", "") and "passed=72" in res.get("tests", "")
    caught = {c: v["exit"] == 1 for c, v in res.get("checks", {}).items()}
    print(name, "confirmed" if ok else "NOT-CONFIRMED", "caught:", caught, res.get("tests"))
    for c, v in res.get("checks", {}).items():
        for l in v["lines"][:2]:
            print("    ", c, l[:220])
    if ok:
        d = f"{VERIF}/seeded/{name}"
        os.makedirs(d, exist_ok=True)
        shutil.copy(patch, f"{d}/patch.diff")
        shutil.copy(demo, f"{d}/demo.py")
        m = json.load(open(meta)) if os.path.exists(meta) else {}
        m["confirmed"] = dict(tests=res["tests"], demo_without_change_exit=0, demo_with_change_exit=1,
                              ran=["git -C /repo apply patch.diff", "tools/run_tests.sh /repo", "cd /repo && /venv/bin/python demo.py", "./check <id> (quick)", "git -C /repo checkout -- ."])
        m["checks"] = {c: dict(caught=v["exit"] == 1, seconds=v["s"], report=v["lines"][:2]) for c, v in res["checks"].items()}
        json.dump(m, open(f"{d}/meta.json", "w"), indent=1)
