#!/usr/bin/env python3
"""Regenerates MANIFEST.json from the table below (development helper)."""
import json
import os

HERE = os.path.dirname(os.path.abspath(__file__))
VERIF = os.path.dirname(HERE)

COMMON_NOTE = (
    "Trusted: Lean 4.33.0 kernel and the axioms propext/Classical.choice/Quot.sound where #print axioms shows them "
    "(audited on every run; no sorry, no own axioms, no native_decide/bv_decide); the hand-written model "
    "(lean/Nutree/Model) is tied to /repo by the correspondence run of the same check (differential testing, bounded) and, "
    "for tables, by the translator translate/gen_tables.py that regenerates lean/Nutree/Generated from the source text on every run."
)

# id -> (technique, level text, level note extra, design ref)
CLAIMED = {
    "C01": (
        "Lean 4 invariant proof (WF preserved by every operation of the model, induction over histories) + differential correspondence + decidable WF check on the implementation's observed state",
        "Theorems in lean/Nutree/Properties/C01.lean: WF (unique node identities, registry = reachable set, exact data_id index, sibling uniqueness) holds initially and is preserved by every modelled operation, hence after every history; removed nodes are neither reachable nor registered. Tie: every single op on every small forest + random histories on real trees, compared step by step with the compiled model; the Lean-decidable WF conjuncts and the parent/owner links are evaluated on the implementation's own state after every step.",
        "parent/owner links are derived in the model and observed through the API on the implementation",
        "DESIGN.md §6 C01",
    ),
    "C02": (
        "Lean 4 theorems (index exactness is a WF conjunct; query exactness corollaries) + differential correspondence + decidable index check on observed state",
        "IndexExact is a conjunct of the inductive invariant WF; the lookup/clone queries are proved to return exactly the present nodes with the id. Tie: histories biased to set_data on singles and clone groups under hash ids, calc_data_id hooks and explicit ids; all queries for present and past ids after every step.",
        "",
        "DESIGN.md §6 C02",
    ),
    "C03": (
        "Lean 4 theorems (SibUnique is a WF conjunct; refusal theorems per route) + collision-directed differential correspondence",
        "SibUnique is a conjunct of the inductive invariant WF; every route refuses a colliding argument with the uniqueness error and leaves the tree unchanged. Tie: tiny label alphabets make most operations collide; every route is exercised exhaustively on small forests and in random histories.",
        "",
        "DESIGN.md §6 C03",
    ),
    "C04": (
        "Lean 4 theorems (effect + frame per operation of the executable specification) + step-by-step differential correspondence of the full observable state",
        "The Lean model is the executable specification; per-operation effect/frame theorems state where the affected nodes end up and that everything else is untouched. Tie: after every step of exhaustive single ops and random histories the complete observable state of the real tree equals the model's (identity via a bijection).",
        "",
        "DESIGN.md §6 C04",
    ),
    "C05": (
        "Lean 4 theorems (un-compression inverts compression; load of a saved document rebuilds the forest) + differential round-trip correspondence under all 108 option combinations",
        "The model starts at the JSON value: makeEntry/toList/compress/header/saveJ and uncompress/fromList/loadJ mirror the code; theorems: uncompress∘compress = id under ValidMaps, loadJ(saveJ t) is the same forest (data, ids, kinds, clone groups), options are irrelevant. Tie: real save/load through files and streams, every compression method, key/value maps, callback and derived-class mappers; round-trip oracle on the implementation and document equality with the model.",
        "zip/json/file layers are trusted and exercised for real; ValidMaps hypothesis; mappers are parameters",
        "DESIGN.md §6 C05",
    ),
    "C06": (
        "Lean 4 theorems (structural induction) about a hand-written executable model + differential correspondence with the implementation",
        "Theorems in lean/Nutree/Properties/C06.lean: the iterator loops equal the declarative orders (pre, post, level/zigzag = structural levels with per-level direction), visit = pruned order cut at the first stop, all signal spellings normalise correctly; proved for all trees, start nodes, callbacks. The tie to /repo is an exhaustive small-scope + random differential run against the compiled model and the specification.",
        "callbacks are functions of the node; RANDOM_ORDER/UNORDERED compared as multisets",
        "DESIGN.md §6 C06",
    ),
    "C07": (
        "Lean 4 theorems (copies = relabelled values with fresh ids; frame across trees) + differential correspondence over multi-tree histories + faithfulness oracle",
        "Copies are modelled by the code's own recursion (`_add_from`) creating fresh nodes; theorems state that the copy carries the same data objects, data_ids and kinds position by position, that the source is unchanged, and that an operation on one tree leaves every other tree unchanged. Tie: multi-tree histories with ~45% copy operations by every route, then further mutations on either side; every tree is compared with the model after every step.",
        "known finding KF-C07-typed-copy-default-kind (pinned by a test) is mirrored by the model and reported as KNOWN-FINDING",
        "DESIGN.md §6 C07",
    ),
    "C08": (
        "Lean 4 theorems (in-place result = declarative keep-set restriction; copy = the same up to the known duplicate) + exhaustive verdict-assignment correspondence",
        "filterSpec is defined independently (scan order, first stop, accepted nodes + ancestors + selected branches + skip-keep-self nodes); theorems relate the in-place algorithm and the copying algorithm to it. Tie: all 6^n verdict assignments on all forests up to the size bound, every start node, all spellings, in place and copying, on the real code vs model vs specification.",
        "known finding KF-C08-filtered-duplicates (pinned by test_filtered) is mirrored by the model, characterised exactly (stripDup) and reported as KNOWN-FINDING",
        "DESIGN.md §6 C08",
    ),
    "C17": (
        "Lean 4 theorems (export loops = path-based node/edge specification; numbering bijection; RDF triple set) + parsing of the real DOT/Mermaid text and rdflib graphs",
        "The exports are modelled as structured output (declared keys with labels, edges with labels, RDF triples) following the loops of dot.py/mermaid.py/rdf.py; theorems: declared nodes = one per distinct data_id (or per tree node), edges = exactly one per node whose parent is exported, carrying kind and name, Mermaid numbering is a bijection, RDF triples = specification set, excluding the root removes exactly its declaration and the edges leaving it. Tie: the emitted text / rdflib graph of the real exports is parsed into the same structure for all small plain and typed trees with clones, every start node, 3 formats x unique_nodes x add_root/add_self.",
        "label quoting/escaping and the Graphviz/mmdc conversions are not modelled; rdflib's set semantics is trusted",
        "DESIGN.md §6 C17",
    ),
    "C18": (
        "Lean 4 theorems about a small-step lock semantics + `decide` over the lock programs regenerated from the source text + controlled two-thread schedules on the real code",
        "The translator abstracts every snapshot method of the source to a program over acq/rel/read/call; `generated_guarded` (decide over the regenerated table) states that every read happens while the lock is held and `generated_reentrant` that the lock is an RLock; the interleaving theorems (mutual exclusion, snapshot atomicity, blocking, no self-deadlock) hold for all guarded programs and all schedules. Tie/search: thread A holds `with tree:` with a sentinel in the tree while thread B runs each snapshot operation; B must block and never see the sentinel; reader-first schedules; one preemption at every line the reader executes inside `__enter__` and inside each snapshot operation (sys.settrace, no patching: the writer's paired change must be seen entirely or not at all); a 4.5 s critical section in the thorough tier / search; nested re-entrant use; stress runs with paired writes.",
        "CPython's scheduler/GIL and RLock implementation are outside the model; the syntactic abstraction of the translator over-approximates reads",
        "DESIGN.md §6 C18",
    ),
    "C19": (
        "Lean 4 theorems about the model of the directory scan (mirror, sortedness, listing-order invariance, inverse mappers, key-map hazard over the regenerated table) + real temporary directory trees",
        "scan/visit mirror load_tree_from_fs on a rose tree of directory entries in listing order; theorems: one node per entry at the same depth with its payload, files before directories and name order when sorting, independence of the listing order, listing order kept otherwise, FS mappers inverse, the empty FileSystemTree key map (regenerated) avoids the `s` clash. Tie: real directory trees (nesting, empty folders, unicode and sort-sensitive names, sizes, mtimes) scanned by the real code and the model; save/load round trip with the FS mappers.",
        "os/pathlib semantics, symlinks, special files, permissions and concurrent modification are outside the model",
        "DESIGN.md §6 C19",
    ),
    "C20": (
        "Lean 4 theorems universally quantified over the draw stream ('for all seeds' = 'for all draw streams') + recorded-draw replay against the real generator",
        "The model consumes an explicit list of draws (function, arguments, result) in the order the code calls random.*; theorems for every draw stream: types allowed by the relations, counts fixed or within the randomizer's range (0 when skipped), attributes = merge of `*`/type/relation specs with {idx}/{hier_idx} expanded, values in their declared ranges, skipped attributes absent, typed trees carry the type name as kind. Tie: random structure definitions with every randomizer class; the draws made by the real build_random_tree are recorded by wrapping the `random` module for the duration of the call and replayed on the model, trees compared exactly; Conforms oracle on the implementation.",
        "PRNG quality, fabulist text content and float arithmetic of uniform() are outside the model; the generated relation graphs are acyclic or have self-loops that die out",
        "DESIGN.md §6 C20",
    ),
    "C09": (
        "Lean 4 theorems (search loop with counter/break = filter+take; index access decision table) + differential correspondence",
        "Theorems in lean/Nutree/Properties/C09.lean: the `_search` loop equals the matching nodes of the pre-order cut to the first k; find_first = head; index lookups with a limit are a prefix of the clone list; tree[key] resolves node_id, then data_id, then data with KeyError/Ambiguous/ValueError as specified. Tie: all small forests with clones x start nodes x patterns x limits x key kinds.",
        "regex fullmatch is an abstract predicate tabulated with the real `re`; index exactness is C02",
        "DESIGN.md §6 C09",
    ),
    "C10": (
        "Lean 4 theorems (parent-chain model = path specification, under unique node ids) + differential correspondence",
        "Theorems in lean/Nutree/Properties/C10.lean: every relationship accessor, modelled as the implementation computes it (search of the parent by identity, parent-chain walks, identity index), equals its path-based specification on every tree with pairwise distinct node ids; pairs: descendant/ancestor = proper prefix, common ancestor = longest common prefix. Tie: exhaustive small-scope + random differential run (33 accessors per node, 3 per ordered pair), including ==-equal siblings.",
        "the stored _parent links are observed through the API, not modelled as state",
        "DESIGN.md §6 C10",
    ),
    "C11": (
        "Lean 4 theorems about the model of diff_tree, for every iteration order of the added set + projection/mark oracles on the real diff",
        "diffTree mirrors compare/_copy_children/the re-classification loop/reduce; theorems: identical inputs give no marks, both projections, marks exactly on one-sided children, moved pairs, true order indices, reduce = marked nodes and ancestors, for all orders of the added set. Tie: all pairs of small labelled forests and random mutated pairs x (ordered, reduce); property oracles on the implementation's result and comparison with the model modulo the nondeterministic choice of the moved-here clone.",
        "IdFaithful labels (== iff same data_id)",
        "DESIGN.md §6 C11",
    ),
    "C12": (
        "Lean 4 theorems (layout of the written node list; loader = independent decoder) + layout oracle on real documents + independent encoder for the reading side",
        "Theorems: entries are in pre-order, entry i names its parent's 1-based index (< i, 0 for tops), a repeated occurrence with equal kind is exactly a reference to the first occurrence, header constants come from the regenerated table, documents without the nutree header are refused. Tie: a layout checker written from the documentation runs on every saved document; documents produced by an independent encoder, the user guide's literal example and malformed headers are loaded by the real code and by the model.",
        "",
        "DESIGN.md §6 C12",
    ),
    "C13": (
        "Lean 4 theorems (operations are validate-then-apply: a refusal returns the old state; WF after failing callbacks) + fault enumeration on the real code",
        "In the model every single-node operation validates before it mutates, so a refusal carries no new state; multi-node operations are proved to refuse up front; WF is preserved when a callback fails. Tie: every invalid argument on every small forest, malformed-heavy histories, raising calc_data_id / sort-key / in-place filter predicate callbacks, stale references (removed nodes as `before=` and as receivers of calls), arguments outside the model's alphabet (unhashable ids, a node_id in use, filter(None), ...), documents read by load / from_dict with raising mappers, and every read-only operation with its callback raising at the k-th call.",
        "known finding KF-C13-remove-keep-clones-partial is mirrored by the model and reported as KNOWN-FINDING",
        "DESIGN.md §6 C13",
    ),
    "C14": (
        "Lean 4 theorems (to_dict mirrors the node; from_dict∘to_dict_list rebuilds the forest) + differential correspondence through json",
        "toDict/fromDictL mirror the code; theorems: one dict per node, nested alike, data_id present iff custom; from_dict(to_dict_list t) has the same shape, order, data, ids and clone groups, for string data without mapper and for ANY data objects with a pair of inverse mappers (MapperOK). Tie: all small forests + random forests with clones/explicit ids, string data and objects with inverse mappers, directly and through json.dumps/loads; emptied trees.",
        "",
        "DESIGN.md §6 C14",
    ),
    "C15": (
        "Lean 4 theorems (list lemmas: loops = filter by kind) + differential correspondence",
        "Theorems in lean/Nutree/Properties/C15.lean: each kind-aware query, modelled as the loop in typed_tree.py, equals the untyped query applied to the child/sibling list filtered by kind; any_kind = untyped. Tie: exhaustive typed forests x all kind assignments + random differential run.",
        "",
        "DESIGN.md §6 C15",
    ),
    "C16": (
        "Lean 4 theorems (prefix = path specification; depth-list parser recovers the shape; decide over the regenerated connector table) + differential correspondence on text",
        "Theorems in lean/Nutree/Properties/C16.lean: format lines = one per node in pre-order with the documented prefix; under uniform segment widths the prefixes determine the shape; every style of the CONNECTORS table (regenerated from common.py on every run) has uniform widths and valid arity by `decide`. Tie: text equality of format() output against model and specification for all small forests x start nodes x styles x title/add_self/repr/join.",
        "node rendering (str.format / callable) is a parameter",
        "DESIGN.md §6 C16",
    ),
}

PENDING_REASON = "check not built yet (work in progress; see DESIGN.md §9 order of work) — will be claimed once its model, theorems and correspondence exist"


def main():
    props = [json.loads(l) for l in open(os.path.join(VERIF, "properties.jsonl"))]
    checks = []
    na = []
    extra_na = {}
    try:
        extra_na = json.load(open(os.path.join(HERE, "not_applicable.json")))
    except FileNotFoundError:
        pass
    for p in props:
        pid = p["id"]
        if pid in CLAIMED:
            tech, text, note, ref = CLAIMED[pid]
            checks.append(
                dict(
                    property_id=pid,
                    quick_cmd=f"./check {pid} --tier quick",
                    thorough_cmd=f"./check {pid} --tier thorough",
                    evidence_file=f"evidence/{pid}.json",
                    replay_cmd_template=f"./check {pid} --replay {{path}}",
                    engine="lean4-model+correspondence",
                    level_claimed=dict(category="proof", text=text, design_ref=ref),
                    level_note=COMMON_NOTE + " " + note,
                    technique=tech,
                )
            )
        else:
            na.append(dict(property_id=pid, reason=extra_na.get(pid, PENDING_REASON)))
    man = dict(
        version=1,
        setup_cmd="python3 translate/gen_tables.py /repo && cd lean && lake build",
        hooks=dict(
            guard="MAR10_NUTREE_VERIF",
            enable="no hooks are needed: all observations go through the public API (checks set MAR10_NUTREE_VERIF=1 anyway)",
            baseline_off_cmd="cd /repo && /venv/bin/python -m pytest -ra -q -p no:cacheprovider --timeout=900 --continue-on-collection-errors",
            source_commits=[],
            add_only=True,
        ),
        engines=[
            dict(
                name="lean4-model+correspondence",
                path="lean/ harness/ translate/ check",
                serves_properties=sorted(CLAIMED),
                kind_free_text="Lean 4 proofs about a hand-written executable model; translator for tables; differential correspondence harness driving /repo and the compiled model",
            )
        ],
        checks=checks,
        not_applicable=na,
        notes="Exit 2 = internal error/time-out of the machinery (never a violation). VERIF_REPO points the checks at another checkout (self-test).",
    )
    with open(os.path.join(VERIF, "MANIFEST.json"), "w") as f:
        json.dump(man, f, indent=1, ensure_ascii=False)
        f.write("\n")


if __name__ == "__main__":
    main()
