#!/bin/sh
# try_patch.sh <patch.diff> <check ids...>: apply a patch to /repo, run the quick checks, ALWAYS revert.
P="$1"; shift
[ -z "$(git -C /repo status --short)" ] || { echo "/repo not clean"; exit 2; }
git -C /repo apply "$P" || exit 2
for c in "$@"; do
  out=$(cd /verif && ./check "$c" --tier quick 2>&1); rc=$?
  echo "$c exit=$rc :: $(echo "$out" | grep -E '^VIOLATION|^  what|^  obligation|^  correspondence' | head -2 | cut -c1-260 | tr '\n' ' ')"
done
git -C /repo checkout -- .
(cd /verif && python3 translate/gen_tables.py /repo >/dev/null)
