#!/usr/bin/env python3
"""Confirm a seeded change and run checks against it.
usage: try_seeded.py <patch.diff> <demo.py> <check ids...>
Applies the patch to /repo (git apply), runs the pinned suite and the demo, runs the checks
(quick tier), then ALWAYS reverts (/repo: git checkout -- .)."""
import json
import os
import subprocess
import sys
import time

patch, demo = sys.argv[1], sys.argv[2]
checks = sys.argv[3:]
VERIF = os.path.dirname(os.path.dirname(os.path.abspath(__file__)))


def sh(cmd, **kw):
    p = subprocess.run(cmd, shell=True, stdout=subprocess.PIPE, stderr=subprocess.STDOUT, text=True, **kw)
    return p.returncode, p.stdout


res = {}
rc, out = sh("git -C /repo status --short")
assert out.strip() == "", "repo not clean: " + out
rc, out = sh(f"cd /repo && /venv/bin/python {demo}")
res["demo_without"] = rc
rc, out = sh(f"git -C /repo apply {patch}")
assert rc == 0, out
try:
    rc, out = sh(f"{VERIF}/tools/run_tests.sh /repo")
    res["tests"] = out.strip()
    rc, out = sh(f"cd /repo && /venv/bin/python {demo}")
    res["demo_with"] = rc
    res["demo_out"] = out.strip()[-300:]
    res["checks"] = {}
    for c in checks:
        t0 = time.time()
        rc, out = sh(f"cd {VERIF} && ./check {c}", timeout=1200)
        lines = [l for l in out.split("\n") if l.startswith("VIOLATION") or l.startswith("  what") or l.startswith("  obligation") or l.startswith("  correspondence")]
        res["checks"][c] = dict(exit=rc, s=round(time.time() - t0, 1), lines=[l[:400] for l in lines[:3]])
finally:
    sh("git -C /repo checkout -- .")
    sh(f"cd {VERIF} && python3 translate/gen_tables.py /repo")
print(json.dumps(res, indent=1))
