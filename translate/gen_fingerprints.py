#!/usr/bin/env python3
"""gen_fingerprints.py <repo> [--pin]

One fingerprint per function / method of nutree/*.py: sha256 of the `ast.dump` of its definition with docstrings removed
(comments, blank lines and positions do not count).  Read from the source TEXT (nothing is imported).

Without --pin: prints {"functions": {...}, "changed": [...]} where `changed` lists the functions whose fingerprint differs
from translate/fingerprints.json (the fingerprints of the code the model was last validated against), new ones and
removed ones.  The checks use `changed` to spend a larger search budget on properties whose anchored files changed
(harness/main.py: escalation) — never as a verdict.
With --pin: rewrites translate/fingerprints.json (after a `fix:` commit in /repo)."""
import ast
import glob
import hashlib
import json
import os
import sys

HERE = os.path.dirname(os.path.abspath(__file__))
PINNED = os.path.join(HERE, "fingerprints.json")


def canon(node):
    """a dump of the AST that does not depend on the Python version running the translator (3.11 / 3.12 / 3.13 differ in
    `ast.dump`: empty fields, `type_params`): node type + its non-empty fields in declaration order; positions, contexts,
    type comments and string-constant kinds are left out"""
    if isinstance(node, ast.AST):
        parts = []
        for f in node._fields:
            if f in ("ctx", "type_comment", "type_params", "kind"):
                continue
            v = getattr(node, f, None)
            if v is None or v == []:
                continue
            parts.append(f + "=" + canon(v))
        return type(node).__name__ + "(" + ",".join(parts) + ")"
    if isinstance(node, list):
        return "[" + ",".join(canon(x) for x in node) + "]"
    return repr(node)


def strip_doc(node):
    for n in ast.walk(node):
        body = getattr(n, "body", None)
        if isinstance(body, list) and body and isinstance(body[0], ast.Expr) and isinstance(getattr(body[0], "value", None), ast.Constant) \
                and isinstance(body[0].value.value, str):
            n.body = body[1:] or [ast.Pass()]
    return node


def fingerprints(repo):
    out = {}
    for path in sorted(glob.glob(os.path.join(repo, "nutree", "*.py"))):
        rel = "nutree/" + os.path.basename(path)
        try:
            tree = ast.parse(open(path, encoding="utf8").read())
        except SyntaxError:
            out[rel + "::<unparsable>"] = "x"
            continue

        def visit(node, prefix):
            for ch in ast.iter_child_nodes(node):
                if isinstance(ch, (ast.FunctionDef, ast.AsyncFunctionDef)):
                    name = prefix + ch.name
                    k = f"{rel}::{name}"
                    i = 2
                    while k in out:      # property getter/setter pairs, redefinitions
                        k = f"{rel}::{name}#{i}"
                        i += 1
                    out[k] = hashlib.sha256(canon(strip_doc(ch)).encode()).hexdigest()[:16]
                    visit(ch, name + ".")
                elif isinstance(ch, ast.ClassDef):
                    visit(ch, prefix + ch.name + ".")
        visit(tree, "")
        # module level statements (constants, tables) as one unit
        top = [canon(s) for s in tree.body if not isinstance(s, (ast.FunctionDef, ast.AsyncFunctionDef, ast.ClassDef, ast.Import, ast.ImportFrom))
               and not (isinstance(s, ast.Expr) and isinstance(getattr(s, "value", None), ast.Constant))]
        out[rel + "::<module>"] = hashlib.sha256("\n".join(top).encode()).hexdigest()[:16]
        # class-level statements (class attributes such as DEFAULT_KEY_MAP)
        for s in tree.body:
            if isinstance(s, ast.ClassDef):
                attrs = [canon(x) for x in s.body if not isinstance(x, (ast.FunctionDef, ast.AsyncFunctionDef, ast.ClassDef))
                         and not (isinstance(x, ast.Expr) and isinstance(getattr(x, "value", None), ast.Constant))]
                out[f"{rel}::{s.name}.<class>"] = hashlib.sha256("\n".join(attrs).encode()).hexdigest()[:16]
    return out


def changed_since_pinned(repo):
    cur = fingerprints(repo)
    try:
        pinned = json.load(open(PINNED))["functions"]
    except Exception:
        return cur, sorted(cur)
    ch = sorted(k for k in set(cur) | set(pinned) if cur.get(k) != pinned.get(k))
    return cur, ch


if __name__ == "__main__":
    repo = sys.argv[1] if len(sys.argv) > 1 and not sys.argv[1].startswith("--") else "/repo"
    if "--pin" in sys.argv:
        cur = fingerprints(repo)
        json.dump({"functions": cur}, open(PINNED, "w"), indent=0, sort_keys=True)
        print(f"pinned {len(cur)} fingerprints")
    else:
        cur, ch = changed_since_pinned(repo)
        print(json.dumps({"n": len(cur), "changed": ch}))
