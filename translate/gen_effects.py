"""Translator for C13 (read-only operations): a syntactic effect table.

For every public read-only entry point of nutree (iterators, find*, format*, to_*, save, export,
relationship accessors, copy/copy_to/filtered/diff w.r.t. their *source*), and for every method of
the same class that it calls on a protected object (closed transitively), collect the statements that
could mutate a protected object:
  * assignment / augmented assignment / `del` whose target is an attribute or subscript rooted at a
    protected name (`self._children = …`, `n._meta[k] = v`, `del self._x`),
  * a call of a container mutator (`append, extend, insert, remove, pop, clear, sort, reverse, update,
    setdefault, add, discard, popitem`) on an attribute chain rooted at a protected name
    (`self._children.reverse()`),
  * a call of a mutating nutree method (`add, add_child, …, set_data, set_meta, filter, _register, …`)
    with a protected receiver.
Protected names: `self` (or the listed parameters of module functions), loop variables iterating a
protected expression, names assigned from an expression whose root is protected.  No alias analysis
beyond that: this SUPPORTS the before/after comparison done by the correspondence, it does not
replace it.  Nothing is imported from the repository; only `ast` on the text.
"""
from __future__ import annotations

import ast
import os

from gen_tables import find_class, lean_str, parse, write_if_changed

CONTAINER_MUTATORS = {"append", "extend", "insert", "remove", "pop", "clear", "sort", "reverse", "update", "setdefault", "add", "discard", "popitem"}
TREE_MUTATORS = {"add", "add_child", "append_child", "prepend_child", "prepend_sibling", "append_sibling", "move_to", "remove", "remove_children",
                 "clear", "sort", "sort_children", "set_data", "rename", "set_meta", "clear_meta", "update_meta", "filter", "_register", "_unregister",
                 "from_dict", "_add_from", "_add_filtered"}

# public read-only entry points: file, class (None = module level), function, protected parameter names
ROOTS = [
    ("node.py", "Node", m, ["self"]) for m in [
        "iterator", "visit", "find_all", "find_first", "format", "format_iter", "to_dict", "to_list_iter", "to_dot", "to_rdf_graph",
        "to_mermaid_flowchart", "get_children", "first_child", "last_child", "get_siblings", "first_sibling", "prev_sibling", "next_sibling",
        "last_sibling", "get_clones", "depth", "count_descendants", "calc_depth", "calc_height", "get_index", "is_system_root", "is_top", "is_leaf",
        "is_clone", "is_first_sibling", "is_last_sibling", "has_children", "get_top", "is_descendant_of", "is_ancestor_of", "get_common_ancestor",
        "get_parent_list", "get_path", "up", "get_meta", "copy", "copy_to", "filtered"]
] + [
    ("tree.py", "Tree", m, ["self"]) for m in [
        "iterator", "visit", "format", "format_iter", "find_all", "find_first", "__getitem__", "__contains__", "to_dict_list", "to_list_iter", "save",
        "to_dot", "to_dotfile", "to_mermaid_flowchart", "to_rdf_graph", "calc_height", "first_child", "last_child", "copy", "copy_to", "filtered", "diff",
        "calc_data_id", "get_toplevel_nodes"]
] + [
    ("typed_tree.py", "TypedNode", m, ["self"]) for m in [
        "get_children", "first_child", "last_child", "has_children", "get_siblings", "first_sibling", "last_sibling", "prev_sibling", "next_sibling",
        "get_index", "is_first_sibling", "is_last_sibling", "to_dot", "copy", "filtered", "iterator"]
] + [
    ("typed_tree.py", "TypedTree", m, ["self"]) for m in ["first_child", "last_child", "iter_by_type", "save"]
] + [
    ("dot.py", None, "node_to_dot", ["node"]), ("dot.py", None, "tree_to_dotfile", ["tree"]),
    ("mermaid.py", None, "_node_to_mermaid_flowchart_iter", ["node"]), ("mermaid.py", None, "node_to_mermaid_flowchart", ["node"]),
    ("rdf.py", None, "node_to_rdf", ["tree_node"]), ("rdf.py", None, "tree_to_rdf", ["tree"]),
    ("rdf.py", None, "_add_child_node", ["tree_node"]), ("rdf.py", None, "_add_child_nodes", ["tree_node"]),
    ("diff.py", None, "diff_tree", ["t0", "t1"]), ("diff.py", None, "_copy_children", ["source"]), ("diff.py", None, "_find_child", ["arr", "child"]),
    ("fs.py", "FileSystemTree", "serialize_mapper", ["node"]),
]
# protected parameters of nested functions (by name)
NESTED_PROTECTED = {"compare": ["p0", "p1"], "_ch": ["n"], "_is_last": ["p"], "_key": ["n"], "_id": ["n"], "_visit": []}
BASES = {"TypedNode": ("node.py", "Node"), "TypedTree": ("tree.py", "Tree"), "FileSystemTree": ("tree.py", "Tree")}


def root_name(node):
    """the Name at the root of an attribute / subscript / call chain, and whether an attribute occurs on the way"""
    has_attr = False
    while True:
        if isinstance(node, ast.Attribute):
            has_attr = True
            node = node.value
        elif isinstance(node, ast.Subscript):
            node = node.value
        elif isinstance(node, ast.Call):
            node = node.func
        else:
            break
    return (node.id if isinstance(node, ast.Name) else None), has_attr


class Scan(ast.NodeVisitor):
    def __init__(self, protected, src_lines, where):
        self.protected = set(protected)
        self.hits = []
        self.calls = set()   # methods called on protected receivers (for the closure)
        self.src = src_lines
        self.where = where

    def text(self, node):
        try:
            return self.src[node.lineno - 1].strip()[:100]
        except Exception:  # noqa
            return "?"

    def is_prot_expr(self, e):
        # `x.__class__(…)` constructs a fresh object: not one of the protected ones
        for n in ast.walk(e):
            if isinstance(n, ast.Attribute) and n.attr == "__class__":
                return False
        # `x.copy()` is a fresh object
        if isinstance(e, ast.Call) and isinstance(e.func, ast.Attribute) and e.func.attr in ("copy", "deepcopy"):
            return False
        r, _ = root_name(e)
        return r in self.protected

    def bind(self, target, value_is_protected):
        for n in ast.walk(target):
            if isinstance(n, ast.Name):
                if value_is_protected:
                    self.protected.add(n.id)
                else:
                    self.protected.discard(n.id)

    def check_target(self, t, node):
        if isinstance(t, (ast.Tuple, ast.List)):
            for e in t.elts:
                self.check_target(e, node)
            return
        if isinstance(t, (ast.Attribute, ast.Subscript)):
            r, has_attr = root_name(t)
            if r in self.protected and (has_attr or isinstance(t, ast.Subscript)):
                self.hits.append(f"{self.where}: {self.text(node)}")

    def visit_FunctionDef(self, node):
        # nested function: its own protected parameters
        inner = Scan(set(self.protected) | set(NESTED_PROTECTED.get(node.name, [])), self.src, self.where + "." + node.name)
        for a in node.args.args:
            if a.arg not in NESTED_PROTECTED.get(node.name, []) and a.arg in inner.protected and a.arg != "self":
                inner.protected.discard(a.arg)
        for s in node.body:
            inner.visit(s)
        self.hits += inner.hits
        self.calls |= inner.calls

    visit_AsyncFunctionDef = visit_FunctionDef

    def visit_Lambda(self, node):
        self.generic_visit(node)

    def visit_Assign(self, node):
        for t in node.targets:
            self.check_target(t, node)
        self.visit(node.value)
        prot = self.is_prot_expr(node.value) and not isinstance(node.value, (ast.Dict, ast.List, ast.Set, ast.Tuple, ast.ListComp, ast.DictComp, ast.SetComp))
        for t in node.targets:
            if isinstance(t, (ast.Name, ast.Tuple, ast.List)):
                self.bind(t, prot)

    def visit_AugAssign(self, node):
        self.check_target(node.target, node)
        self.visit(node.value)

    def visit_AnnAssign(self, node):
        if node.value is not None:
            self.check_target(node.target, node)
            self.visit(node.value)
            if isinstance(node.target, ast.Name):
                self.bind(node.target, self.is_prot_expr(node.value))

    def visit_Delete(self, node):
        for t in node.targets:
            self.check_target(t, node)

    def visit_For(self, node):
        self.visit(node.iter)
        it = node.iter
        # enumerate(x) / reversed(x) / x.items() …: look through one call layer
        inner = it.args[0] if isinstance(it, ast.Call) and isinstance(it.func, ast.Name) and it.func.id in ("enumerate", "reversed", "list", "sorted", "iter") and it.args else it
        self.bind(node.target, self.is_prot_expr(inner))
        for s in node.body + node.orelse:
            self.visit(s)

    def visit_comprehension(self, node):
        self.visit(node.iter)
        self.bind(node.target, self.is_prot_expr(node.iter))
        for c in node.ifs:
            self.visit(c)

    def visit_Call(self, node):
        f = node.func
        if isinstance(f, ast.Attribute):
            r, has_attr = root_name(f.value)
            recv_prot = r in self.protected
            if recv_prot:
                # any mutator called on a protected receiver (`self._children.reverse()`, `kids.sort()` with
                # `kids = self._children`, `n.set_meta(…)`, `self.remove()`)
                if f.attr in CONTAINER_MUTATORS or f.attr in TREE_MUTATORS:
                    self.hits.append(f"{self.where}: {self.text(node)}")
                if isinstance(f.value, ast.Name) or (isinstance(f.value, ast.Attribute) and f.value.attr in ("_root", "system_root", "_parent")):
                    self.calls.add(f.attr)
        self.generic_visit(node)


def find_func(mod, cls, name):
    body = mod.body if cls is None else (find_class(mod, cls).body if find_class(mod, cls) else [])
    for n in body:
        if isinstance(n, (ast.FunctionDef, ast.AsyncFunctionDef)) and n.name == name:
            return n
    return None


def generate(repo, outdir):
    problems = []
    mods, srcs = {}, {}

    def load(fname):
        if fname not in mods:
            m, s = parse(repo, fname)
            mods[fname] = m
            srcs[fname] = s.split("\n")
        return mods[fname]

    hits = []
    analysed = []
    seen = set()
    todo = list(ROOTS)
    while todo:
        fname, cls, name, prot = todo.pop(0)
        key = (fname, cls, name)
        if key in seen:
            continue
        seen.add(key)
        mod = load(fname)
        f = find_func(mod, cls, name)
        if f is None:
            if cls in BASES:   # inherited
                bf, bc = BASES[cls]
                todo.append((bf, bc, name, prot))
            continue
        where = f"{cls + '.' if cls else ''}{name}"
        sc = Scan(prot, srcs[fname], where)
        for s in f.body:
            sc.visit(s)
        hits += sc.hits
        analysed.append(where)
        if cls is not None:
            # closure: methods of the same class (or its base) called on protected receivers, unless they are mutators by name
            for m in sorted(sc.calls):
                if m in TREE_MUTATORS or m in CONTAINER_MUTATORS:
                    continue
                if find_func(mod, cls, m) is not None:
                    todo.append((fname, cls, m, ["self"]))
                elif cls in BASES:
                    todo.append((BASES[cls][0], BASES[cls][1], m, ["self"]))
    L = ["/- GENERATED by /verif/translate/gen_effects.py from the source text of nutree — do not edit. -/",
         "namespace Nutree.Generated", "",
         "/-- the read-only entry points and the methods they reach that were analysed. -/",
         "def readOnlyFunctions : List String := [" + ", ".join(lean_str(a) for a in analysed) + "]", "",
         "/-- statements inside them that could mutate a protected node/tree object (function: source line). -/",
         "def readOnlyWrites : List String := [" + ", ".join(lean_str(h) for h in hits) + "]", "",
         "end Nutree.Generated", ""]
    changed = write_if_changed(os.path.join(outdir, "Effects.lean"), "\n".join(L))
    if hits:
        problems.append(dict(props=["C13"], what=f"a read-only entry point contains a statement that writes to its source object: {hits[:6]}"))
    return dict(changed=changed, problems=problems, hits=hits, analysed=analysed)


if __name__ == "__main__":
    import sys

    here = os.path.dirname(os.path.abspath(__file__))
    r = generate(sys.argv[1] if len(sys.argv) > 1 else "/repo", os.path.join(here, "..", "lean", "Nutree", "Generated"))
    print(len(r["analysed"]), "functions analysed")
    for h in r["hits"]:
        print("WRITE:", h)
