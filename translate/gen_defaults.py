"""Translator: default values of the documented keyword arguments of the public API.

`Generated/Defaults.lean` holds, per property, the list (Class.method.param, default as source text) read
from the signatures in the source text (python `ast`, nothing imported).  The documented values are
the hand-maintained tables in `Nutree/Spec/Defaults.lean`; `Properties/DefaultsCxx.lean` proves the two
equal.  The correspondence harnesses leave out every argument that equals its documented default, so a
changed default also shows as a concrete failing input; this table covers the parameters and
call paths the harness does not sample.
A parameter without default is `<required>`, a missing method or parameter `<missing>`.
"""
from __future__ import annotations

import ast
import os

from gen_tables import find_class, lean_str, parse, write_if_changed

N, T, TN, TT = ("node.py", "Node"), ("tree.py", "Tree"), ("typed_tree.py", "TypedNode"), ("typed_tree.py", "TypedTree")

GROUPS = {
    "C04": [
        (N, "add_child", ["before", "deep", "data_id"]), (N, "append_child", ["deep", "data_id"]), (N, "prepend_child", ["deep", "data_id"]),
        (N, "prepend_sibling", ["deep", "data_id"]), (N, "append_sibling", ["deep", "data_id"]),
        (N, "move_to", ["before"]), (N, "remove", ["keep_children", "with_clones"]),
        (N, "sort_children", ["key", "reverse", "deep"]), (T, "sort", ["key", "reverse", "deep"]),
        (N, "set_data", ["data_id", "with_clones"]), (N, "clear_meta", ["key"]), (N, "update_meta", ["replace"]),
        (T, "add_child", ["before", "deep", "data_id"]),
        (TN, "add_child", ["kind", "before", "deep", "data_id"]), (TN, "append_child", ["kind", "deep", "data_id"]),
        (TN, "prepend_child", ["kind", "deep", "data_id"]), (TT, "add_child", ["kind", "before", "deep", "data_id"]),
    ],
    "C06": [
        (N, "iterator", ["method", "add_self"]), (T, "iterator", ["method"]), (TN, "iterator", ["method", "add_self"]),
        (N, "visit", ["add_self", "method", "memo"]), (T, "visit", ["method", "memo"]),
    ],
    "C07": [
        (N, "copy", ["add_self", "predicate"]), (N, "copy_to", ["add_self", "before", "deep"]), (T, "copy", ["name", "predicate"]),
        (T, "copy_to", ["deep"]), (TN, "copy", ["add_self", "predicate"]),
    ],
    "C09": [
        (N, "find_all", ["data", "match", "data_id", "add_self", "max_results"]), (N, "find_first", ["data", "match", "data_id"]),
        (T, "find_all", ["data", "match", "data_id", "max_results"]), (T, "find_first", ["data", "match", "data_id", "node_id"]),
    ],
    "C10": [
        (N, "get_siblings", ["add_self"]), (N, "get_parent_list", ["add_self", "bottom_up"]), (N, "get_path", ["add_self", "separator", "repr"]),
        (N, "count_descendants", ["leaves_only"]), (N, "up", ["level"]), (N, "get_clones", ["add_self"]),
    ],
    "C11": [(T, "diff", ["ordered", "reduce"]), (("diff.py", None), "diff_tree", ["ordered", "reduce"])],
    "C12": [
        (T, "save", ["compression", "mapper", "meta", "key_map", "value_map"]), (T, "load", ["mapper", "file_meta", "auto_uncompress"]),
        (TT, "save", ["compression", "mapper", "meta", "key_map", "value_map"]), (N, "to_list_iter", ["mapper", "key_map", "value_map"]),
    ],
    "C14": [(T, "to_dict_list", ["mapper"]), (T, "from_dict", ["mapper"]), (N, "to_dict", ["mapper"]), (N, "from_dict", ["mapper"])],
    "C15": [
        (TN, "get_siblings", ["add_self", "any_kind"]), (TN, "first_sibling", ["any_kind"]), (TN, "last_sibling", ["any_kind"]),
        (TN, "prev_sibling", ["any_kind"]), (TN, "next_sibling", ["any_kind"]), (TN, "get_index", ["any_kind"]),
        (TN, "is_first_sibling", ["any_kind"]), (TN, "is_last_sibling", ["any_kind"]),
        (TN, "get_children", ["kind"]), (TN, "first_child", ["kind"]), (TN, "last_child", ["kind"]), (TN, "has_children", ["kind"]),
    ],
    "C16": [
        (N, "format", ["repr", "style", "add_self", "join"]), (N, "format_iter", ["repr", "style", "add_self"]),
        (T, "format", ["repr", "style", "title", "join"]), (T, "format_iter", ["repr", "style", "title"]),
    ],
    "C17": [
        (N, "to_dot", ["add_self", "unique_nodes", "graph_attrs", "node_attrs", "edge_attrs", "node_mapper", "edge_mapper"]),
        (T, "to_dot", ["add_root", "unique_nodes", "graph_attrs", "node_attrs", "edge_attrs", "node_mapper", "edge_mapper"]),
        (N, "to_mermaid_flowchart", ["as_markdown", "direction", "title", "add_self", "unique_nodes", "headers", "node_mapper", "edge_mapper"]),
        (T, "to_mermaid_flowchart", ["as_markdown", "direction", "title", "add_root", "unique_nodes", "headers", "node_mapper", "edge_mapper"]),
        (N, "to_rdf_graph", ["add_self", "node_mapper"]),
    ],
    "C19": [(("fs.py", None), "load_tree_from_fs", ["sort"])],
}


def params_of(fn):
    a = fn.args
    out = {}
    pos = a.posonlyargs + a.args
    defaults = [None] * (len(pos) - len(a.defaults)) + list(a.defaults)
    for p, d in zip(pos, defaults):
        out[p.arg] = d
    for p, d in zip(a.kwonlyargs, a.kw_defaults):
        out[p.arg] = d
    return out


def generate(repo, outdir):
    problems = []
    mods = {}
    L = ["/- GENERATED by /verif/translate/gen_defaults.py from the source text of nutree — do not edit. -/",
         "namespace Nutree.Generated", ""]
    tables = {}
    for prop, items in GROUPS.items():
        rows = []
        for (fname, cls), meth, params in items:
            if fname not in mods:
                mods[fname] = parse(repo, fname)[0]
            mod = mods[fname]
            body = mod.body if cls is None else (find_class(mod, cls).body if find_class(mod, cls) else [])
            fn = next((n for n in body if isinstance(n, (ast.FunctionDef, ast.AsyncFunctionDef)) and n.name == meth), None)
            ps = params_of(fn) if fn is not None else None
            for p in params:
                key = f"{cls + '.' if cls else ''}{meth}.{p}"
                if ps is None or p not in ps:
                    val = "<missing>"
                elif ps[p] is None:
                    val = "<required>"
                else:
                    val = ast.unparse(ps[p])
                rows.append((key, val))
        tables[prop] = rows
        L.append(f"/-- defaults of the documented arguments ({prop}). -/")
        L.append(f"def defaults{prop} : List (String × String) := [")
        L.append(",\n".join(f"  ({lean_str(k)}, {lean_str(v)})" for k, v in rows))
        L.append("]")
        L.append("")
    L += ["end Nutree.Generated", ""]
    changed = write_if_changed(os.path.join(outdir, "Defaults.lean"), "\n".join(L))
    return dict(changed=changed, problems=problems, tables=tables)


if __name__ == "__main__":
    import sys

    here = os.path.dirname(os.path.abspath(__file__))
    r = generate(sys.argv[1] if len(sys.argv) > 1 else "/repo", os.path.join(here, "..", "lean", "Nutree", "Generated"))
    if "--spec" in sys.argv:
        # one-off helper: print the tables in the layout of Nutree/Spec/Defaults.lean (to be reviewed against the documentation by hand)
        print("namespace Nutree.Spec.Defaults\n")
        for prop, rows in r["tables"].items():
            print(f"def documented{prop} : List (String × String) := [")
            print(",\n".join(f"  ({lean_str(k)}, {lean_str(v)})" for k, v in rows))
            print("]\n")
        print("end Nutree.Spec.Defaults")
    else:
        for prop, rows in r["tables"].items():
            print(prop, len(rows), [kv for kv in rows if kv[1].startswith("<m")])
