"""Translator for C18: abstracts the snapshot methods of the source text to lock programs.

For each method the body is walked in program order and turned into a sequence over
    acq / rel        `with self:` / `with tree:` (acquire .. release of the tree lock),
                     explicit `self._lock.acquire()` / `.release()`
    read             any use of the tree's node structure: iteration over the tree, attribute
                     access or method call on the tree object other than the harmless ones
                     listed in HARMLESS (class constants, the name, the class itself)
    call <m>         a call of another snapshot method on the same tree (inlined by the Lean side)
Nothing is imported from the repository; only `ast` on the text.
"""
from __future__ import annotations

import ast
import os

from gen_tables import find_class, lean_str, parse, write_if_changed

HARMLESS = {"DEFAULT_KEY_MAP", "DEFAULT_VALUE_MAP", "DEFAULT_CHILD_TYPE", "DEFAULT_CONNECTOR_STYLE", "__class__", "name", "serialize_mapper",
            "deserialize_mapper", "_lock"}
# (class, method) -> name of the tree variable inside the method
TARGETS = [
    ("tree.py", "Tree", "copy", "self"),
    ("tree.py", "Tree", "copy_to", "self"),
    ("tree.py", "Tree", "filtered", "self"),
    ("tree.py", "Tree", "to_dict_list", "self"),
    ("tree.py", "Tree", "save", "self"),
    ("typed_tree.py", "TypedTree", "save", "self"),
    ("dot.py", None, "tree_to_dotfile", "tree"),
]
SNAPSHOT_NAMES = {"copy", "copy_to", "filtered", "to_dict_list", "save", "tree_to_dotfile"}


def find_func(mod, cls, name):
    body = mod.body if cls is None else (find_class(mod, cls).body if find_class(mod, cls) else [])
    for n in body:
        if isinstance(n, ast.FunctionDef) and n.name == name:
            return n
    return None


class Abstractor:
    def __init__(self, var, cls):
        self.var = var
        self.cls = cls
        self.events = []
        self.tainted = set()   # local names bound DIRECTLY to the result of a call on the tree (possibly a lazy generator)

    def is_tree(self, node):
        return isinstance(node, ast.Name) and node.id == self.var

    def uses(self, node):
        """events of an expression, in evaluation order (approximately: source order)"""
        for sub in ast.walk(node):
            pass
        self._expr(node)

    def _expr(self, node):
        if node is None:
            return
        if isinstance(node, ast.Call) and isinstance(node.func, ast.Name) and node.func.id in ("isinstance", "type", "id", "repr", "str"):
            for a in node.args:
                if not self.is_tree(a):
                    self._expr(a)
            return
        if isinstance(node, ast.Call):
            f = node.func
            # super().save(...) -> call of the base class method
            if isinstance(f, ast.Attribute) and isinstance(f.value, ast.Call) and isinstance(f.value.func, ast.Name) and f.value.func.id == "super":
                for a in list(node.args) + [k.value for k in node.keywords]:
                    self._expr(a)
                if f.attr in SNAPSHOT_NAMES:
                    self.events.append(("call", "Tree." + f.attr))
                else:
                    self.events.append(("read", f"super().{f.attr}()"))
                return
            if isinstance(f, ast.Attribute) and self.is_tree(f.value):
                for a in list(node.args) + [k.value for k in node.keywords]:
                    self._expr(a)
                if f.attr in SNAPSHOT_NAMES:
                    owner = self.cls or "Tree"
                    self.events.append(("call", f"{owner}.{f.attr}"))
                elif f.attr in ("acquire",):
                    pass
                elif f.attr not in HARMLESS:
                    self.events.append(("read", f"{self.var}.{f.attr}()"))
                return
            if isinstance(f, ast.Attribute) and isinstance(f.value, ast.Attribute) and self.is_tree(f.value.value) and f.value.attr == "_lock":
                if f.attr == "acquire":
                    self.events.append(("acq", ""))
                elif f.attr == "release":
                    self.events.append(("rel", ""))
                return
            # a module-level snapshot function called with the tree as argument
            if isinstance(f, ast.Name) and f.id in SNAPSHOT_NAMES:
                for a in list(node.args) + [k.value for k in node.keywords]:
                    if not self.is_tree(a):
                        self._expr(a)
                self.events.append(("call", f.id))
                return
            self._expr(f)
            for a in list(node.args) + [k.value for k in node.keywords]:
                self._expr(a)
            return
        if isinstance(node, ast.Attribute):
            if self.is_tree(node.value):
                if node.attr not in HARMLESS:
                    self.events.append(("read", f"{self.var}.{node.attr}"))
                return
            self._expr(node.value)
            return
        if isinstance(node, ast.Compare) and all(isinstance(o, (ast.Is, ast.IsNot)) for o in node.ops):
            # identity comparisons do not look inside the tree
            for e in [node.left] + list(node.comparators):
                if not self.is_tree(e):
                    self._expr(e)
            return
        if isinstance(node, ast.Call) and isinstance(node.func, ast.Name) and node.func.id in ("isinstance", "type", "id", "repr"):
            for a in node.args:
                if not self.is_tree(a):
                    self._expr(a)
            return
        if isinstance(node, ast.FormattedValue) and self.is_tree(node.value):
            return    # f"{self}": Tree.__repr__ shows class and name only
        if isinstance(node, ast.Name):
            if node.id == self.var and isinstance(node.ctx, ast.Load):
                # the bare tree object as a value: truthiness / len() / `in` / iteration / handing it to other code all look at its nodes
                self.events.append(("read", f"use of {self.var} as a value"))
                return
            if node.id in self.tainted and isinstance(node.ctx, ast.Load):
                # consuming a (possibly lazy) result of a tree call walks the tree at this point
                self.events.append(("read", f"use of {node.id} (result of a tree call)"))
            return
        for child in ast.iter_child_nodes(node):
            if isinstance(child, ast.expr):
                self._expr(child)
            elif isinstance(child, (ast.comprehension,)):
                self._iter(child.iter)
                for c in child.ifs:
                    self._expr(c)
            elif isinstance(child, ast.keyword):
                self._expr(child.value)

    def _iter(self, it):
        if self.is_tree(it):
            self.events.append(("read", f"iter({self.var})"))
        else:
            self._expr(it)

    def stmts(self, body):
        for s in body:
            self.stmt(s)

    def stmt(self, s):
        if isinstance(s, ast.With):
            locked = [it for it in s.items if self.is_tree(it.context_expr)]
            for it in s.items:
                if not self.is_tree(it.context_expr):
                    self._expr(it.context_expr)
            if locked:
                self.events.append(("acq", ""))
            self.stmts(s.body)
            if locked:
                self.events.append(("rel", ""))
        elif isinstance(s, (ast.For, ast.AsyncFor)):
            self._iter(s.iter)
            self.stmts(s.body)
            self.stmts(s.orelse)
        elif isinstance(s, ast.If):
            # both branches contribute (over-approximation: a read in either branch counts)
            self._expr(s.test)
            self.stmts(s.body)
            self.stmts(s.orelse)
        elif isinstance(s, ast.While):
            self._expr(s.test)
            self.stmts(s.body)
        elif isinstance(s, ast.Try):
            self.stmts(s.body)
            for h in s.handlers:
                self.stmts(h.body)
            self.stmts(s.orelse)
            self.stmts(s.finalbody)
        elif isinstance(s, (ast.FunctionDef, ast.ClassDef)):
            pass
        else:
            for child in ast.iter_child_nodes(s):
                if isinstance(child, ast.expr):
                    self._expr(child)
            if isinstance(s, ast.Assign) and isinstance(s.value, ast.Call):
                f = s.value.func
                direct = (isinstance(f, ast.Attribute) and self.is_tree(f.value) and f.attr not in HARMLESS) or (
                    isinstance(f, ast.Name) and f.id == "iter" and s.value.args and self.is_tree(s.value.args[0]))
                for t in s.targets:
                    if isinstance(t, ast.Name):
                        (self.tainted.add if direct else self.tainted.discard)(t.id)
            elif isinstance(s, ast.Assign) and isinstance(s.value, ast.GeneratorExp):
                for t in s.targets:
                    if isinstance(t, ast.Name):
                        self.tainted.add(t.id)


def lock_kind(tree_mod):
    """the constructor assigned to self._lock in Tree.__init__"""
    cls = find_class(tree_mod, "Tree")
    init = find_func(tree_mod, "Tree", "__init__")
    if init is None:
        return "?"
    for n in ast.walk(init):
        if isinstance(n, ast.Assign) and any(isinstance(t, ast.Attribute) and t.attr == "_lock" for t in n.targets):
            v = n.value
            if isinstance(v, ast.Call):
                f = v.func
                return f.attr if isinstance(f, ast.Attribute) else getattr(f, "id", "?")
    return "?"


def enter_exit(tree_mod):
    out = {}
    for name in ("__enter__", "__exit__"):
        f = find_func(tree_mod, "Tree", name)
        ev = []
        if f is not None:
            for n in ast.walk(f):
                if isinstance(n, ast.Call) and isinstance(n.func, ast.Attribute) and isinstance(n.func.value, ast.Attribute) and n.func.value.attr == "_lock":
                    # `acquire()` must be the plain blocking call: any argument (blocking=False, timeout=...) makes it an
                    # attempt that may return without the lock
                    ev.append(n.func.attr if not (n.args or n.keywords) else n.func.attr + "(with arguments)")
        out[name] = ev
    return out


def generate(repo, outdir):
    problems = []
    mods = {}
    progs = []
    for fname, cls, meth, var in TARGETS:
        if fname not in mods:
            mods[fname] = parse(repo, fname)[0]
        f = find_func(mods[fname], cls, meth)
        key = f"{cls}.{meth}" if cls else meth
        if f is None:
            # an inherited method is the base class's program
            if cls == "TypedTree":
                progs.append((key, [("call", "Tree." + meth)]))
            else:
                problems.append(dict(props=["C18"], what=f"{key} not found in the source"))
                progs.append((key, [("read", "missing")]))
            continue
        a = Abstractor(var, cls)
        a.stmts(f.body)
        progs.append((key, a.events))
    kind = lock_kind(mods["tree.py"])
    ee = enter_exit(mods["tree.py"])
    L = ["/- GENERATED by /verif/translate/gen_locks.py from the source text of nutree — do not edit. -/",
         "namespace Nutree.Generated", "",
         "/-- events of a snapshot method, in program order. -/",
         "inductive LEv where", "  | acq | rel", "  | read (what : String)", "  | call (method : Nat)   -- index into `snapshotPrograms`; an unknown method is out of range", "deriving Repr, DecidableEq", "",
         f"/-- constructor of `Tree._lock` ({kind}). -/\ndef lockKind : String := {lean_str(kind)}",
         f"def lockReentrant : Bool := {'true' if kind == 'RLock' else 'false'}",
         f"/-- `__enter__` calls exactly `self._lock.acquire()`, `__exit__` exactly `self._lock.release()`. -/",
         f"def enterAcquires : Bool := {'true' if ee['__enter__'] == ['acquire'] else 'false'}",
         f"def exitReleases : Bool := {'true' if ee['__exit__'] == ['release'] else 'false'}", "",
         "def snapshotPrograms : List (String × List LEv) := ["]
    rows = []
    index = {key: i for i, (key, _) in enumerate(progs)}
    for key, evs in progs:
        items = []
        for k, w in evs:
            if k == "acq":
                items.append(".acq")
            elif k == "rel":
                items.append(".rel")
            elif k == "read":
                items.append(f".read {lean_str(w)}")
            else:
                items.append(f".call {index.get(w, 999)}")
        rows.append(f"  ({lean_str(key)}, [{', '.join(items)}])")
    L.append(",\n".join(rows))
    L += ["]", "", "end Nutree.Generated", ""]
    changed = write_if_changed(os.path.join(outdir, "Locks.lean"), "\n".join(L))
    return dict(changed=changed, problems=problems, programs=progs, lock=kind)


if __name__ == "__main__":
    import sys

    here = os.path.dirname(os.path.abspath(__file__))
    r = generate(sys.argv[1] if len(sys.argv) > 1 else "/repo", os.path.join(here, "..", "lean", "Nutree", "Generated"))
    for k, v in r["programs"]:
        print(k, v)
    print(r["lock"], r["problems"])
