"""Entry point: ./check <Cxx> [--tier quick|thorough] [--replay <file>] [--pin]

Exit codes: 0 property held on everything explored (known findings are listed),
1 VIOLATION (line on stdout), 2 internal error / time-out of the machinery.
"""
from __future__ import annotations

import argparse
import importlib
import json
import os
import sys
import time
import traceback

HERE = os.path.dirname(os.path.abspath(__file__))
VERIF = os.path.dirname(HERE)
sys.path.insert(0, HERE)

import core  # noqa: E402

TRUSTED_COMMON = [
    "Lean 4.33.0 kernel; axioms allowed: propext, Classical.choice, Quot.sound (checked by `#print axioms` on every registered theorem on this run)",
    "the Lean model is written by hand (lean/Nutree/Model); it is tied to /repo by the correspondence run of this check (differential testing, bounded) and by translate/gen_tables.py for tables",
    "harness adapter, canonicaliser and driver JSON codec (glue shared by both sides)",
    "CPython 3.12 list/dict/sort/hash semantics as measured on the pool objects",
]


def main(argv=None):
    ap = argparse.ArgumentParser()
    ap.add_argument("prop")
    ap.add_argument("--tier", default=os.environ.get("VERIF_TIER", "quick"))
    ap.add_argument("--replay")
    ap.add_argument("--pin", action="store_true", help="(development) re-pin statement hashes")
    ap.add_argument("--no-build", action="store_true")
    args = ap.parse_args(argv)
    prop = args.prop
    tier = "thorough" if args.tier == "thorough" else "quick"
    try:
        seed = int(os.environ.get("VERIF_SEED", "0"))
    except ValueError:
        seed = 0
    repo = os.path.abspath(os.environ.get("VERIF_REPO", "/repo"))
    ctx = core.Ctx(prop, tier, seed, repo)
    try:
        return run_check(ctx, args)
    except BrokenPipeError:
        return 1
    except core.MachineryError as e:
        print(f"MACHINERY-ERROR property={prop}: {e}")
        return 2
    except Exception:
        traceback.print_exc()
        print(f"MACHINERY-ERROR property={prop}: unexpected exception")
        return 2


def import_repo(ctx):
    sys.path.insert(0, ctx.repo)
    os.environ["PYTHONPATH"] = ctx.repo
    guard = os.environ.get("MAR10_NUTREE_VERIF")
    if guard is None:
        os.environ["MAR10_NUTREE_VERIF"] = "1"
    import nutree

    f = os.path.realpath(nutree.__file__)
    if not f.startswith(os.path.realpath(ctx.repo) + os.sep):
        raise core.MachineryError(f"nutree imported from {f}, expected below {ctx.repo}")


def run_check(ctx, args):
    prop = ctx.prop
    t0 = time.time()
    obligations_all = core.load_obligations()
    if prop not in obligations_all:
        raise core.MachineryError(f"unknown property {prop}")
    proof_problems = []

    # 1. translator + build (exclusive lock; no-op when nothing changed)
    with core.BuildLock():
        try:
            tr = core.translate(ctx.repo)
            for p in tr.get("problems", []):
                if prop in p.get("props", []):
                    proof_problems.append(f"translator: {p['what']}")
        except Exception as e:  # the source can no longer be read as a table
            traceback.print_exc()
            proof_problems.append(f"translator failed: {e}")
        if not args.no_build:
            rc, out = core.lake_build(["nutree_driver"])
            if rc != 0:
                raise core.MachineryError("driver build failed:\n" + out[-3000:])
            mods_p = core.prop_modules(prop, obligations_all)
            rc, out = core.lake_build(mods_p)
            if rc != 0:
                tail = "\n".join(l for l in out.split("\n") if "error" in l.lower())[:1500]
                proof_problems.append(f"lake build {' '.join(mods_p)} failed: {tail}")

    # 2. audit
    obs = obligations_all[prop]
    discharged, problems = ([], [])
    if not any("lake build" in p for p in proof_problems):
        discharged, problems = core.audit(prop, obligations_all)
        if args.pin:
            for o in obs:
                if "_sha_now" in o:
                    o["sha"] = o["_sha_now"]
            clean = {
                k: [{kk: vv for kk, vv in o.items() if not kk.startswith("_")} for o in v]
                for k, v in obligations_all.items()
            }
            with open(os.path.join(core.LEAN, "obligations.json"), "w") as f:
                json.dump(clean, f, indent=1, ensure_ascii=False)
                f.write("\n")
            problems = [p for p in problems if "statement changed" not in p]
            discharged = [o["name"] for o in obs if "_sha_now" in o]
        proof_problems += problems
    mods = []
    for m0 in core.prop_modules(prop, obligations_all):
        for m1 in core.transitive_local_imports(m0):
            if m1 not in mods:
                mods.append(m1)
    hits = core.grep_forbidden(core.module_files(mods))
    if hits:
        proof_problems += [f"forbidden token: {h}" for h in hits]

    # 2b. escalation: functions of the property's anchored files that differ from the pinned fingerprints (the code the
    # model was last validated against) make this run use the thorough sizes under a bounded time budget. Never a verdict.
    try:
        ch = core.changed_functions(ctx.repo)
    except Exception as e:  # noqa
        ch = [f"<fingerprints unavailable: {e}>"]
    files = core.anchor_files(prop) + ["nutree/common.py"]
    ctx.changed = [c for c in ch if c.split("::")[0] in files or c.startswith("<")]
    escalate = bool(ctx.changed) and ctx.tier == "quick" and os.environ.get("VERIF_NO_ESCALATION") != "1"

    # 3. correspondence + oracle (doubles as the failing-input search)
    cov = None
    if os.environ.get("VERIF_COVERAGE"):
        # development aid (tools/impl_coverage.py): which lines/branches of nutree/*.py does this check's
        # correspondence run execute?  Never enabled by the registered commands.
        import coverage as _coverage

        cov = _coverage.Coverage(
            data_file=os.path.join(os.environ["VERIF_COVERAGE"], f".coverage.{prop}"), branch=True,
            include=[os.path.join(ctx.repo, "nutree", "*")], config_file=False)
        cov.start()
    import_repo(ctx)
    mod = importlib.import_module(f"props.{prop.lower()}")
    import adapter as _adapter

    # every third tree that the checks build from a description is a lived-in one (harness/adapter.py: read with every kind of
    # query, changed and changed back, read again) instead of a fresh one
    _adapter.LIVED_IN = int(os.environ.get("VERIF_LIVED_IN", "3"))
    if proof_problems:
        ctx.search = True
    import pool as poolmod
    import driver as drivermod

    ctx.pool = poolmod.Pool()
    ctx.driver = drivermod.Driver(ctx.pool)
    try:
        if args.replay:
            with open(args.replay) as f:
                rp = json.load(f)
            # a replay does not know whether the failing tree was a fresh or a lived-in one: both are tried
            res = None
            for lived, which in ((0, "rotate"), (1, None), (1, 0), (1, 1), (1, 2), (1, 3)):
                _adapter.LIVED_IN = lived
                _adapter.FORCE_WHICH = which
                res = mod.replay(ctx, rp)
                res["lived_in_trees"] = bool(lived)
                res["lived_in_perturbation"] = which if lived else None
                if not res.get("property_holds"):
                    break
            print(json.dumps(res, indent=1, default=str, ensure_ascii=False))
            return 0 if res.get("property_holds") else 1
        try:
            out = mod.run(ctx)
            if escalate and not [f for f in out.oracle_failures if not f.get("finding")] and not out.disagreements and not ctx.search:
                # the complete quick pass found nothing on the changed code: a second pass with the thorough sizes, other
                # random choices and a bounded time budget
                import random as _random

                first = out
                ctx.escalated = True
                ctx.t0 = time.time()
                ctx.rng = _random.Random((ctx.seed * 1000003 + 7919) ^ core.hash_str(prop))
                out = mod.run(ctx)
                out.absorb(first)
        except core.MachineryError:
            raise
        except Exception as e:  # noqa
            # the harness could not complete against this code: the implementation behaved in a way the
            # correspondence does not anticipate. On the unchanged tree this never happens (checked); on a
            # changed tree it means the correspondence no longer checks.
            tb = traceback.format_exc()
            out = core.Outcome(rule="(aborted)")
            out.evaluations = 1
            out.disagree(dict(kind="harness-exception"), f"the correspondence run aborted with {type(e).__name__}: {e}", traceback=tb[-3000:])
    finally:
        ctx.driver.close()
        if cov is not None:
            cov.stop()
            cov.save()

    # 4. verdict
    known = core.load_known_findings()
    open_ids = {k["id"]: k for k in known.get("open", []) if k.get("property") == prop}
    new_fail = []
    known_hit = {}
    for f in out.oracle_failures:
        fid = f.get("finding")
        if fid and fid in open_ids:
            known_hit.setdefault(fid, f)
        else:
            new_fail.append(f)
    wall = time.time() - t0
    violations = len(new_fail)
    level = getattr(mod, "LEVEL", "proof")
    n_obl = len(obs)
    coverage = dict(
        obligations=n_obl,
        discharged=len(discharged),
        checker_cmd=f"cd lean && lake build {' '.join(core.prop_modules(prop, obligations_all))} && lake env lean <generated audit: #print axioms / #check of {n_obl} registered theorems>"
        + ("; lake env leanchecker " + " ".join(core.prop_modules(prop, obligations_all)) if ctx.tier == "thorough" else ""),
        trusted_base=core_trusted(mod),
        theorems=[dict(name=o["name"], strength=o.get("strength", "full"), meaning=o.get("meaning", ""), axioms=o.get("_axioms")) for o in obs],
        proof_problems=proof_problems,
        evaluations=out.evaluations,
        distinct_nontrivial=len(out.keys),
        rule=out.rule,
        samples=out.samples,
        exhaustive=out.exhaustive,
        input_distribution=dict(out.dist),
        disagreements_model_vs_impl=len(out.disagreements),
        oracle_failures=len(out.oracle_failures),
        known_findings_matched=sorted(known_hit),
        notes=out.notes + ([f"escalated (thorough sizes, bounded time): changed since the pinned fingerprints: {ctx.changed[:8]}"] if ctx.escalated else []),
    )
    coverage.update(out.extra)
    coverage["lived_in_trees"] = dict(_adapter.LIVED_STATS, every=_adapter.LIVED_IN)
    if ctx.tier == "thorough" and not proof_problems:
        rc, lc = core.run(["lake", "env", "leanchecker"] + core.prop_modules(prop, obligations_all), cwd=core.LEAN, timeout=3000)
        coverage["leanchecker_rc"] = rc
        if rc != 0:
            proof_problems.append("leanchecker rejected the compiled module: " + lc[-300:])
            coverage["proof_problems"] = proof_problems

    for fid, f in sorted(known_hit.items()):
        print(f"KNOWN-FINDING: property={prop} {fid}: {open_ids[fid].get('what_fails', f['what'])}")

    rc = 0
    if new_fail:
        new_fail.sort(key=lambda f: len(json.dumps(f.get('case'), default=str)))
        f = new_fail[0]
        path = core.write_replay(prop, "violation", dict(property=prop, kind="oracle-failure", seed=ctx.seed, tier=ctx.tier, repo=ctx.repo, **f))
        print(f"VIOLATION property={prop} replay={path}")
        print(f"  what: {f['what']}")
        rc = 1
    elif proof_problems or out.disagreements:
        payload = dict(
            property=prop,
            kind="no-failing-input-found",
            seed=ctx.seed,
            tier=ctx.tier,
            repo=ctx.repo,
            proof_obligations_not_checking=proof_problems,
            correspondence_disagreements=out.disagreements[:5],
            searched=dict(evaluations=out.evaluations, rule=out.rule),
        )
        path = core.write_replay(prop, "unproved", payload)
        print(f"VIOLATION property={prop} replay={path} no-failing-input-found")
        for p in proof_problems[:5]:
            print(f"  obligation: {p}")
        for d in out.disagreements[:3]:
            print(f"  correspondence: {d['what']}")
        violations = 1
        rc = 1
    core.write_evidence(ctx, level, coverage, assumptions(mod), violations, wall)
    print(
        f"{prop} {ctx.tier} seed={ctx.seed}: obligations {len(discharged)}/{n_obl}, "
        f"{out.evaluations} evaluations ({len(out.keys)} distinct non-trivial), "
        f"{len(out.oracle_failures)} oracle failures ({len(known_hit)} known findings), "
        f"{len(out.disagreements)} disagreements, {wall:.1f}s -> exit {rc}"
    )
    return rc


def core_trusted(mod):
    return TRUSTED_COMMON + list(getattr(mod, "TRUSTED", []))


def assumptions(mod):
    return list(getattr(mod, "ASSUMPTIONS", [])) + ["assertions enabled (no python -O)"]


if __name__ == "__main__":
    try:
        rc = main()
        sys.stdout.flush()
    except BrokenPipeError:
        rc = 1
        try:
            sys.stdout.close()
        except Exception:  # noqa
            pass
    os._exit(rc if isinstance(rc, int) else 2)
