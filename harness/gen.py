"""Case generators: exhaustive small forests, labelings, random structured trees."""
from __future__ import annotations

import functools
import itertools
import random


@functools.lru_cache(maxsize=None)
def forests(n: int):
    """All ordered forests with exactly n nodes; a forest is a tuple of trees, a tree
    is the tuple of its children (a forest)."""
    if n == 0:
        return ((),)
    res = []
    # first tree has k nodes (k-1 below its root), rest forest has n-k
    for k in range(1, n + 1):
        for kids in forests(k - 1):
            for rest in forests(n - k):
                res.append((kids,) + rest)
    return tuple(res)


def forests_upto(n: int):
    for k in range(0, n + 1):
        yield from forests(k)


def forest_size(f) -> int:
    return sum(1 + forest_size(t) for t in f)


def forest_height(f) -> int:
    return max((1 + forest_height(t) for t in f), default=0)


def label_forest(shape, labels_iter):
    """shape -> spec [(label, [children...])] consuming labels in pre-order."""
    out = []
    for t in shape:
        lab = next(labels_iter)
        out.append((lab, label_forest(t, labels_iter)))
    return out


def sibling_unique(spec, key=lambda lab: lab) -> bool:
    seen = set()
    for lab, kids in spec:
        k = key(lab)
        if k in seen:
            return False
        seen.add(k)
        if not sibling_unique(kids, key):
            return False
    return True


def labelings(shape, alphabet, *, key=lambda lab: lab, limit=None, rng=None):
    """All (or `limit` random) assignments of alphabet labels to the nodes of shape that
    respect sibling uniqueness."""
    n = forest_size(shape)
    if limit is None:
        for combo in itertools.product(alphabet, repeat=n):
            spec = label_forest(shape, iter(combo))
            if sibling_unique(spec, key):
                yield spec
    else:
        tries = 0
        got = 0
        while got < limit and tries < limit * 20:
            tries += 1
            combo = [rng.choice(alphabet) for _ in range(n)]
            spec = label_forest(shape, iter(combo))
            if sibling_unique(spec, key):
                got += 1
                yield spec


def distinct_labeling(shape, alphabet):
    return label_forest(shape, iter(alphabet))


def random_shape(rng: random.Random, n: int, *, deep_bias=0.5):
    """Random forest with n nodes built by attaching each node to a random earlier one."""
    parents = [-1]
    for i in range(1, n):
        if rng.random() < deep_bias:
            parents.append(rng.randrange(max(0, i - 3), i))
        else:
            parents.append(rng.randrange(-1, i))
    kids = {i: [] for i in range(-1, n)}
    for i, p in enumerate(parents):
        kids[p].append(i)

    def mk(i):
        return tuple(mk(c) for c in kids[i])

    return tuple(mk(c) for c in kids[-1])


def random_spec(rng: random.Random, n: int, alphabet, *, clone_rate=0.3, key=lambda lab: lab):
    """Random labelled forest; labels are drawn so that clones occur (same label under
    different parents) while siblings stay unique."""
    shape = random_shape(rng, n)
    used = []

    def lab_forest(f):
        out = []
        seen = set()
        for t in f:
            for _ in range(50):
                if used and rng.random() < clone_rate:
                    lab = rng.choice(used)
                else:
                    lab = rng.choice(alphabet)
                if key(lab) not in seen:
                    break
            else:
                continue
            seen.add(key(lab))
            used.append(lab)
            out.append((lab, lab_forest(t)))
        return out

    return lab_forest(shape)


def spec_size(spec) -> int:
    return sum(1 + spec_size(k) for _, k in spec)


def spec_height(spec) -> int:
    return max((1 + spec_height(k) for _, k in spec), default=0)


def spec_has_clone(spec) -> bool:
    labs = []

    def walk(s):
        for lab, k in s:
            labs.append(lab)
            walk(k)

    walk(spec)
    return len(set(map(repr, labs))) < len(labs)


def all_paths(spec, prefix=()):
    for i, (_, kids) in enumerate(spec):
        p = prefix + (i,)
        yield p
        yield from all_paths(kids, p)
