"""History runner and operation generators shared by C01–C04, C07, C13."""
from __future__ import annotations

import itertools
import json

import adapter
import core
import gen
import world
from pool import HASH_BASE as HASH_BASE_

STR = [0, 1, 2, 3, 4, 6, 7]          # plain strings
FLAV = [12, 13, 15, 17, 18, 19, 20, 21, 23, 24, 25, 26, 27]  # ints, tuples, dataclass, DictWrapper, EqObj, Plain
REFUSALS = {"unique", "ambiguous", "value", "notimpl", "assertion"}


class Step:
    __slots__ = ("op", "mop", "impl_res", "model_res", "problems", "oracles", "changed", "pre", "post", "n_nodes", "src_obj", "tgt_obj", "new_objs")

    def as_dict(self):
        return dict(op=clean(self.op), model_op=clean(self.mop), impl=self.impl_res, model=self.model_res, problems=self.problems[:5],
                    oracles={k: v[:3] for k, v in (self.oracles or {}).items() if v}, changed=self.changed)


def clean(op):
    return {k: v for k, v in op.items() if not k.startswith("_")}


class Runner:
    def __init__(self, ctx, oracles=True):
        self.ctx = ctx
        self.pool = ctx.pool
        self.drv = ctx.driver
        self.impl = world.ImplWorld(ctx.pool)
        self.bij = world.Bij()
        self.impl._bij = self.bij
        self.bij.tree_of = {}
        self.log = []          # ops so far (setup included) — the replay
        self.oracles = oracles
        r = self.drv.ask({"op": "w.reset"})
        assert r.get("res") == "ok", r
        self.dead = False

    def new_tree(self, typed=False, hook=None):
        ti = self.impl.new(typed, hook)
        wire_hook = None if hook is None else [[o, (None if d is None else self.pool.canon_did(d))] for o, d in hook]
        r = self.drv.ask({"op": "w.new", "typed": typed, "hook": wire_hook})
        if r.get("tree") != ti:
            raise core.MachineryError(f"driver tree index {r}")
        self.log.append({"op": "w.new", "typed": typed, "hook": hook})
        return ti

    def snapshot(self):
        out = []
        for t in self.impl.trees:
            def w(n):
                try:
                    par = id(n.up())
                except Exception as e:  # noqa
                    par = repr(type(e))
                return [id(n), id(n.data), repr(n.data_id), getattr(n, "kind", None), json.dumps(n.meta, sort_keys=True, default=str), par,
                        [w(c) for c in n.children]]
            out.append([[w(c) for c in t.children], t.count, t.count_unique])
        return out

    def step_impl_only(self, op) -> Step:
        """after model and implementation have diverged (`dead`): the operation is applied to the implementation alone and
        only the oracles that need no model are evaluated — the search for a concrete failing history goes on from the
        diverged state"""
        s = Step()
        s.op = op
        s.mop = {}
        s.model_res = None
        s.problems = []
        s.src_obj = s.tgt_obj = None
        s.pre = self.snapshot()
        try:
            if "sp" in op and "st" in op:
                s.src_obj = self.impl.node(op["st"], op["sp"])
            elif op["op"] in ("w.addtree", "w.copy"):
                s.src_obj = self.impl.trees[op["st"]].system_root
            if "p" in op and "t" in op:
                s.tgt_obj = self.impl.node(op["t"], op["p"])
        except Exception:  # noqa
            pass
        if (op["op"] == "w.sort" and isinstance(op.get("key"), dict)) or op["op"] == "w.filter":
            op["_bij"] = self.bij
        old = set()

        def ids_of(snap):
            for t in snap:
                stack = list(t[0])
                while stack:
                    w = stack.pop()
                    old.add(w[0])
                    stack.extend(w[6])

        ids_of(s.pre)
        try:
            s.impl_res = self.impl.apply(op)
        except Exception as e:  # noqa  (an operation that needs the model's numbering)
            s.impl_res = "harness:" + type(e).__name__
        s.post = self.snapshot()
        s.changed = s.pre != s.post
        s.new_objs = [n for t in self.impl.trees for n in t if id(n) not in old]
        s.oracles = {}
        s.n_nodes = sum(t.count for t in self.impl.trees)
        if self.oracles:
            for ti in range(len(self.impl.trees)):
                try:
                    o = world.oracle_structure(self.impl, ti, self.bij, self.pool, self.drv)
                except core.MachineryError:
                    raise
                except Exception as e:  # noqa
                    o = {"registry": [f"the tree can no longer be observed: {e!r}"]}
                for k, v in o.items():
                    s.oracles.setdefault(k, [])
                    s.oracles[k] += [f"T{ti} {x}" for x in v]
        self.log.append(clean(op))
        return s

    def step(self, op) -> Step:
        if self.dead:
            return self.step_impl_only(op)
        s = Step()
        s.op = op
        if (op["op"] == "w.sort" and isinstance(op.get("key"), dict)) or op["op"] == "w.filter":
            op["_bij"] = self.bij
        s.mop = world.model_op(op, self.impl)
        s.pre = self.snapshot()
        s.src_obj = s.tgt_obj = None
        try:
            if "sp" in op and "st" in op:
                s.src_obj = self.impl.node(op["st"], op["sp"])
            elif op["op"] in ("w.addtree", "w.copy"):
                s.src_obj = self.impl.trees[op["st"]].system_root
            if "p" in op and "t" in op:
                s.tgt_obj = self.impl.node(op["t"], op["p"])
        except Exception:  # noqa
            pass
        s.impl_res = self.impl.apply(op)
        s.post = self.snapshot()
        s.changed = s.pre != s.post
        mop = dict(s.mop)
        if mop.get("did") is not None:
            mop["did"] = self.pool.canon_did(mop["did"])
        r = self.drv.ask(mop)
        if "fail" in r:
            raise core.MachineryError(f"driver: {r} on {mop}")
        s.model_res = r["res"]
        if op["op"] == "w.dead":
            s.model_res = s.impl_res      # a call on a removed node: no model operation (the state must stay as it is)
        if op.get("_nid_refused"):
            s.model_res = s.impl_res if s.impl_res != "ok" else "refused (node_id in use / not a valid id)"
        s.problems = []
        if s.impl_res != s.model_res:
            s.problems.append(f"outcome: implementation {s.impl_res}, model {s.model_res}")
        s.oracles = {}
        s.n_nodes = 0
        s.new_objs = []
        if len(r["obs"]) != len(self.impl.trees):
            s.problems.append(f"number of trees: implementation {len(self.impl.trees)}, model {len(r['obs'])}")
            self.dead = True
            self.log.append(clean(op))
            return s
        for ti, mobs in enumerate(r["obs"]):
            before = set(self.bij.m2i)
            probs, _ = world.observe_and_match(self.impl, ti, mobs, self.bij, self.pool)
            for mid in set(self.bij.m2i) - before:
                self.bij.tree_of[mid] = ti
                s.new_objs.append(self.bij.m2i[mid])
            s.problems += [f"T{ti} {p}" for p in probs]
            t = self.impl.trees[ti]
            s.n_nodes += t.count
            if t.count != len(mobs["byId"]):
                s.problems.append(f"T{ti} count: implementation {t.count}, model {len(mobs['byId'])}")
            if t.count_unique != len(mobs["byData"]):
                s.problems.append(f"T{ti} count_unique: implementation {t.count_unique}, model {len(mobs['byData'])}")
            # clone list order per id
            if not probs:
                for d, ids in mobs["byData"]:
                    real = self.real_did(d)
                    try:
                        got = [self.bij.i2m.get(id(n)) for n in t.find_all(data_id=real)]
                    except Exception as e:  # noqa
                        got = repr(e)
                    if got != ids:
                        s.problems.append(f"T{ti} find_all(data_id={d!r}): implementation {got}, model {ids}")
            if not mobs["wf"]:
                s.problems.append(f"T{ti} MODEL state is not well-formed")
            if self.oracles:
                o = world.oracle_structure(self.impl, ti, self.bij, self.pool, self.drv)
                for k, v in o.items():
                    s.oracles.setdefault(k, [])
                    s.oracles[k] += [f"T{ti} {x}" for x in v]
        self.log.append(clean(op))
        if s.problems:
            self.dead = True   # the two sides have diverged: no further steps are comparable
        return s

    def real_did(self, d):
        if isinstance(d, int):
            for h, c in self.pool.hash_canon.items():
                if c == d:
                    return h
        return d


# ---------------------------------------------------------------------------
# generators


def paths_of(tree):
    out = []

    def w(n, p):
        for i, c in enumerate(n.children):
            out.append(p + [i])
            w(c, p + [i])

    w(tree.system_root, [])
    return out


def befores(rng, impl, ti, parent_path, *, malformed=False):
    """candidate `before` values for inserting below the node at parent_path"""
    par = impl.node(ti, parent_path)
    n = len(par.children)
    c = [None, True, False, 0]
    if n:
        c += [1, n - 1, n, -1, {"path": parent_path + [rng.randrange(n)]}]
    if malformed:
        c += [n + 3, -n - 2, 2, 5]
        others = [p for p in paths_of(impl.trees[ti]) if p[:-1] != parent_path]
        if others:
            c.append({"path": rng.choice(others)})
        if len(impl.trees) > 1 and paths_of(impl.trees[1 - ti if ti < 2 else 0]):
            ot = 1 - ti if ti < 2 else 0
            c.append({"path": rng.choice(paths_of(impl.trees[ot])), "ft": ot})
        if impl.graveyard:
            # a stale reference: a node that was removed earlier (by remove, remove_children, clear, filter, del)
            c += [{"dead": rng.randrange(len(impl.graveyard))}] * 3
    return c


def del_keys(impl, ti, labels=()):
    """every kind of key for `del tree[key]` on tree ti, by category (JSON-serialisable descriptions, see
    `ImplWorld.del_key`): data objects present in the tree (unique ones and clone-ambiguous ones), the data_ids in use
    as explicit keys, ids / objects that are not in use, a `Node`, and — when the tree has a calc_data_id hook — the
    objects for which the hook raises."""
    pool = impl.pool
    t = impl.trees[ti]
    nodes = list(t)
    out = {"data": [], "id": [], "unused": [], "node": [], "raising": []}
    seen = set()
    for n in nodes:
        try:
            a = pool.index_of(n.data)
        except KeyError:
            continue
        if a not in seen:
            seen.add(a)
            out["data"].append({"a": a})
    dids = []
    for n in nodes:
        d = n.data_id
        if d in dids:
            continue
        dids.append(d)
        c = pool.canon_did(d)
        if c != d:   # a real (per-process) hash value: name it by the pool object that has it
            out["id"].append({"hash_of": c - HASH_BASE_})
        elif isinstance(d, (int, str)) and not isinstance(d, bool):
            out["id"].append({"did": d})
    for d in (4242, "nope", -1, 0, ""):
        if d not in dids:
            out["unused"].append({"did": d})
    for a in labels:
        if a not in seen:
            out["unused"].append({"a": a})
    paths = paths_of(t)
    if paths:
        out["node"].append({"node": paths[0]})
        if len(paths) > 1:
            out["node"].append({"node": paths[-1]})
    for o, d in (impl.hooks[ti] or []):
        if d is None:
            out["raising"].append({"a": o})
    return out


NID = [0]


def via_shortcut(rng, impl, ti, op):
    """an add(<node>) / add(<tree>) through one of the four shortcuts of add_child (append_child, prepend_child, prepend_sibling,
    append_sibling): `before` is what the shortcut passes on, the call itself carries no `before`"""
    p = op["p"]
    tgt = impl.node(ti, p) if p else impl.trees[ti].system_root
    kids = list(tgt.children)
    is_typed = hasattr(tgt, "kind")
    names = (["append_child", "prepend_child"] if p else []) + (["prepend_sibling", "append_sibling"] if kids and not (is_typed and op["op"] == "w.addtree") else [])
    if not names:
        return
    name = rng.choice(names)
    if name == "append_child":
        op["before"], ref = None, None
    elif name == "prepend_child":
        op["before"], ref = ({"path": p + [0]} if kids else None), None
    else:
        j = rng.randrange(len(kids))
        ref = p + [j]
        if is_typed:
            op["kind"] = kids[j].kind       # the typed sibling shortcuts add a node "of the same kind": they take no `kind`
        if name == "prepend_sibling":
            op["before"] = {"path": p + [j]}
        else:
            op["before"] = {"path": p + [j + 1]} if j + 1 < len(kids) else None
    op.pop("before_explicit", None)
    op["sc"] = [name, ref]


def random_op(rng, impl, ti, *, labels, malformed=0.1, typed=False, ops=None, did_rate=0.15, dids=(1001, 1002, "x", "y", 7, 0, "", "A", "a1")):
    """one random (mostly valid) op on tree ti, based on the implementation's current shape"""
    t = impl.trees[ti]
    paths = paths_of(t)
    allp = [[]] + paths
    mal = rng.random() < malformed
    kinds = ops or ["add"] * 5 + ["shortcut"] * 2 + ["addnode"] * 2 + ["addtree", "copykids", "move", "move", "move", "remove", "remove", "removechildren", "sort", "setdata", "setdata", "meta", "filter", "del", "del"]
    k = rng.choice(kinds)
    if impl.graveyard and (rng.random() < 0.05 or (mal and rng.random() < 0.35) or (ops and "dead" in ops and rng.random() < 0.3)):
        if True:
            # a call ON a stale reference (a node removed earlier): refused (AttributeError / AssertionError), nothing changes,
            # the removed node stays out of the tree
            what = rng.choice(["move", "add", "add", "add", "remove", "set_data", "remove_children", "rename"])
            # mostly one of the nodes that vanished last (a whole branch goes at once: its inner nodes too)
            g = len(impl.graveyard)
            k_ = g - 1 - rng.randrange(min(g, 6)) if rng.random() < 0.7 else rng.randrange(g)
            return {"op": "w.dead", "t": ti, "k": k_, "what": what, "to": rng.choice(allp), "a": rng.choice(labels)}
    if k == "dead":
        k = "add"
    if not paths and k not in ("add", "addtree"):
        k = "add"
    if k == "add":
        p = rng.choice(allp)
        op = {"op": "w.add", "t": ti, "p": p, "a": rng.choice(labels), "before": rng.choice(befores(rng, impl, ti, p, malformed=mal))}
        if rng.random() < did_rate:
            op["did"] = rng.choice(list(dids))
        if typed:
            op["kind"] = rng.choice(["a", "b", None])
        if op["before"] is None and rng.random() < 0.3:
            op["before_explicit"] = True
        if rng.random() < 0.3:
            op["tree_api"] = False
        if rng.random() < 0.05 and not mal:
            # an explicit node_id: a fresh one, or - in another spelling - one that a node of the tree already carries
            NID[0] += 1
            fresh = 7000 + NID[0]
            r_ = rng.random()
            if r_ < 0.45 or not paths:
                op["nid"] = rng.choice([fresh, str(fresh), float(fresh)])
            elif r_ < 0.5:
                op["nid"] = 0
            else:
                # the id of an existing node (named by its path: ids of objects differ from run to run), spelled as int / str / float / +0.5
                op["nid_ref"] = [rng.choice(paths), rng.choice(["int", "str", "float", "half"])]
        return op
    if k == "shortcut":
        via = rng.choice(["append_child", "prepend_child", "prepend_sibling", "append_sibling"])
        op = {"op": "w.add", "t": ti, "a": rng.choice(labels), "via": via}
        if via in ("append_child", "prepend_child"):
            op["p"] = rng.choice(allp)
        else:
            if not paths:
                return random_op(rng, impl, ti, labels=labels, malformed=malformed, typed=typed, ops=["add"])
            op["ref"] = rng.choice(paths)
            op["p"] = op["ref"][:-1]
        if typed:
            op["kind"] = rng.choice(["a", "b", None])
        return op
    if k == "addnode":
        st = rng.randrange(len(impl.trees)) if rng.random() < 0.5 else ti
        sp_all = paths_of(impl.trees[st])
        if not sp_all:
            return random_op(rng, impl, ti, labels=labels, malformed=malformed, typed=typed, ops=["add"])
        sp = rng.choice(sp_all)
        p = rng.choice(allp)
        if st == ti and not mal:
            # do not copy a branch below itself deeply (excluded point, see DESIGN.md)
            tries = 0
            while p[: len(sp)] == sp and tries < 10:
                p = rng.choice(allp)
                tries += 1
            if p[: len(sp)] == sp:
                return random_op(rng, impl, ti, labels=labels, malformed=malformed, typed=typed, ops=["add"])
        op = {"op": "w.addnode", "t": ti, "p": p, "st": st, "sp": sp, "before": rng.choice(befores(rng, impl, ti, p, malformed=mal)),
              "deep": rng.choice([None, True, False])}
        if st == ti and p[: len(sp)] == sp:
            op["deep"] = False
        if rng.random() < 0.2:
            op["via"] = "copy_to"
            op["deep"] = bool(op["deep"])
        if typed and rng.random() < 0.5:
            op["kind"] = impl.node(st, sp).kind
        if op.get("via") != "copy_to" and rng.random() < 0.25:
            # add(node, data_id=): the source's own id is accepted for a shallow copy, any other id (falsy ones too) is a
            # "data_id conflict", and together with deep=True it is a ValueError
            op["did"] = rng.choice([impl.node(st, sp).data_id, impl.node(st, sp).data_id, 0, "", 1001, "x"])
            if isinstance(op["did"], int) and abs(op["did"]) >= 10**6:
                del op["did"]       # a hash value: not reproducible across processes
        if op.get("via") != "copy_to" and not mal and rng.random() < 0.3:
            via_shortcut(rng, impl, ti, op)
        return op
    if k == "copykids":
        st = rng.randrange(len(impl.trees))
        sp_all = [[]] + paths_of(impl.trees[st])
        sp = rng.choice(sp_all)
        p = rng.choice(allp)
        if st == ti and p[: len(sp)] == sp:
            return random_op(rng, impl, ti, labels=labels, malformed=malformed, typed=typed, ops=["add"])
        return {"op": "w.copykids", "t": ti, "p": p, "st": st, "sp": sp, "deep": rng.random() < 0.5, "tree_api": rng.random() < 0.7}
    if k == "addtree":
        if len(impl.trees) < 2:
            return random_op(rng, impl, ti, labels=labels, malformed=malformed, typed=typed, ops=["add"])
        st = rng.choice([i for i in range(len(impl.trees)) if i != ti])
        if not impl.trees[st].children:
            return random_op(rng, impl, ti, labels=labels, malformed=malformed, typed=typed, ops=["add"])
        p = rng.choice(allp)
        bs_ = befores(rng, impl, ti, p, malformed=mal)
        op = {"op": "w.addtree", "t": ti, "p": p, "st": st, "before": rng.choice(bs_ if mal else bs_[:8]),
              "deep": rng.choice([None, None, True, False])}
        if not mal and rng.random() < 0.35:
            via_shortcut(rng, impl, ti, op)
        return op
    if k == "move":
        n = rng.choice(paths)
        cands = [q for q in allp if q[: len(n)] != n] if not mal else allp
        to = rng.choice(cands or [[]])
        if rng.random() < 0.25:
            to = n[:-1]          # re-positioned below its current parent
        op = {"op": "w.move", "t": ti, "n": n, "to": to}
        # candidate befores relative to the target once n is detached is subtle: use node/None/True/ints
        par = impl.node(ti, to)
        sibs = [i for i, c in enumerate(par.children) if (to + [i]) != n]
        c = [None, True, False, 0]
        if sibs:
            c += [{"path": to + [rng.choice(sibs)]}, 1, len(sibs), -1, -2, len(sibs) - 1]
        if mal:
            c += [7, {"path": n}]
            if paths:
                c.append({"path": rng.choice(paths)})
            if impl.graveyard:
                c += [{"dead": rng.randrange(len(impl.graveyard))}] * 3
        op["before"] = rng.choice(c)
        if mal and len(impl.trees) > 1 and rng.random() < 0.3:
            op["cross"] = True
            op["ct"] = 1 - ti if ti < 2 else 0
        if rng.random() < 0.3:
            op["tree_api"] = False
        return op
    if k == "del":
        ks = del_keys(impl, ti, labels)
        cats = [c for c in ("data", "data", "data", "id", "id", "unused", "node", "raising", "raising") if ks[c]]
        if mal:
            cats = [c for c in ("unused", "node", "raising", "data") if ks[c]]
        key = rng.choice(ks[rng.choice(cats)])
        return dict({"op": "w.del", "t": ti}, **key)
    if k == "remove":
        return {"op": "w.remove", "t": ti, "n": rng.choice(paths), "keep": rng.random() < 0.4, "clones": rng.random() < 0.3}
    if k == "removechildren":
        if rng.random() < 0.25:
            return {"op": "w.removechildren", "t": ti, "n": [], "tree_api": True}      # Tree.clear()
        return {"op": "w.removechildren", "t": ti, "n": rng.choice(allp if rng.random() < 0.2 else paths), "tree_api": rng.random() < 0.7}
    if k == "sort":
        op = {"op": "w.sort", "t": ti, "n": rng.choice(allp), "reverse": rng.random() < 0.4, "tree_api": rng.random() < 0.6}
        if rng.random() < 0.7:
            op["deep"] = rng.random() < 0.5
        if rng.random() < 0.3:
            op["key_explicit"] = True
        return op
    if k == "setdata":
        n = rng.choice(paths)
        r = rng.random()
        op = {"op": "w.setdata", "t": ti, "n": n, "clones": rng.choice([None, None, True, False])}
        if r < 0.5:
            op["a"] = rng.choice(labels)
        elif r < 0.7:
            op["a"] = rng.choice(labels)
            op["did"] = rng.choice([1001, 1002, "x", 7, 0, "", "A"])
        elif r < 0.85:
            op["a"] = None
            op["did"] = rng.choice([1001, 1002, "x", 7, 0, "", "A"])
        else:
            op["a"] = rng.choice([x for x in labels if isinstance(x, int) and x < 12] or labels)
            op["via"] = "rename"
            op["clones"] = None
        if mal and rng.random() < 0.3:
            op["a"] = None
            op["did"] = None
        return op
    if k == "filter":
        bij = impl._bij
        p = rng.choice(allp)
        start = impl.node(ti, p)
        tags = ["retTrue", "retTrue", "retFalse", "retFalse", "retNone", "retSkipInst", "retSkipSelfInst", "retSelectCls", "raiseStop", "raiseSkip"]
        tbl = {}
        for nd in start.iterator():
            mid = bij.i2m.get(id(nd))
            if mid is not None:
                tbl[str(mid)] = rng.choice(tags)
        return {"op": "w.filter", "t": ti, "n": p, "v": tbl, "tree_api": rng.random() < 0.6}
    if k == "meta":
        n = rng.choice(paths)
        kind = rng.choice(["set", "set", "clear", "update"])
        op = {"op": "w.meta", "t": ti, "n": n, "kind": kind}
        if kind == "set":
            op["k"] = rng.choice(["a", "b"])
            op["v"] = json.dumps(rng.choice([1, "x", [1, 2], 0, False, "", [], None, None]))
        elif kind == "clear":
            op["k"] = rng.choice([None, "a", "b"])
        else:
            op["vals"] = [[k_, json.dumps(rng.choice([1, 2, 0, None]))] for k_ in rng.sample(["a", "c", "d"], rng.choice([0, 1, 1, 2]))]
            op["replace"] = rng.random() < 0.4
            if rng.random() < 0.6:
                op["shared"] = rng.choice([0, 1])
        return op
    raise AssertionError(k)


def build_ops(spec, ti, typed=False):
    """ops that build a tree from a spec by appending (pre-order)"""
    ops = []

    def go(s, p):
        for i, (lab, kids) in enumerate(s):
            if isinstance(lab, dict):
                op = {"op": "w.add", "t": ti, "p": p, "a": lab["a"]}
                if lab.get("did") is not None:
                    op["did"] = lab["did"]
                if typed:
                    op["kind"] = lab.get("k") or "child"
            elif isinstance(lab, tuple):
                op = {"op": "w.add", "t": ti, "p": p, "a": lab[0], "kind": lab[1]}
            else:
                op = {"op": "w.add", "t": ti, "p": p, "a": lab}
                if typed:
                    op["kind"] = "child"
            ops.append(op)
            go(kids, p + [i])

    go(spec, [])
    return ops
