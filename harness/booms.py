"""The exceptions that the harness's user callbacks raise (calc_data_id hooks, sort keys, predicates, traversal callbacks,
mappers).  A callback's exception must escape the library call unchanged, whatever its class: a `KeyError` from a catalogue
lookup, a `ValueError`, `TypeError`, `AttributeError`, `IndexError`, `RuntimeError` are the classes that library code catches
around its own dict / list / attribute accesses, so every raise takes the next class of a rotation (7 classes: prime, so the
rotation does not run in step with enumerations of even size).  All are subclasses of CbBoom, which is what the harness
catches.  FORCE (replays) pins one flavour."""

class CbBoom(Exception):
    pass


FLAVOURS = [CbBoom] + [type("Cb" + b.__name__, (CbBoom, b), {}) for b in (KeyError, ValueError, TypeError, AttributeError, IndexError, RuntimeError)]
FORCE = None
_rot = [0]
STATS = {}


def boom(tag=""):
    if FORCE is not None:
        cls = FLAVOURS[FORCE % len(FLAVOURS)]
    else:
        _rot[0] += 1
        cls = FLAVOURS[_rot[0] % len(FLAVOURS)]
    STATS[cls.__name__] = STATS.get(cls.__name__, 0) + 1
    return cls(tag)
