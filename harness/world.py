"""Stateful correspondence: the same operation history on real nutree trees and on the
Lean model (driver ops `w.*`), with per-step comparison and invariant oracles.

Nodes are addressed by path (child indices from the system root).  Identity is tracked by a
bijection model node id <-> implementation node object that is extended position-wise.
"""
from __future__ import annotations

import json

import adapter
from nutree import IterMethod, Node, Tree
from nutree.typed_tree import TypedTree


from booms import CbBoom, boom  # noqa: E402


class Bij:
    def __init__(self):
        self.m2i = {}
        self.i2m = {}
        self.keep = []
        self.nid = {}  # model id -> node_id of the implementation node when first seen
        self.did = {}  # model id -> last seen data_id (real)

    def bind(self, mid, obj):
        self.m2i[mid] = obj
        self.i2m[id(obj)] = mid
        self.keep.append(obj)
        self.nid[mid] = obj.node_id


class ImplWorld:
    def __init__(self, pool):
        self.pool = pool
        self.trees = []
        self.hooks = []
        self.graveyard = []   # node objects that were removed from their tree, in the order they vanished (stale references a caller may still hold)

    def new(self, typed=False, hook=None):
        kw = {}
        if hook is not None:
            table = {o: d for o, d in hook}

            def calc(tree, data, _t=table, _pool=self.pool):
                try:
                    i = _pool.index_of(data)
                except KeyError:
                    return hash(data)
                i = _pool.attrs[i]["obj"]
                if i in _t:
                    if _t[i] is None:
                        raise boom("calc_data_id")
                    return _t[i]
                return hash(data)

            kw["calc_data_id"] = calc
        t = (TypedTree if typed else Tree)(f"T{len(self.trees)}", **kw)
        self.trees.append(t)
        self.hooks.append(hook)
        return len(self.trees) - 1

    def node(self, ti, path):
        return adapter.node_at(self.trees[ti], path)

    def resolve_before(self, op):
        b = op.get("before")
        if isinstance(b, dict) and "dead" in b:
            return self.graveyard[b["dead"] % len(self.graveyard)]   # a node that was removed earlier
        if isinstance(b, dict):
            ti = b.get("ft", op["t"])
            return self.node(ti, b["path"])
        return b

    def del_key(self, op):
        """the key object of `del tree[key]` (op `w.del`).  Exactly one of: `"a"` = the pool data object
        `pool.objs[a]`; `"did"` = a raw data_id (int / str); `"hash_of"` = `hash(pool.objs[i])` as a raw int
        (the default data_id of that object; not replayable as a number: str hashes are salted per process);
        `"node"` = the `Node` at that path (refused with ValueError)."""
        if op.get("node") is not None:
            return self.node(op["t"], op["node"])
        if op.get("hash_of") is not None:
            return hash(self.pool.objs[op["hash_of"]])
        if op.get("a") is not None:
            return self.pool.objs[op["a"]]
        return op["did"]

    def apply(self, op):
        """returns 'ok' or the error class"""
        before = [n for t in self.trees for n in t]
        try:
            return self._apply_res(op)
        finally:
            try:
                alive = {id(n) for t in self.trees for n in t}
                self.graveyard += [n for n in before if id(n) not in alive and not any(n is g for g in self.graveyard[-50:])]
                del self.graveyard[:-200]
            except Exception:  # noqa  (a corrupted tree that cannot be iterated: the oracles report it)
                pass

    def _apply_res(self, op):
        try:
            self._apply(op)
            return "ok"
        except CbBoom:
            return "callback"
        except RecursionError:
            return "recursion"
        except Exception as e:  # noqa
            if isinstance(e, CbBoom) or type(e).__name__ == "Boom":     # props/c08.py: the exception a harness predicate raises ("raiseOther")
                return "callback"
            return adapter.err_class(e)

    def _apply(self, op):
        k = op["op"]
        pool = self.pool
        t = self.trees[op["t"]] if "t" in op else None
        if k == "w.add":
            via = op.get("via")
            kw = {}
            if op.get("did") is not None:
                kw["data_id"] = op["did"]
            if t.__class__ is TypedTree and (op.get("kind") is not None or not op.get("nokind")):
                kw["kind"] = op.get("kind") or "child"
            data = pool.objs[op["a"]]
            if "nid" in op or "nid_ref" in op:
                kw["node_id"] = resolve_nid(op, self)      # an explicit node_id (any spelling that int() accepts)
            if via in (None, "add", "add_child"):
                tgt = self.node(op["t"], op["p"])
                if not op["p"] and op.get("tree_api", True):
                    tgt = t
                b = self.resolve_before(op)
                if b is not None or op.get("before_explicit"):
                    kw["before"] = b
                getattr(tgt, "add_child" if via == "add_child" else "add")(data, **kw)
            elif via == "append_child":
                self.node(op["t"], op["p"]).append_child(data, **kw)
            elif via == "prepend_child":
                self.node(op["t"], op["p"]).prepend_child(data, **kw)
            elif via == "prepend_sibling":
                kw.pop("kind", None) if False else None
                self.node(op["t"], op["ref"]).prepend_sibling(data, **{k_: v for k_, v in kw.items() if k_ != "kind"})
            elif via == "append_sibling":
                self.node(op["t"], op["ref"]).append_sibling(data, **{k_: v for k_, v in kw.items() if k_ != "kind"})
            else:
                raise AssertionError(via)
        elif k == "w.addnode":
            tgt = self.node(op["t"], op["p"])
            if not op["p"]:
                tgt = t
            src = self.node(op["st"], op["sp"])
            kw = {}
            b = self.resolve_before(op)
            if b is not None:
                kw["before"] = b
            if op.get("deep") is not None:
                kw["deep"] = op["deep"]
            if op.get("did") is not None:
                kw["data_id"] = op["did"]
            if t.__class__ is TypedTree and op.get("kind") is not None:
                kw["kind"] = op["kind"]
            via = op.get("via")
            if via == "copy_to":
                # arguments that equal the documented default are left out, so that the default itself is exercised
                ckw = {}
                if kw.get("before") is not None:
                    ckw["before"] = kw["before"]
                if op.get("deep"):
                    ckw["deep"] = True
                src.copy_to(tgt, **ckw)
            elif op.get("sc"):
                name, ref = op["sc"]
                kw.pop("before", None)
                if ref is not None:
                    kw.pop("kind", None)
                getattr(self.node(op["t"], ref) if ref is not None else tgt, name)(src, **kw)
            else:
                tgt.add(src, **kw)
        elif k == "w.addtree":
            tgt = self.node(op["t"], op["p"])
            if not op["p"]:
                tgt = t
            kw = {}
            b = self.resolve_before(op)
            if b is not None:
                kw["before"] = b
            if op.get("deep") is not None:
                kw["deep"] = op["deep"]
            if op.get("sc"):
                name, ref = op["sc"]
                kw.pop("before", None)
                getattr(self.node(op["t"], ref) if ref is not None else tgt, name)(self.trees[op["st"]], **kw)
            else:
                tgt.add(self.trees[op["st"]], **kw)
        elif k == "w.copykids":
            tgt = self.node(op["t"], op["p"])
            if not op["p"]:
                tgt = t
            if not op["sp"] and op.get("tree_api", True):
                deep = op.get("deep", True)
                self.trees[op["st"]].copy_to(tgt, **({} if deep is True else {"deep": deep}))     # Tree.copy_to: deep=True
            else:
                deep = op.get("deep", False)
                self.node(op["st"], op["sp"]).copy_to(tgt, add_self=False, **({} if deep is False else {"deep": deep}))   # Node.copy_to: deep=False
        elif k == "w.copy":
            new = self.trees[op["st"]].copy()
            self.trees.append(new)
            self.hooks.append(None)
        elif k == "w.nodecopy":
            new = self.node(op["st"], op["sp"]).copy(**({} if op.get("self", True) is True else {"add_self": op["self"]}))   # add_self=True
            self.trees.append(new)
            self.hooks.append(None)
        elif k == "w.move":
            n = self.node(op["t"], op["n"])
            if op.get("cross"):
                to = self.trees[op["ct"]]
            else:
                to = self.node(op["t"], op["to"])
                if not op["to"] and op.get("tree_api", True):
                    to = t
            kw = {}
            b = self.resolve_before(op)
            if b is not None:
                kw["before"] = b
            n.move_to(to, **kw)
        elif k == "w.remove":
            rkw = {}
            if op.get("keep", False):
                rkw["keep_children"] = op["keep"]
            if op.get("clones", False):
                rkw["with_clones"] = op["clones"]
            self.node(op["t"], op["n"]).remove(**rkw)      # keep_children=False, with_clones=False
        elif k == "w.removechildren":
            if not op["n"] and op.get("tree_api", True):
                t.clear()
            else:
                self.node(op["t"], op["n"]).remove_children()
        elif k == "w.sort":
            key = op.get("key", "name")
            kw = {"reverse": True} if op.get("reverse", False) else {}      # reverse=False
            if key != "name":
                bij = op["_bij"]

                def keyfn(node, _tbl=key, _bij=bij):
                    mid = _bij.i2m.get(id(node))
                    v = _tbl.get(str(mid), "")
                    if v is None:
                        raise boom("key")
                    return v

                kw["key"] = keyfn
            elif op.get("key_explicit"):
                kw["key"] = lambda node: node.name
            if not op["n"] and op.get("tree_api", True):
                if "deep" in op and op["deep"] is not True:     # Tree.sort: deep=True
                    kw["deep"] = op["deep"]
                t.sort(**kw)
            else:
                if op.get("deep", False):                       # Node.sort_children: deep=False
                    kw["deep"] = op["deep"]
                self.node(op["t"], op["n"]).sort_children(**kw)
        elif k == "w.setdata":
            n = self.node(op["t"], op["n"])
            kw = {}
            if op.get("did") is not None:
                kw["data_id"] = op["did"]
            if op.get("clones") is not None:
                kw["with_clones"] = op["clones"]
            data = None if op.get("a") is None else pool.objs[op["a"]]
            if op.get("via") == "rename":
                n.rename(data)
            else:
                n.set_data(data, **kw)
        elif k == "w.filter":
            from props.c08 import make_pred

            class _Ser:  # adapter: verdict tables are keyed by model node ids
                def __init__(self, bij):
                    self.bij = bij

                def of(self, node):
                    return self.bij.i2m.get(id(node))

            pred = make_pred(op["v"], _Ser(op["_bij"]))
            if not op["n"] and op.get("tree_api", True):
                t.filter(pred)
            else:
                self.node(op["t"], op["n"]).filter(pred)
        elif k == "w.del":
            del t[self.del_key(op)]
        elif k == "w.dead":
            dead = self.graveyard[op["k"] % len(self.graveyard)]
            what = op["what"]
            if what == "move":
                dead.move_to(self.node(op["t"], op["to"]))
            elif what == "add":
                dead.add(pool.objs[op["a"]])
            elif what == "remove":
                dead.remove()
            elif what == "set_data":
                dead.set_data(pool.objs[op["a"]])
            elif what == "remove_children":
                dead.remove_children()
            else:
                dead.rename("Q-dead")
        elif k == "w.meta":
            n = self.node(op["t"], op["n"])
            kind = op["kind"]
            if kind == "set":
                n.set_meta(op["k"], json.loads(op["v"]))
            elif kind == "clear":
                n.clear_meta(op.get("k"))
            elif kind == "update":
                vals = {k_: json.loads(v) for k_, v in op["vals"]}
                if op.get("shared") is not None:
                    # the caller re-uses one dict object for several calls (and edits it in between)
                    if not hasattr(self, "shared_meta"):
                        self.shared_meta = {}
                    d = self.shared_meta.setdefault(op["shared"], {})
                    d.clear()
                    d.update(vals)
                    n.update_meta(d, **({"replace": True} if op.get("replace", False) else {}))
                    if d != vals:
                        raise AssertionError("update_meta changed the caller's dict")
                else:
                    n.update_meta(vals, **({"replace": True} if op.get("replace", False) else {}))
        else:
            raise AssertionError(k)


_BR_ROT = [0]
_BD_ROT = [0]


def resolve_nid(op, impl):
    if "nid_ref" in op:
        path, spell = op["nid_ref"]
        base = impl.node(op["t"], path).node_id
        return {"int": base, "str": str(base), "float": float(base), "half": base + 0.5}[spell]
    return op["nid"]


def model_op(op, impl):
    """translate an implementation-level op to the driver's wire format.  The MEANING of the entry points is in
    the Lean model (`World.step`): the shortcuts (`via`, called on the node at `p` resp. `ref`), `del tree[key]`,
    the metadata calls and `Tree.clear()` / `Tree.sort()` are sent as they are.  What is computed here only describes
    the arguments the harness passes to the implementation (the explicit `kind="child"` for typed trees, the
    harness' own `deep=False` for `sort_children`, what kind of object a `del` key is)."""
    m = {k: v for k, v in op.items() if not k.startswith("_")}
    if op["op"] == "w.add":
        typed = impl.trees[op["t"]].__class__ is TypedTree
        if typed and op.get("kind") is None and not op.get("nokind"):
            m["kind"] = "child"   # `_apply` passes kind="child" explicitly (not to the sibling shortcuts: they have no `kind=`)
    if op["op"] == "w.del":
        # describe the key: `a` = it is (identical or, like the hook of the harness decides, equal and of the same type as)
        # the pool object a; `did` = it is an int / str
        key = impl.del_key(op)
        m = {"op": "w.del", "t": op["t"], "a": None, "did": None}
        if not isinstance(key, Node):
            try:
                m["a"] = impl.pool.index_of(key)
            except KeyError:
                pass
            if isinstance(key, (int, str)) and not isinstance(key, bool):
                m["did"] = key
    if op["op"] == "w.dead":
        return {"op": "w.obs"}       # no operation of the model: the observable state must stay as it is
    if op["op"] == "w.add" and ("nid" in op or "nid_ref" in op):
        # explicit node ids are outside the model (its identities are a counter).  The harness decides itself whether the id is
        # acceptable: it must convert to a non-zero int that no node of the tree carries; otherwise the call must be refused and
        # the state stay as it is (`w.obs`).  An acceptable id makes the call an ordinary add.
        try:
            nid = int(resolve_nid(op, impl))
            bad = nid == 0 or any(n.node_id == nid for n in impl.trees[op["t"]])
        except Exception:  # noqa
            bad = True
        op["_nid_refused"] = bad
        if bad:
            return {"op": "w.obs"}
        m.pop("nid", None)
        m.pop("nid_ref", None)
    if op["op"] == "w.addnode" and op.get("via") == "copy_to":
        m["kind"] = None   # copy_to() has no `kind` argument
    if op["op"] == "w.setdata" and op.get("via") == "rename":
        m["did"] = None
        m["clones"] = None
    b = m.get("before")
    if isinstance(b, dict) and "dead" in b:
        m["before"] = {"path": [], "foreign": True}    # a removed node is no child of any node
    elif isinstance(b, dict) and b.get("ft", op.get("t")) != op.get("t"):
        m["before"] = {"path": b["path"], "foreign": True}
    if op["op"] == "w.copykids":
        if not op["sp"] and op.get("tree_api", True):
            m["deep"] = op.get("deep", True)
        else:
            m["deep"] = op.get("deep", False)
    if op["op"] == "w.sort":
        if not op["n"] and op.get("tree_api", True):
            pass   # Tree.sort(): `deep` is sent only if the caller passes it; the default is the model's
        else:
            m["deep"] = op.get("deep", False)   # `_apply` always passes deep= to sort_children()
    if op["op"] == "w.move" and op.get("cross"):
        m["to"] = []
    return m


def observe_and_match(impl, ti, mobs, bij, pool):
    """walk the implementation tree `ti` in parallel with the model's observation;
    returns (problems, impl_forest_json_with_model_ids)."""
    tree = impl.trees[ti]
    problems = []

    def walk(mf, kids, where):
        out = []
        if len(mf) != len(kids):
            problems.append(f"shape: {len(kids)} children at {where} in the implementation, {len(mf)} in the model")
            return out
        for k, (m, o) in enumerate(zip(mf, kids)):
            mid = m[0]
            if mid in bij.m2i:
                if bij.m2i[mid] is not o:
                    problems.append(f"identity: node at {where + [k]} is not the object that the history put there (model node {mid})")
            else:
                if id(o) in bij.i2m:
                    problems.append(f"identity: node at {where + [k]} is an existing object, the model created a new node {mid}")
                else:
                    bij.bind(mid, o)
            try:
                a = pool.attrs[pool.index_of(o.data)]["obj"]
            except KeyError:
                a = -1
            did = pool.canon_did(o.data_id)
            kind = getattr(o, "kind", None)
            meta = adapter.meta_wire(o.meta)
            if meta == []:
                pass
            mm = m[4]
            if [a, did, kind] != [m[1], m[2], m[3]] or (meta or None) != (mm or None) and not (meta == [] and mm is None and False):
                if [a, did, kind] != [m[1], m[2], m[3]] or meta != mm:
                    problems.append(
                        f"content: node at {where + [k]} has (data#{a}, data_id={did!r}, kind={kind!r}, meta={meta!r}), model ({m[1]}, {m[2]!r}, {m[3]!r}, {mm!r})"
                    )
            bij.did[mid] = o.data_id
            out.append([mid, a, did, kind, meta, walk(m[5], o.children, where + [k])])
        return out

    forest = walk(mobs["tree"], tree.children, [])
    return problems, forest


def oracle_structure(impl, ti, bij, pool, driver):
    """invariants evaluated on the implementation alone (no model involved):
    returns dict conjunct -> list of problems.  C01: parent/owner/ids/registry/removed;
    C02: index; C03: siblings."""
    tree = impl.trees[ti]
    ser = adapter.Serials()
    ser.by_obj[id(tree.system_root)] = 0
    ser.keep.append(tree.system_root)
    res = {"parent": [], "owner": [], "ids": [], "registry": [], "removed": [], "index": [], "sib": []}
    reachable = []

    def walk(p, depth):
        if depth > 200:
            res["parent"].append("cycle or depth > 200")
            return []
        out = []
        for c in p.children:
            reachable.append(c)
            try:
                up = c.up()
            except Exception as e:  # noqa
                up = e
            if up is not p:
                res["parent"].append(f"node {c!r} is a child of {p!r} but up() is {up!r}")
            want = None if p is tree.system_root else p
            try:
                par = c.parent
            except Exception as e:  # noqa
                par = e
            if par is not want:
                res["parent"].append(f"node {c!r}.parent is {par!r}, its position says {want!r}")
            if c.tree is not tree:
                res["owner"].append(f"node {c!r}.tree is {c.tree!r}")
            out.append([ser.of(c), 0, pool.canon_did(c.data_id), None, None, walk(c, depth + 1)])
        return out

    forest = walk(tree.system_root, 0)
    objs = [id(n) for n in reachable]
    if len(set(objs)) != len(objs):
        res["ids"].append("a node object is reachable twice")
    nids = [n.node_id for n in reachable]
    if len(set(nids)) != len(nids):
        res["ids"].append("node_ids are not unique")
    if tree.count != len(reachable) or len(tree) != len(reachable):
        res["registry"].append(f"count={tree.count}, len={len(tree)}, reachable={len(reachable)}")
    for n in reachable:
        try:
            f = tree.find_first(node_id=n.node_id)
        except Exception as e:  # noqa
            f = e
        if f is not n:
            res["registry"].append(f"find_first(node_id of {n!r}) is {f!r}")
    by_id = []
    try:
        for n in tree.iterator(IterMethod.UNORDERED):
            by_id.append(ser.of(n))
    except Exception as e:  # noqa
        res["registry"].append(f"iterator(UNORDERED) raised {e!r}")
    reach_set = set(objs)
    for mid, o in list(bij.m2i.items()):
        if bij.nid.get(mid) is None:
            continue
        if id(o) not in reach_set and getattr(o, "_verif_tree", ti) == ti:
            pass
    # removed nodes: every implementation node ever seen in this tree that is no longer reachable
    for mid, o in bij.m2i.items():
        if bij.tree_of.get(mid) != ti or id(o) in reach_set:
            continue
        try:
            f = tree.find_first(node_id=bij.nid[mid])
        except Exception as e:  # noqa
            f = e
        if f is not None:
            res["removed"].append(f"removed node (model id {mid}) is still found by node_id: {f!r}")
    # the data_id index, through the public queries
    dids = []
    for n in reachable:
        if n.data_id not in dids:
            dids.append(n.data_id)
    old = []
    for mid, d in bij.did.items():
        if bij.tree_of.get(mid) == ti and d is not None and d not in dids and d not in old:
            old.append(d)
    by_data = []
    for d in dids + old:
        try:
            lst = tree.find_all(data_id=d)
        except Exception as e:  # noqa
            res["index"].append(f"find_all(data_id={d!r}) raised {e!r}")
            continue
        if lst:
            if any(not isinstance(n, Node) for n in lst):
                res["index"].append(f"find_all(data_id={pool.canon_did(d)!r}) returns {lst!r}: not nodes (an EMPTY result that the caller had extended earlier was handed out again)")
                continue
            by_data.append([pool.canon_did(d), [ser.of(n) for n in lst]])
            for n in lst:
                if id(n) not in reach_set:
                    res["index"].append(f"find_all(data_id={pool.canon_did(d)!r}) returns a node that is not in the tree")
        elif isinstance(lst, list):
            # an empty result belongs to the caller (`found = tree.find_all(a); found += tree.find_all(b)`): extend it in place
            lst.append("extended by the caller")
    if tree.count_unique != len(by_data):
        res["index"].append(f"count_unique={tree.count_unique}, distinct data_ids found={len(by_data)}")
    none_ids = [n for n in reachable if n.data_id is None]
    if none_ids:
        res["index"].append(f"node {none_ids[0]!r} is in the tree without a data_id (None): {len(none_ids)} such node(s)")
        chk = {k: True for k in ("ids", "registry", "index", "sib")}
    else:
        chk = driver.ask({"op": "w.chk", "tree": forest, "byId": by_id, "byData": by_data})
    if "fail" in chk:
        res["ids"].append(f"driver: {chk}")
    else:
        for k in ("ids", "registry", "index", "sib"):
            if not chk[k]:
                res[k].append(f"Lean check {k}=false on the observed state (tree={forest}, byId={by_id}, byData={by_data})")
    # clone queries
    for n in reachable:
        try:
            same = [m for m in reachable if m.data_id == n.data_id]
            cl = n.get_clones()
            cl2 = n.get_clones(add_self=True)
            if sorted(map(id, cl)) != sorted(id(m) for m in same if m is not n) or sorted(map(id, cl2)) != sorted(map(id, same)):
                res["index"].append(f"get_clones() of {n!r} != nodes with the same data_id")
            # the lists that get_clones() returns are the caller's (a work list that is consumed): emptying them changes nothing
            cl.clear()
            cl2.clear()
            if len(n.get_clones(add_self=True)) != len(same):
                res["index"].append(f"get_clones(add_self=True) of {n!r} hands out the tree's own list: emptying the result emptied the registry entry")
                cl2.extend(same)     # put the entries back, so that the run can go on
            if n.is_clone() != (len(same) > 1):
                res["index"].append(f"is_clone() of {n!r} = {n.is_clone()}, {len(same)} nodes carry the id")
            ff = tree.find_first(data_id=n.data_id)
            if ff is None or ff.data_id != n.data_id or id(ff) not in reach_set:
                res["index"].append(f"find_first(data_id) of {n!r} -> {ff!r}")
        except Exception as e:  # noqa
            res["index"].append(f"clone queries of {n!r} raised {e!r}")
    # lookups by data OBJECT (`tree.find_all(obj)`, `tree.find_first(obj)`, `obj in tree`): exactly the nodes that carry the id
    # of that object - the tree's id callback applied to it, else hash(obj) - whether or not some node has an explicit
    # data_id that happens to EQUAL the object (a str/int id is not a data object).  Candidates: the data of the reachable
    # nodes, the pool objects that equal a data_id in use, and a rotating few of the others (absent objects).
    _BD_ROT[0] += 1
    cands = []
    for o in [n.data for n in reachable] + [o for o in pool.objs if isinstance(o, (str, int)) and any(type(d) is type(o) and d == o for d in dids)] \
            + [pool.objs[(_BD_ROT[0] * 5 + j * 7) % len(pool.objs)] for j in range(2)]:
        if not any(o is c for c in cands):
            cands.append(o)
    for o in cands[:12]:
        try:
            oid = tree.calc_data_id(o)
            hash(oid)
        except Exception:  # noqa  (unhashable object without a callback, raising callback entry: no id to look up)
            continue
        want = [n for n in reachable if n.data_id == oid]
        try:
            got = tree.find_all(o)
            ff = tree.find_first(o)
            inn = o in tree
        except Exception as e:  # noqa
            res["index"].append(f"lookups by the data object {o!r} raised {e!r}")
            continue
        if sorted(map(id, got)) != sorted(map(id, want)):
            res["index"].append(f"find_all({o!r}) by data object = {got!r}, nodes that carry its data_id: {want!r}")
        elif (ff is None) != (not want) or (ff is not None and not any(ff is n for n in want)):
            res["index"].append(f"find_first({o!r}) by data object = {ff!r}, nodes that carry its data_id: {want!r}")
        elif inn != bool(want):
            res["index"].append(f"({o!r} in tree) = {inn}, nodes that carry its data_id: {want!r}")
        if not got and isinstance(got, list):
            got.append("extended by the caller")
    # branch-scoped lookups by id: exactly the nodes of that branch that carry the id, in pre-order
    def below(n):
        for c in n.children:
            yield c
            yield from below(c)

    # (a rotating sample per observation: two branches, three ids - every observation of a history looks at other ones)
    _BR_ROT[0] += 1
    brs = [n for n in reachable if n.children]
    branches = [brs[(_BR_ROT[0] + j * 3) % len(brs)] for j in range(min(2, len(brs)))] if brs else []
    dsel = [dids[(_BR_ROT[0] * 2 + j) % len(dids)] for j in range(min(3, len(dids)))] if dids else []
    for n in branches:
        sub = list(below(n))
        for d in dsel:
            for add_self in (False, True):
                want = ([n] if add_self and n.data_id == d else []) + [m for m in sub if m.data_id == d]
                try:
                    got = n.find_all(data_id=d, add_self=add_self)
                except Exception as e:  # noqa
                    res["index"].append(f"{n!r}.find_all(data_id={pool.canon_did(d)!r}, add_self={add_self}) raised {e!r}")
                    continue
                if list(map(id, got)) != list(map(id, want)):
                    res["index"].append(f"{n!r}.find_all(data_id={pool.canon_did(d)!r}, add_self={add_self}) = {got!r}, in the branch: {want!r}")
            try:
                ff = n.find_first(data_id=d)
            except Exception as e:  # noqa
                ff = e
            w1 = next((m for m in sub if m.data_id == d), None)
            if ff is not w1:
                res["index"].append(f"{n!r}.find_first(data_id={pool.canon_did(d)!r}) = {ff!r}, in the branch: {w1!r}")
    try:
        # (the library's own consistency check insists on node_id == id(node): it is not applicable once the application
        # has given a node an id of its own)
        if all(n.node_id == id(n) for n in reachable):
            tree._self_check()
    except Exception as e:  # noqa
        res["registry"].append(f"_self_check() raised {type(e).__name__}")
    return res
