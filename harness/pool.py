"""Data-object pool of the harness.

The attributes the model needs (`is`, `==`, hash, truthiness, isinstance str, str())
are *measured* on the real objects, not assumed.
"""
from __future__ import annotations

import dataclasses

from nutree.common import DictWrapper


@dataclasses.dataclass(frozen=True)
class Item:
    name: str
    n: int = 0

    def __str__(self):
        return f"Item<{self.name},{self.n}>"


class EqObj:
    """User class with value equality (equal-but-distinct instances)."""

    def __init__(self, key):
        self.key = key

    def __eq__(self, other):
        return isinstance(other, EqObj) and other.key == self.key

    def __hash__(self):
        return hash(("EqObj", self.key))

    def __str__(self):
        return f"E{self.key}"

    __repr__ = __str__


class Plain:
    """Identity equality / identity hash."""

    def __init__(self, name):
        self.name = name

    def __str__(self):
        return f"P{self.name}"

    __repr__ = __str__


def make_pool():
    d1 = {"k": 1}
    pool = [
        "A", "B", "C", "D", "E", "F",              # 0-5 plain strings
        "a1", "a2", "b1", "b2", "ab", "é✓",         # 6-11
        7, 8, -3,                                   # 12-14 ints (hash(i)==i)
        ("x", 1), ("x", 1 + 0), ("y", 2),           # 15-17 tuples (15 == 16, maybe same obj)
        Item("p", 1), Item("p", 1), Item("q", 2),   # 18-20 frozen dataclass (18 == 19, distinct objs)
        DictWrapper(d1), DictWrapper(d1), DictWrapper({"k": 1}),  # 21-23 (21 == 22: same dict)
        EqObj(1), EqObj(1), EqObj(2),               # 24-26
        Plain("u"), Plain("v"),                     # 27-28
        0, "",                                      # 29-30 falsy data
        "t ", "  ",                                 # 31-32 strings that end in / consist of white space (renderings that `strip` would change)
        Plain("u"),                                 # 33 another object with the same str() as 27 (distinct identity, hash, data_id)
    ]
    return pool


STR_IDX = list(range(0, 12))
HASH_BASE = 10_000_000


class Pool:
    def __init__(self):
        self.objs = make_pool()
        self.attrs = []
        self.hash_canon = {}  # real hash value -> canonical DataId (int)
        first_with_hash = {}
        for i, o in enumerate(self.objs):
            eqc = i
            for j in range(i):
                try:
                    if self.objs[j] == o:
                        eqc = self.attrs[j]["eqc"]
                        break
                except Exception:
                    pass
            obj = i
            for j in range(i):
                if self.objs[j] is o:
                    obj = j
                    break
            h = hash(o)
            if (isinstance(o, int) and not isinstance(o, bool) and h == o) or abs(h) < 1_000_000:
                # small hash values are kept as they are (hash(i) == i for small ints, hash("") == 0):
                # they can coincide with explicit integer ids, and must then coincide in the model too
                hid = h
            else:
                if h not in first_with_hash:
                    first_with_hash[h] = i
                hid = HASH_BASE + first_with_hash[h]
                self.hash_canon[h] = hid
            self.attrs.append(
                dict(obj=obj, eqc=eqc, hid=hid, truthy=bool(o), isStr=isinstance(o, str), name=str(o))
            )
        self.by_objid = {}
        for i, o in enumerate(self.objs):
            self.by_objid.setdefault(id(o), i)

    def index_of(self, o):
        """pool index of a data object (identity first, then equality for strings
        that were re-created e.g. by a JSON round trip)."""
        i = self.by_objid.get(id(o))
        if i is not None:
            return i
        for i, p in enumerate(self.objs):
            if type(p) is type(o) and p == o:
                return i
        raise KeyError(f"not a pool object: {o!r}")

    def canon_did(self, did):
        if isinstance(did, bool):
            return int(did)
        if isinstance(did, int):
            return self.hash_canon.get(did, did)
        return did

    def wire(self):
        return [[a["obj"], a["eqc"], a["hid"], a["truthy"], a["isStr"], a["name"]] for a in self.attrs]
