"""Common machinery of the checks: context, outcome, proof audit, verdict, evidence."""
from __future__ import annotations

import collections
import fcntl
import hashlib
import json
import os
import random
import re
import subprocess
import sys
import time

HERE = os.path.dirname(os.path.abspath(__file__))
VERIF = os.path.dirname(HERE)
LEAN = os.path.join(VERIF, "lean")
EVID = os.path.join(VERIF, "evidence")
REPLAYS = os.path.join(EVID, "replays")
ALLOWED_AXIOMS = {"propext", "Classical.choice", "Quot.sound"}
FORBIDDEN = re.compile(
    r"\bsorry\b|\badmit\b|^\s*axiom\s|native_decide|bv_decide|implemented_by|\bunsafe\s|maxHeartbeats\s+0\b"
)


class MachineryError(RuntimeError):
    """Internal failure of the verification machinery (exit 2, never a violation)."""


class Ctx:
    def __init__(self, prop, tier, seed, repo):
        self.prop = prop
        self.tier = tier
        self.seed = seed
        self.repo = repo
        self.rng = random.Random((seed * 1000003) ^ hash_str(prop))
        self.t0 = time.time()
        self.search = False  # proof obligation broken: spend the thorough budget searching
        self.escalated = False  # functions in this property's anchored files differ from the pinned fingerprints: larger budget
        self.changed = []
        self.budget_s = None
        self.pool = None
        self.driver = None

    @property
    def thorough(self):
        return self.tier == "thorough" or self.search or self.escalated

    def budget(self, thorough_s, quick_s, escalated_s=240):
        """time budget of the campaigns that honour `time_left()`"""
        if self.tier == "thorough" or self.search:
            return thorough_s
        return escalated_s if self.escalated else quick_s

    def time_left(self):
        if self.budget_s is None:
            return 1e9
        return self.budget_s - (time.time() - self.t0)


def hash_str(s: str) -> int:
    return int(hashlib.sha256(s.encode()).hexdigest()[:12], 16)


class Outcome:
    def __init__(self, rule=""):
        self.evaluations = 0
        self.keys = set()
        self.samples = []
        self.dist = collections.Counter()
        self.oracle_failures = []  # the implementation violates the property on this input
        self.disagreements = []  # implementation != model, property oracle still true
        self.known = []  # (finding id, text) matched known findings
        self.exhaustive = False
        self.rule = rule
        self.notes = []
        self.extra = {}

    def absorb(self, other):
        """add the figures of an earlier pass of the same check (escalation: quick pass first, then the larger one)"""
        self.evaluations += other.evaluations
        self.keys |= other.keys
        self.dist.update(other.dist)
        self.samples = (other.samples + self.samples)[:6]
        self.oracle_failures = other.oracle_failures + self.oracle_failures
        self.disagreements = other.disagreements + self.disagreements
        self.notes = other.notes + self.notes
        for k, v in other.extra.items():
            self.extra.setdefault(k, v)
        self.exhaustive = self.exhaustive or other.exhaustive

    def count(self, key=None, nontrivial=True):
        self.evaluations += 1
        if nontrivial and key is not None:
            self.keys.add(key if isinstance(key, (int, str)) else hash_str(json.dumps(key, default=str, sort_keys=True)))

    def sample(self, s, every=1):
        if len(self.samples) < 6:
            self.samples.append(s)

    def fail(self, case, what, **kw):
        fid = kw.get("finding")
        if fid:
            # known-finding candidates must not crowd out new failures: keep a few per id
            n = sum(1 for f in self.oracle_failures if f.get("finding") == fid)
            if n >= 3:
                return
            d = dict(case=case, what=what)
            d.update(kw)
            self.oracle_failures.append(d)
            return
        if sum(1 for f in self.oracle_failures if not f.get("finding")) < 50:
            d = dict(case=case, what=what)
            d.update(kw)
            self.oracle_failures.append(d)

    def disagree(self, case, what, **kw):
        if len(self.disagreements) < 50:
            d = dict(case=case, what=what)
            d.update(kw)
            self.disagreements.append(d)


# ---------------------------------------------------------------------------
# build + audit


def run(cmd, cwd=None, timeout=None, env=None):
    p = subprocess.run(cmd, cwd=cwd, stdout=subprocess.PIPE, stderr=subprocess.STDOUT, text=True, timeout=timeout, env=env)
    return p.returncode, p.stdout


class BuildLock:
    def __enter__(self):
        os.makedirs(os.path.join(LEAN, ".lake"), exist_ok=True)
        self.f = open(os.path.join(LEAN, ".lake", "verif-build.lock"), "w")
        fcntl.flock(self.f, fcntl.LOCK_EX)
        return self

    def __exit__(self, *a):
        fcntl.flock(self.f, fcntl.LOCK_UN)
        self.f.close()


def translate(repo):
    """Regenerate lean/Nutree/Generated/*.lean from the source text of `repo`."""
    sys.path.insert(0, os.path.join(VERIF, "translate"))
    import gen_tables  # noqa

    return gen_tables.generate(repo, os.path.join(LEAN, "Nutree", "Generated"))


def changed_functions(repo):
    """functions of `repo`/nutree whose fingerprint differs from translate/fingerprints.json (translate/gen_fingerprints.py)"""
    sys.path.insert(0, os.path.join(VERIF, "translate"))
    import gen_fingerprints  # noqa

    return gen_fingerprints.changed_since_pinned(repo)[1]


def anchor_files(prop):
    with open(os.path.join(VERIF, "properties.jsonl")) as f:
        for line in f:
            if line.strip():
                p = json.loads(line)
                if p["id"] == prop:
                    return list(p.get("anchors", {}).get("files", []))
    return []


def load_obligations():
    with open(os.path.join(LEAN, "obligations.json")) as f:
        return json.load(f)


def prop_modules(prop, obligations):
    mods = []
    for o in obligations.get(prop, []):
        m = o.get("module", f"Nutree.Properties.{prop}")
        if m not in mods:
            mods.append(m)
    return mods or [f"Nutree.Properties.{prop}"]


def lake_build(targets, timeout=3000):
    rc, out = run(["lake", "build"] + targets, cwd=LEAN, timeout=timeout)
    return rc, out


def grep_forbidden(files):
    hits = []
    for path in files:
        try:
            src = open(path, encoding="utf8").read()
        except FileNotFoundError:
            hits.append(f"{path}: missing")
            continue
        # strip comments
        src2 = re.sub(r"/-.*?-/", lambda m: "\n" * m.group(0).count("\n"), src, flags=re.S)
        for ln, line in enumerate(src2.split("\n"), 1):
            line = line.split("--", 1)[0]
            if FORBIDDEN.search(line):
                hits.append(f"{os.path.relpath(path, LEAN)}:{ln}: {line.strip()[:80]}")
    return hits


def module_files(mod_names):
    return [os.path.join(LEAN, *m.split(".")) + ".lean" for m in mod_names]


def transitive_local_imports(mod):
    seen = []
    todo = [mod]
    while todo:
        m = todo.pop()
        if m in seen:
            continue
        p = os.path.join(LEAN, *m.split(".")) + ".lean"
        if not os.path.exists(p):
            continue
        seen.append(m)
        for line in open(p, encoding="utf8"):
            mm = re.match(r"\s*import\s+(Nutree\.[\w.]+)", line)
            if mm:
                todo.append(mm.group(1))
    return seen


def audit(prop, obligations):
    """Check that every registered theorem of `prop` exists in the compiled environment,
    depends only on the allowed axioms, and still has its pinned statement.
    Returns (discharged names, problems)."""
    obs = obligations.get(prop, [])
    if not obs:
        return [], [f"no obligations registered for {prop}"]
    adir = os.path.join(LEAN, ".lake", "audit")
    os.makedirs(adir, exist_ok=True)
    path = os.path.join(adir, f"{prop}_{os.getpid()}.lean")
    lines = [f"import {m}" for m in prop_modules(prop, obligations)] + ["set_option pp.fullNames true", "set_option format.width 100000"]
    for o in obs:
        lines.append(f'#eval IO.println "=====AX {o["name"]}"')
        lines.append(f"#print axioms {o['name']}")
        lines.append(f'#eval IO.println "=====TY {o["name"]}"')
        lines.append(f"#check @{o['name']}")
    lines.append('#eval IO.println "=====END"')
    with open(path, "w") as f:
        f.write("\n".join(lines) + "\n")
    rc, out = run(["lake", "env", "lean", path], cwd=LEAN, timeout=1200)
    try:
        os.remove(path)
    except OSError:
        pass
    problems = []
    discharged = []
    chunks = re.split(r"=====(AX|TY|END) ?([^\n]*)\n", out)
    # chunks: [pre, kind, name, body, kind, name, body ...]
    info = {}
    for i in range(1, len(chunks) - 2, 3):
        kind, name, body = chunks[i], chunks[i + 1].strip(), chunks[i + 2]
        info.setdefault(name, {})[kind] = body.strip()
    for o in obs:
        name = o["name"]
        d = info.get(name, {})
        ax = d.get("AX", "")
        ty = d.get("TY", "")
        if "depends on axioms" in ax:
            m = re.search(r"\[(.*?)\]", ax, flags=re.S)
            axs = {a.strip() for a in m.group(1).split(",")} if m else {"?"}
            bad = axs - ALLOWED_AXIOMS
            if bad:
                problems.append(f"{name}: forbidden axioms {sorted(bad)}")
                continue
        elif "does not depend on any axioms" in ax:
            axs = set()
        else:
            problems.append(f"{name}: not found / does not check ({ax[:200]!r})")
            continue
        stmt = re.sub(r"\s+", " ", ty).strip()
        sha = hashlib.sha256(stmt.encode()).hexdigest()[:16]
        o["_sha_now"] = sha
        o["_stmt_now"] = stmt
        o["_axioms"] = sorted(axs)
        if o.get("sha") and o["sha"] != sha:
            problems.append(f"{name}: statement changed (pinned {o['sha']}, now {sha})")
            continue
        discharged.append(name)
    if rc != 0 and not problems:
        problems.append(f"audit run failed rc={rc}: {out[-400:]}")
    return discharged, problems


# ---------------------------------------------------------------------------
# evidence / verdict


def write_replay(prop, kind, payload):
    os.makedirs(REPLAYS, exist_ok=True)
    body = json.dumps(payload, indent=1, default=str, ensure_ascii=False, sort_keys=True)
    h = hashlib.sha256(body.encode()).hexdigest()[:10]
    path = os.path.join(REPLAYS, f"{prop}-{kind}-{h}.json")
    with open(path, "w", encoding="utf8") as f:
        f.write(body + "\n")
    return os.path.relpath(path, VERIF)


def load_known_findings():
    p = os.path.join(VERIF, "known_findings.json")
    if not os.path.exists(p):
        return {"open": [], "fixed": []}
    with open(p) as f:
        return json.load(f)


def write_evidence(ctx, level, coverage, assumptions, violations, wall):
    os.makedirs(EVID, exist_ok=True)
    ev = dict(
        property_id=ctx.prop,
        tier="thorough" if ctx.tier == "thorough" else "quick",
        seed=ctx.seed,
        level=level,
        coverage=coverage,
        assumptions=assumptions,
        wall_s=round(wall, 2),
        violations=violations,
    )
    path = os.path.join(EVID, f"{ctx.prop}.json")
    tmp = path + f".tmp{os.getpid()}"
    with open(tmp, "w", encoding="utf8") as f:
        json.dump(ev, f, indent=1, default=str, ensure_ascii=False)
        f.write("\n")
    os.replace(tmp, path)
    return path
