"""In-process adapter to the real nutree code (public API only)."""
from __future__ import annotations

import json

import nutree
from nutree import Tree
from nutree.common import (
    AmbiguousMatchError,
    UniqueConstraintError,
)
from nutree.typed_tree import TypedTree


class Serials:
    """Stable small numbers for implementation node objects (identity)."""

    def __init__(self):
        self.by_obj = {}
        self.keep = []
        self.next = 1

    def of(self, node) -> int:
        k = id(node)
        s = self.by_obj.get(k)
        if s is None:
            s = self.next
            self.next += 1
            self.by_obj[k] = s
            self.keep.append(node)  # keep alive: id() must stay unique
        return s

    def known(self, node) -> bool:
        return id(node) in self.by_obj


def err_class(e: BaseException) -> str:
    if isinstance(e, UniqueConstraintError):
        return "unique"
    if isinstance(e, AmbiguousMatchError):
        return "ambiguous"
    if isinstance(e, NotImplementedError):
        return "notimpl"
    if isinstance(e, AssertionError):
        return "assertion"
    if isinstance(e, KeyError):
        return "key"
    if isinstance(e, IndexError):
        return "index"
    if isinstance(e, ValueError):
        return "value"
    if isinstance(e, TypeError):
        return "type"
    if isinstance(e, AttributeError):
        return "attribute"
    if isinstance(e, RuntimeError):
        return "runtime"
    return "other"


# ---------------------------------------------------------------------------
# "lived-in" trees.  Every LIVED_IN-th tree that build() returns has the shape the spec describes, but it got there the way a
# tree in an application does: it was read with every kind of query, then changed (a temporary node added and removed, child
# lists re-ordered and ordered back, a node moved away and back, data changed and changed back) and read again in between.
# A fresh tree cannot show a result that some read operation memoised and a mutation forgot to invalidate; this one can.
LIVED_IN = 0          # 0 = never; n = every n-th build (set by harness/main.py)
_builds = 0
LIVED_STATS = {"lived_in": 0, "lived_in_gave_up": 0}
FORCE_WHICH = "rotate"      # a replay tries every single perturbation (harness/main.py)


def read_battery(tree):
    """every family of read operation once (results are thrown away; exceptions are not this function's business)"""
    from nutree.common import IterMethod

    def quiet(f):
        try:
            return f()
        except Exception:  # noqa
            return None

    typed = isinstance(tree, TypedTree)
    nodes = quiet(lambda: list(tree)) or []
    for m in IterMethod:
        quiet(lambda: list(tree.iterator(m)))
    quiet(lambda: tree.find_all(match=".*"))
    quiet(lambda: tree.find_first(match=".*"))
    quiet(lambda: tree.format())
    quiet(lambda: tree.to_dict_list())
    quiet(lambda: list(tree.to_dot()))
    quiet(lambda: tree.to_rdf_graph())
    quiet(lambda: tree.to_mermaid_flowchart(__import__("io").StringIO()))
    quiet(lambda: tree.save(__import__("io").StringIO()))
    quiet(lambda: (tree.children, tree.get_toplevel_nodes(), tree.first_child() if not typed else None))
    quiet(lambda: (tree.count, tree.count_unique, len(tree), tree.calc_height()))
    quiet(lambda: tree.copy())
    for n in nodes[:12]:
        quiet(lambda: tree[n.data])
        quiet(lambda: n.data in tree)
        quiet(lambda: tree.find_all(n.data))
        quiet(lambda: n.find_all(match=".*", add_self=True))
        quiet(lambda: (n.get_index(), n.depth(), n.is_first_sibling(), n.is_last_sibling(), n.prev_sibling(), n.next_sibling(), n.get_siblings(),
                       n.get_parent_list(), n.path, n.count_descendants(), n.calc_height(), n.get_top(), n.is_clone(), n.get_clones()))
        quiet(lambda: list(n.iterator(add_self=True)))
        quiet(lambda: n.format())
        quiet(lambda: (list(n.to_dot()), n.to_rdf_graph(), n.to_dict()))
        if typed:
            quiet(lambda: (n.get_children(n.kind), n.first_child(n.kind), n.last_child(n.kind), n.has_children(n.kind), n.get_index(any_kind=True),
                           n.get_siblings(any_kind=True), list(tree.iter_by_type(n.kind))))
        else:
            quiet(lambda: (n.first_child(), n.last_child(), n.has_children(), n.get_children()))


def live_in(tree, pool, which=None):
    """perturb-and-restore (see above); returns False if the tree could not be brought back to the shape it had.
    `which` selects the perturbations (0 temporary nodes, 1 reversed child lists, 2 a branch moved away, 3 data / id changed;
    None = all, in that order).  build() rotates through the single perturbations and "all": with a single one the first read
    of the tree's life happens in THAT perturbed state (a value computed once at the first read and never refreshed is then
    a value of the perturbed state)."""
    typed = isinstance(tree, TypedTree)

    def shape():
        return [(id(n), id(n.data), repr(n.data_id), getattr(n, "kind", None), id(n.parent), [id(c) for c in n.children]) for n in tree] + [
            [id(c) for c in tree.children]]

    def on(k):
        return which is None or which == k

    want = shape()
    try:
        # (no read in the initial state: a result memoised at the FIRST read and never refreshed would be right again once the
        # tree is back in this state — all reads happen in the perturbed states, the check is the first reader of the final one)
        nodes = list(tree)
        if on(0):
            # a temporary node, added and removed again (below a node that HAS children, and as the only child of a leaf
            # that is then removed with keep_children=True: the former leaf must be a leaf again)
            host = nodes[len(nodes) // 2] if nodes else tree
            tmp = host.add("TMP-lived-in", before=True, **({"kind": "tmp-kind"} if typed else {}))
            read_battery(tree)
            tmp.remove()
            leaf_hosts = [n for n in nodes if not n.children]
            if leaf_hosts:
                tmp = leaf_hosts[-1].add("TMP-lived-in-2", **({"kind": "tmp-kind"} if typed else {}))
                read_battery(tree)
                tmp.remove(keep_children=True)
        if on(1):
            # every child list reversed, read, and put back in order
            parents = [tree.system_root] + [n for n in nodes if n.children]
            for p in parents:
                order = {id(c): i for i, c in enumerate(p.children)}
                p.sort_children(key=lambda c, o=order: -o[id(c)])
            read_battery(tree)
            for p in parents:
                order = {id(c): i for i, c in enumerate(p.children)}
                p.sort_children(key=lambda c, o=order: -o[id(c)])
        if on(2) and not typed:      # (TypedNode.move_to is not implemented)
            # a branch (else a leaf) moved to the top level and back to its place: anything remembered per node about its
            # position must follow for the descendants too
            top_ids = {c.data_id for c in tree.children}
            cands = [n for n in nodes if n.children and n.parent is not None and n.data_id not in top_ids][:1] + \
                    [n for n in nodes if not n.children and n.parent is not None and n.data_id not in top_ids]
            if cands:
                n = cands[0]
                par, idx = n.parent, n.get_index()
                try:
                    n.move_to(tree, before=True)
                    read_battery(tree)
                finally:
                    if n.parent is not par:
                        n.move_to(par, before=idx)
        if on(3) and nodes:
            # a node's data changed and changed back (same data object, same id)
            n = nodes[-1]
            d, i = n.data, n.data_id
            try:
                n.set_data("TMP-data-lived-in", data_id="tmp-id-lived-in", with_clones=False)
                read_battery(tree)
            finally:
                if n.data is not d or n.data_id != i:
                    n.set_data(d, data_id=i, with_clones=False)
    except Exception:  # noqa
        return False
    try:
        return shape() == want
    except Exception:  # noqa
        return False      # the tree cannot even be read back (changed code): give up, the caller builds a fresh one


def fresh_kind(k):
    """the kind a built node gets: an own str object per node.  CPython shares one-character strings, so the one-letter kinds
    of the generators become two characters long ("a" -> "a_"); equal kinds are then equal but not identical objects"""
    if k is None:
        k = "child"
    if len(k) == 1:
        k = k + "_"
    return "".join(list(k))


def build(spec, pool, *, typed=False, kinds=None, tree=None):
    """Build a real tree from spec [(label, [children])].  A label is a pool index, or a
    tuple (pool index, kind) for typed trees, or a dict with keys a, k, did.  (Every LIVED_IN-th tree is a lived-in one.)"""
    global _builds
    given = tree
    t = _build(spec, pool, typed=typed, kinds=kinds, tree=tree)
    if LIVED_IN and given is None:
        _builds += 1
        if _builds % LIVED_IN == 0:
            if live_in(t, pool, which=([None, 0, 1, 2, 3][(_builds // LIVED_IN) % 5] if FORCE_WHICH == "rotate" else FORCE_WHICH)):
                LIVED_STATS["lived_in"] += 1
            else:
                LIVED_STATS["lived_in_gave_up"] += 1
                t = _build(spec, pool, typed=typed, kinds=kinds, tree=None)
    return t


def _build(spec, pool, *, typed=False, kinds=None, tree=None):
    if tree is None:
        tree = TypedTree("t") if typed else Tree("t")

    def parts(lab):
        if isinstance(lab, dict):
            return lab["a"], lab.get("k"), lab.get("did"), lab.get("nid")
        if isinstance(lab, tuple):
            return lab[0], lab[1], None, None
        return lab, None, None, None

    def add(parent, s):
        for lab, kids in s:
            a, k, did, nid = parts(lab)
            kw = {}
            if did is not None:
                kw["data_id"] = did
            if nid is not None:
                kw["node_id"] = nid
            if typed:
                # every node gets its OWN str object as kind (equal kinds are not identical objects, as after a load)
                n = parent.add(pool.objs[a], kind=fresh_kind(k), **kw)
            else:
                n = parent.add(pool.objs[a], **kw)
            add(n, kids)

    add(tree, spec)
    return tree


def build_levelorder(spec, pool, *, typed=False):
    """the same tree as build(), but created level by level and every sibling list back to front (prepending): the
    registries' insertion order then differs from the document order"""
    tree = TypedTree("t") if typed else Tree("t")
    queue = [(tree, spec)]
    while queue:
        parent, s = queue.pop(0)
        made = []
        for lab, kids in reversed(s):
            nid = None
            if isinstance(lab, dict):
                a, k, did, nid = lab["a"], lab.get("k"), lab.get("did"), lab.get("nid")
            elif isinstance(lab, tuple):
                a, k, did = lab[0], lab[1], None
            else:
                a, k, did = lab, None, None
            kw = {"before": True}
            if did is not None:
                kw["data_id"] = did
            if nid is not None:
                kw["node_id"] = nid
            if typed:
                kw["kind"] = fresh_kind(k)
            n = parent.add(pool.objs[a], **kw)
            made.append((n, kids))
        queue.extend(reversed(made))
    return tree


def meta_wire(m):
    if m is None:
        return None
    return [[str(k), json.dumps(v, sort_keys=True, default=str)] for k, v in m.items()]


def node_json(node, ser, pool):
    return [
        ser.of(node),
        pool.index_of(node.data),
        pool.canon_did(node.data_id),
        getattr(node, "kind", None),
        meta_wire(node.meta),
        [node_json(c, ser, pool) for c in node.children],
    ]


def tree_json(tree, ser, pool):
    """The forest of a tree as the model's wire format (observed through `children`)."""
    return [node_json(c, ser, pool) for c in tree.children]


def node_at(tree, path):
    n = tree.system_root
    for i in path:
        n = n.children[i]
    return n


def ids(nodes, ser):
    return [ser.of(n) if n is not None else None for n in nodes]


def repo_file():
    return nutree.__file__
