"""In-process adapter to the real nutree code (public API only)."""
from __future__ import annotations

import json

import nutree
from nutree import Tree
from nutree.common import (
    AmbiguousMatchError,
    UniqueConstraintError,
)
from nutree.typed_tree import TypedTree


class Serials:
    """Stable small numbers for implementation node objects (identity)."""

    def __init__(self):
        self.by_obj = {}
        self.keep = []
        self.next = 1

    def of(self, node) -> int:
        k = id(node)
        s = self.by_obj.get(k)
        if s is None:
            s = self.next
            self.next += 1
            self.by_obj[k] = s
            self.keep.append(node)  # keep alive: id() must stay unique
        return s

    def known(self, node) -> bool:
        return id(node) in self.by_obj


def err_class(e: BaseException) -> str:
    if isinstance(e, UniqueConstraintError):
        return "unique"
    if isinstance(e, AmbiguousMatchError):
        return "ambiguous"
    if isinstance(e, NotImplementedError):
        return "notimpl"
    if isinstance(e, AssertionError):
        return "assertion"
    if isinstance(e, KeyError):
        return "key"
    if isinstance(e, IndexError):
        return "index"
    if isinstance(e, ValueError):
        return "value"
    if isinstance(e, TypeError):
        return "type"
    if isinstance(e, AttributeError):
        return "attribute"
    if isinstance(e, RuntimeError):
        return "runtime"
    return "other"


def build(spec, pool, *, typed=False, kinds=None, tree=None):
    """Build a real tree from spec [(label, [children])].  A label is a pool index, or a
    tuple (pool index, kind) for typed trees, or a dict with keys a, k, did."""
    if tree is None:
        tree = TypedTree("t") if typed else Tree("t")

    def parts(lab):
        if isinstance(lab, dict):
            return lab["a"], lab.get("k"), lab.get("did"), lab.get("nid")
        if isinstance(lab, tuple):
            return lab[0], lab[1], None, None
        return lab, None, None, None

    def add(parent, s):
        for lab, kids in s:
            a, k, did, nid = parts(lab)
            kw = {}
            if did is not None:
                kw["data_id"] = did
            if nid is not None:
                kw["node_id"] = nid
            if typed:
                n = parent.add(pool.objs[a], kind=k or "child", **kw)
            else:
                n = parent.add(pool.objs[a], **kw)
            add(n, kids)

    add(tree, spec)
    return tree


def build_levelorder(spec, pool, *, typed=False):
    """the same tree as build(), but created level by level and every sibling list back to front (prepending): the
    registries' insertion order then differs from the document order"""
    tree = TypedTree("t") if typed else Tree("t")
    queue = [(tree, spec)]
    while queue:
        parent, s = queue.pop(0)
        made = []
        for lab, kids in reversed(s):
            nid = None
            if isinstance(lab, dict):
                a, k, did, nid = lab["a"], lab.get("k"), lab.get("did"), lab.get("nid")
            elif isinstance(lab, tuple):
                a, k, did = lab[0], lab[1], None
            else:
                a, k, did = lab, None, None
            kw = {"before": True}
            if did is not None:
                kw["data_id"] = did
            if nid is not None:
                kw["node_id"] = nid
            if typed:
                kw["kind"] = k or "child"
            n = parent.add(pool.objs[a], **kw)
            made.append((n, kids))
        queue.extend(reversed(made))
    return tree


def meta_wire(m):
    if m is None:
        return None
    return [[str(k), json.dumps(v, sort_keys=True, default=str)] for k, v in m.items()]


def node_json(node, ser, pool):
    return [
        ser.of(node),
        pool.index_of(node.data),
        pool.canon_did(node.data_id),
        getattr(node, "kind", None),
        meta_wire(node.meta),
        [node_json(c, ser, pool) for c in node.children],
    ]


def tree_json(tree, ser, pool):
    """The forest of a tree as the model's wire format (observed through `children`)."""
    return [node_json(c, ser, pool) for c in tree.children]


def node_at(tree, path):
    n = tree.system_root
    for i in path:
        n = n.children[i]
    return n


def ids(nodes, ser):
    return [ser.of(n) if n is not None else None for n in nodes]


def repo_file():
    return nutree.__file__
