"""Shared helpers for the serialization checks (C05, C12, C14, C19)."""
from __future__ import annotations

import dataclasses
import io
import itertools
import json
import os
import zipfile

import adapter
import gen
from nutree import Tree
from nutree.typed_tree import TypedTree

OBJ = [12, 13, 14, 15, 17, 18, 20, 24, 26]   # value-equality objects: ints, tuples, frozen dataclass, EqObj
STRS = [0, 30, 1, 2, 6, 7, 11]                 # strings incl. unicode


def flavour(o):
    return type(o).__name__


class Mappers:
    """a pair of inverse mappers over the pool (callback style)"""

    def __init__(self, pool, strict_plain=False):
        self.pool = pool
        # strict_plain: for documents written by save() - there a string node reaches the mapper only in its dict form together
        # with a custom data_id and / or a kind.  (A document of the layout written by other means MAY hold {"str": ...} alone.)
        self.strict_plain = strict_plain

    def ser(self, node, data):
        # a user mapper is defined on the nodes of the tree; the invisible system root (its data is the tree's name)
        # is not one of them: a mapper written for the tree's data flavour would fail on it
        if node.is_system_root():
            raise AssertionError("the serialization mapper was called for the invisible system root")
        o = node.data
        if isinstance(o, str):
            return None
        i = self.pool.index_of(o)
        data["o"] = self.pool.attrs[i]["obj"]
        data["type"] = flavour(o)
        data["name"] = str(o)
        return data

    def deser(self, parent, data):
        if "o" in data:
            o = self.pool.objs[data["o"]]
            if "type" in data and data["type"] != flavour(o):
                raise ValueError(f"the entry handed to the deserialization mapper carries type={data['type']!r} for an object of type {flavour(o)!r}")
            if dataclasses.is_dataclass(o):
                return dataclasses.replace(o)   # a new, equal object
            return o
        if "str" in data:
            # a string node reaches the mapper only in its dict form, i.e. together with a custom data_id and / or a kind; a
            # plain string entry is the loader's business (a mapper written for the application's objects need not know it)
            if len(data) == 1 and self.strict_plain:
                raise ValueError(f"the deserialization mapper was called for a plain string entry: {data}")
            return data["str"]
        if "data" in data:      # to_dict() form of a plain string node
            return data["data"]
        raise ValueError(f"cannot deserialize {data}")

    def ser_table(self, tree, ser):
        """what the mapper adds, per node (for the model)"""
        tbl = {}
        for n in tree:
            if not isinstance(n.data, str):
                i = self.pool.index_of(n.data)
                tbl[str(ser.of(n))] = {"o": self.pool.attrs[i]["obj"], "type": flavour(n.data), "name": str(n.data)}
        return tbl


def make_derived(pool, typed):
    """derived-class mapper style (ug_serialize.rst 'Using Derived Classes')"""
    m = Mappers(pool)
    base = TypedTree if typed else Tree

    class MyTree(base):
        DEFAULT_KEY_MAP = dict(base.DEFAULT_KEY_MAP, type="t", name="n")
        DEFAULT_VALUE_MAP = {"type": ["int", "tuple", "Item", "EqObj", "str"]}

        def serialize_mapper(self, node, data):
            return m.ser(node, data)

        @staticmethod
        def deserialize_mapper(parent, data):
            return m.deser(parent, data)

    return MyTree


KEY_MAPS = {"default": True, "off": False, "custom": {"data_id": "i", "str": "s", "type": "t", "name": "n", "o": "x", "kind": "k"}}
VALUE_MAPS = {"default": True, "off": False, "custom": {"type": ["int", "tuple", "Item", "EqObj", "str", "Plain"]}}
_CUSTOM_MAPS = (json.dumps(KEY_MAPS["custom"]), json.dumps(VALUE_MAPS["custom"]))


def custom_maps_dirty():
    """what an earlier save() left in the application-owned custom maps (None if they are as the application made them)"""
    if (json.dumps(KEY_MAPS["custom"]), json.dumps(VALUE_MAPS["custom"])) == _CUSTOM_MAPS:
        return None
    return dict(key_map=dict(KEY_MAPS["custom"]), value_map=dict(VALUE_MAPS["custom"]))


def reset_custom_maps():
    """restore the application-owned custom maps after a save() has written into them"""
    KEY_MAPS["custom"].clear()
    KEY_MAPS["custom"].update(json.loads(_CUSTOM_MAPS[0]))
    VALUE_MAPS["custom"].clear()
    VALUE_MAPS["custom"].update(json.loads(_CUSTOM_MAPS[1]))


COMPRESSIONS = [False, True, zipfile.ZIP_STORED, zipfile.ZIP_DEFLATED, zipfile.ZIP_BZIP2, zipfile.ZIP_LZMA]


def effective_maps(tree, key_map, value_map):
    """what save() uses (for the model): resolve True/False"""
    cls = type(tree)
    km = cls.DEFAULT_KEY_MAP if key_map is True else ({} if key_map is False else key_map)
    if value_map is True:
        vm = dict(cls.DEFAULT_VALUE_MAP)
    elif value_map is False:
        vm = {}
    else:
        vm = dict(value_map)
    if isinstance(tree, TypedTree) and value_map is not False and "kind" not in vm:
        kinds = []
        for n in tree:
            if n.kind not in kinds:
                kinds.append(n.kind)
        vm["kind"] = kinds
    return dict(km), vm


def tree_shape(tree, pool):
    """identity-free description: (data pool obj, canonical data_id, kind, children)"""
    def w(n):
        try:
            a = pool.attrs[pool.index_of(n.data)]["obj"]
        except KeyError:
            a = repr(n.data)
        return [a, pool.canon_did(n.data_id), getattr(n, "kind", None), [w(c) for c in n.children]]

    return [w(c) for c in tree.children]


def model_shape(forest):
    return [[n[1], n[2], n[3], model_shape(n[5])] for n in forest]


def clone_groups(tree):
    """partition of pre-order positions by data_id, as the tree's own queries report it"""
    pos = {id(n): i for i, n in enumerate(tree)}
    groups = set()
    for n in tree:
        groups.add(tuple(sorted(pos[id(c)] for c in n.get_clones(add_self=True))))
    return sorted(groups)


def build_obj_tree(pool, spec, typed=False, cls=None, kinds=None):
    return adapter.build(spec, pool, typed=typed, tree=(cls("t") if cls else None))


def random_label_spec(rng, n, labels, typed, explicit=0.2, clone_rate=0.4):
    """random forest with clones at arbitrary relative positions, explicit ids, kinds"""
    base = gen.random_spec(rng, n, labels, clone_rate=clone_rate, key=lambda l: l)
    cnt = itertools.count(1)
    seen = {}

    ids = {}
    for lab in labels:
        if rng.random() < explicit:
            # one explicit id per data object (the same id for different data objects is a user error)
            # 0 is also hash(0) == hash(""): never give it to another data object than those
            zero_ok = 0 not in ids.values() and not any(l in (29, 30) and l != lab for l in labels)
            ids[lab] = rng.choice([2000 + len(ids), "id-%s" % lab, "ü-%s" % lab] + ([0] if zero_ok else []) + ([""] if "" not in ids.values() else []))

    def deco(s):
        out = []
        used = set()
        for lab, kids in s:
            d = {"a": lab}
            did = ids.get(lab)
            if did is not None and rng.random() < 0.15:
                did = "other-%d" % next(cnt)     # same data under another explicit id
            if did is not None:
                d["did"] = did
            if typed:
                d["k"] = rng.choice(["a", "b", "a", "b", "c", "d"])    # one data object under three or more kinds occurs
            key = did if did is not None else ("h", lab)
            if key in used:
                continue
            used.add(key)
            out.append((d, deco(kids)))
        return out

    return deco(base)
