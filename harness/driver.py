"""Pipe to the compiled Lean model driver (line protocol, one JSON per line)."""
from __future__ import annotations

import json
import os
import subprocess

HERE = os.path.dirname(os.path.abspath(__file__))
VERIF = os.path.dirname(HERE)
DRIVER_BIN = os.path.join(VERIF, "lean", ".lake", "build", "bin", "nutree_driver")


class DriverError(RuntimeError):
    pass


class Driver:
    def __init__(self, pool=None):
        if not os.path.exists(DRIVER_BIN):
            raise DriverError(f"driver not built: {DRIVER_BIN}")
        self.p = subprocess.Popen(
            [DRIVER_BIN], stdin=subprocess.PIPE, stdout=subprocess.PIPE, text=True, bufsize=1 << 16
        )
        self.n = 0
        if pool is not None:
            r = self.ask({"op": "pool", "atoms": pool.wire()})
            if r.get("ok") is None:
                raise DriverError(f"pool rejected: {r}")

    def ask(self, req: dict) -> dict:
        self.p.stdin.write(json.dumps(req, ensure_ascii=False, separators=(",", ":")) + "\n")
        self.p.stdin.flush()
        line = self.p.stdout.readline()
        if not line:
            raise DriverError(f"driver died on {req!r}")
        self.n += 1
        return json.loads(line)

    def ask_many(self, reqs: list[dict]) -> list[dict]:
        """Batch: write a chunk, then read its replies.  A chunk holds at most 32 KB of request
        text (below the pipe buffer size), so writing never blocks while the driver is blocked on
        a full reply pipe, whatever the size of the replies."""
        out = []
        lines = [json.dumps(r, ensure_ascii=False, separators=(",", ":")) + "\n" for r in reqs]
        i = 0
        while i < len(lines):
            size = 0
            j = i
            while j < len(lines) and (j == i or size + len(lines[j].encode()) <= 32000) and j - i < 200:
                size += len(lines[j].encode())
                j += 1
            if j == i + 1 and size > 32000:
                # a single large request: the driver reads it completely before it replies
                pass
            self.p.stdin.write("".join(lines[i:j]))
            self.p.stdin.flush()
            for k in range(i, j):
                line = self.p.stdout.readline()
                if not line:
                    raise DriverError(f"driver died on {reqs[k]!r}")
                out.append(json.loads(line))
            self.n += j - i
            i = j
        return out

    def close(self):
        try:
            self.p.stdin.close()
            self.p.wait(timeout=10)
        except Exception:
            self.p.kill()
