"""C09 — searches return exactly the matching nodes, in order, within the limit; index access."""
from __future__ import annotations

import itertools
import re

import adapter
import core
import gen

LEVEL = "proof"
TRUSTED = [
    "the `re` module: `fullmatch` on node names is an abstract predicate, tabulated per node by the harness with the real `re`",
    "the data_id index order (registration order) is taken from an unlimited find_all(data_id=) and only its prefix property is checked here (exactness is C02)",
]
ASSUMPTIONS = ["max_results >= 1 (0/None = unlimited)"]

NAMES = [0, 1, 6, 7, 8, 10]  # "A","B","a1","a2","b1","ab"
PATTERNS = [
    ("re", "a.*"), ("re", ".*1"), ("re", "[ab]1?"), ("re", "a1"), ("reflags", ("a.*", re.IGNORECASE)), ("re", "a"),
    ("fn", "startswith_a"), ("fn", "has_children"), ("fn", "never"), ("data", 6),
    ("data", 12),    # a data object that is neither str nor callable: matched by identity (`node.data is match`)
    ("reflags", ("a", re.IGNORECASE)), ("reflags", ("b1", re.IGNORECASE)),     # flags on a pattern without any special character
    ("fn", "n_children"), ("fn", "name_if_a"),     # predicates that answer with truthy / falsy values other than True / False
]
KS = [None, 1, 2, 3, 5]



def ids_owned(thunk, ser):
    """like adapter.ids(thunk(), ser); the result list is the CALLER's: an empty one is extended in place (an application that
    accumulates results, `found = a.find_all(x); found += b.find_all(y)`) and the query is asked again - it must not show what the
    caller added (a shared empty list handed out to everybody, or the library's own list).  The addition is taken back."""
    lst = thunk()
    r = adapter.ids(lst, ser)
    if isinstance(lst, list) and not lst:
        lst.append("added by the caller")
        try:
            again = thunk()
            bad = isinstance(again, list) and "added by the caller" in again
        finally:
            lst.clear()
        if bad:
            raise ValueError("an empty result is not the caller's own list: what the caller appended to it shows up in the next result")
    return r


def matcher(kind, arg, pool):
    if kind == "re":
        return arg, (lambda n: re.fullmatch(arg, n.name) is not None)
    if kind == "reflags":
        return arg, (lambda n: re.fullmatch(arg[0], n.name, arg[1]) is not None)
    if kind == "fn":
        f = {"startswith_a": lambda n: n.name.startswith("a"), "has_children": lambda n: bool(n.children), "never": lambda n: False,
             "n_children": lambda n: len(n.children),                              # 0 / 1 / 2 ...
             "name_if_a": lambda n: n.name if n.name.lower().startswith("a") else ""}[arg]      # a str or ''
        return f, (lambda n, _f=f: bool(_f(n)))
    if kind == "data":
        o = pool.objs[arg]
        return o, (lambda n: n.data is o)
    raise AssertionError(kind)


def g(f):
    try:
        return f()
    except Exception as e:  # noqa
        return {"err": adapter.err_class(e)}


def check_tree(ctx, out, spec, tag, rot, levelorder=False, tree=None):
    # levelorder: the same tree created level by level, siblings back to front: the registration order of the
    # indexes then differs from the document order (searches must not depend on it)
    given = tree is not None
    if tree is None:
        tree = (adapter.build_levelorder if levelorder else adapter.build)(spec, ctx.pool)
    ser = adapter.Serials()
    ser.by_obj[id(tree.system_root)] = 0
    ser.keep.append(tree.system_root)
    tj = adapter.tree_json(tree, ser, ctx.pool)
    pool = ctx.pool
    nodes = list(tree)
    nontriv = len(nodes) >= 3
    reqs, pend = [], []

    def i(n):
        return None if n is None else ser.of(n)

    if given:
        import histories as H

        paths = [()] + [tuple(p) for p in H.paths_of(tree)]
    else:
        paths = [()] + list(gen.all_paths(spec))
    for path in paths:
        start = adapter.node_at(tree, path)
        for kind, arg in PATTERNS:
            marg, pred = matcher(kind, arg, pool)
            tbl = {str(ser.of(n)): bool(pred(n)) for n in [start] + list(start.iterator())}
            ks = KS if (next(rot) % 3 == 0 or len(nodes) <= 3) else [KS[next(rot) % len(KS)]]
            for k in ks:
                for add_self in ((False, True) if path else (False,)):
                    if path:
                        impl = g(lambda: ids_owned(lambda: start.find_all(match=marg, add_self=add_self, max_results=k), ser))
                    else:
                        impl = g(lambda: ids_owned(lambda: tree.find_all(match=marg, max_results=k), ser))
                    case = dict(q="nodeMatch", spec=spec, path=list(path), pat=[kind, repr(arg)], k=k, self=add_self, levelorder=levelorder)
                    reqs.append({"op": "search", "q": "nodeMatch", "t": tj, "path": list(path), "m": tbl, "k": k, "self": add_self})
                    pend.append((case, impl, f"find_all(match={arg!r}, max_results={k}, add_self={add_self}) at {list(path)}"))
                    out.count((tag, repr(spec), path, kind, repr(arg), k, add_self), nontriv)
                    out.dist[f"k={k}"] += 1
            impl = g(lambda: i(start.find_first(match=marg) if path else tree.find_first(match=marg)))
            case = dict(q="nodeFirst", spec=spec, path=list(path), pat=[kind, repr(arg)], levelorder=levelorder)
            reqs.append({"op": "search", "q": "nodeFirst", "t": tj, "path": list(path), "m": tbl})
            pend.append((case, impl, f"find_first(match={arg!r}) at {list(path)}"))
            out.dist["pat:" + kind] += 1
        # branch-restricted data / data_id search
        if path:
            for did_real in sorted({n.data_id for n in nodes}, key=repr)[:4]:
                d = pool.canon_did(did_real)
                for add_self in (False, True):
                    impl = g(lambda: [ids_owned(lambda: start.find_all(data_id=did_real, add_self=add_self), ser), i(start.find_first(data_id=did_real))])
                    case = dict(q="nodeId", spec=spec, path=list(path), did=d, self=add_self, levelorder=levelorder)
                    reqs.append({"op": "search", "q": "nodeId", "t": tj, "path": list(path), "did": d, "self": add_self})
                    pend.append((case, impl, f"node.find_all(data_id={d!r}, add_self={add_self}) at {list(path)}"))
                    out.count((tag, repr(spec), path, "id", d, add_self), nontriv)

            # ... and by data object (positional `data` argument: the id is calculated by the tree)
            objs = []
            for n in nodes:
                if not any(n.data is o for o in objs):
                    objs.append(n.data)
            for o in objs[:3]:
                d = pool.canon_did(tree.calc_data_id(o))
                for add_self in (False, True):
                    impl = g(lambda: [ids_owned(lambda: start.find_all(o, add_self=add_self), ser), i(start.find_first(o))])
                    case = dict(q="nodeId", spec=spec, path=list(path), did=d, self=add_self, by="data", levelorder=levelorder)
                    reqs.append({"op": "search", "q": "nodeId", "t": tj, "path": list(path), "did": d, "self": add_self})
                    pend.append((case, impl, f"node.find_all({o!r}, add_self={add_self}) at {list(path)}"))
                    out.count((tag, repr(spec), path, "data", d, add_self), nontriv)

    # index: observed order of the clone lists
    dids = []
    for n in nodes:
        if n.data_id not in dids:
            dids.append(n.data_id)
    try:
        by_data = [[pool.canon_did(d), ids_owned(lambda: tree.find_all(data_id=d), ser)] for d in dids]
    except ValueError as e:
        out.fail(dict(q="treeId", spec=spec, did=None, k=None, levelorder=levelorder), f"tree.find_all(data_id=...): {e}")
        return
    known = {ser.of(n) for n in nodes}
    ghosts = [(d, [x for x in l if x not in known]) for d, l in by_data if any(x not in known for x in l)]
    if ghosts:
        # the search returns a node object that is not in the tree (the model has no name for it: nothing to ask the driver)
        out.fail(dict(q="treeId", spec=spec, did=ghosts[0][0], k=None, levelorder=levelorder),
                 f"tree.find_all(data_id={ghosts[0][0]!r}) returns {len(ghosts[0][1])} node(s) that are not in the tree")
        return
    by_id = [[n.node_id, ser.of(n)] for n in nodes]
    # absent ids (also strings that ARE the data of a node, or its name: looking an id up must leave nothing behind that a
    # later `tree[<the same string>]` by data would stumble over)
    absent = [pool.hash_canon[hash("F")], 424242, "nope"] + [n.data for n in nodes[:3] if isinstance(n.data, str) and n.data_id != n.data
                                                              and not any(m.data_id == n.data for m in nodes)]
    for d_real, dc in [(d, pool.canon_did(d)) for d in dids] + [(None, a) for a in absent]:
        for k in KS:
            if d_real is None:
                real = {v: k_ for k_, v in pool.hash_canon.items()}.get(dc, dc)
            else:
                real = d_real
            impl = g(lambda: [ids_owned(lambda: tree.find_all(data_id=real, max_results=k), ser), i(tree.find_first(data_id=real)), None])
            if isinstance(impl, list):
                impl[2] = g(lambda: bool(ids_owned(lambda: tree.find_all(data_id=real), ser)))
            case = dict(q="treeId", spec=spec, did=dc, k=k, levelorder=levelorder)
            reqs.append({"op": "search", "q": "treeId", "t": tj, "byData": by_data, "did": dc, "k": k})
            pend.append((case, impl, f"tree.find_all(data_id={dc!r}, max_results={k})"))
            out.count((tag, repr(spec), "treeId", dc, k), nontriv)
    # tree.find_all(data, max_results) through the data object
    for a in sorted({pool.index_of(n.data) for n in nodes})[:4] + [5]:
        o = pool.objs[a]
        dc = pool.canon_did(tree.calc_data_id(o))
        for k in (None, 1, 2):
            impl = g(lambda: [ids_owned(lambda: tree.find_all(o, max_results=k), ser), i(tree.find_first(o)), o in tree])
            case = dict(q="treeId", spec=spec, data=a, did=dc, k=k, levelorder=levelorder)
            reqs.append({"op": "search", "q": "treeId", "t": tj, "byData": by_data, "did": dc, "k": k})
            pend.append((case, impl, f"tree.find_all({o!r}, max_results={k}) / find_first / in"))
            out.count((tag, repr(spec), "treeData", a, k), nontriv)
    # index access
    keys = []
    for a in sorted({pool.index_of(n.data) for n in nodes}) + [5, 12]:
        keys.append(("data", pool.objs[a]))
    for d in dids:
        if not isinstance(d, int) or abs(d) < 10**6:
            keys.append(("did", d))
    for n in nodes[:3]:
        keys.append(("nid", n.node_id))
    keys += [("did", 424242), ("did", "nope"), ("node", nodes[0] if nodes else tree.system_root)]
    for kk, key in keys:
        if kk == "node":
            wire = {"k": "node"}
        else:
            is_int = isinstance(key, int) and not isinstance(key, bool)
            as_id = pool.canon_did(key) if isinstance(key, (int, str)) else None
            wire = {"k": "obj", "isInt": is_int, "asId": as_id, "calc": pool.canon_did(tree.calc_data_id(key))}
        r = g(lambda: tree[key])
        impl = r if isinstance(r, dict) else {"ok": ser.of(r)}
        case = dict(q="getitem", spec=spec, key=[kk, repr(key) if kk != "nid" else "node_id"], wire=wire, levelorder=levelorder)
        reqs.append({"op": "search", "q": "getitem", "t": tj, "byData": by_data, "byId": by_id, "key": wire})
        pend.append((case, impl, f"tree[{kk}:{key!r}]"))
        out.count((tag, repr(spec), "getitem", kk, repr(key) if kk != "nid" else nodes.index(tree[key]) if False else repr(wire)), nontriv)
        out.dist["key:" + kk] += 1

    resps = ctx.driver.ask_many(reqs)
    for (case, impl, what), resp in zip(pend, resps):
        if "fail" in resp:
            raise core.MachineryError(f"driver: {resp} for {case}")
        if impl != resp["spec"]:
            out.fail(case, f"{what} = {impl}, specified: {resp['spec']}", impl=impl, spec=resp["spec"], model=resp["model"])
        elif impl != resp["model"]:
            out.disagree(case, f"{what} = {impl}, model {resp['model']}")
    if len(nodes) >= 4:
        out.sample(dict(tree=spec, example=pend[len(pend) // 3][0] if pend else None))


def run(ctx):
    out = core.Outcome(
        rule="every ordered forest with <= N nodes (N=4 quick / 5 thorough) x labelings over 6 names with clones (sampled for N>=4) x every start node x "
        "10 patterns (regex, regex+flags, callables, data identity) x max_results in {None,1,2,3,5} x add_self; tree-level index lookups by data/data_id "
        "for present/absent ids with limits; tree[key] for data, data_id, node_id (explicit and default), absent, ambiguous, Node keys. "
        "non-trivial = tree has >= 3 nodes; distinct = distinct (tree, start, query)"
    )
    rot = itertools.count()
    n_max = 5 if ctx.thorough else 4
    for spec in CORPUS:
        check_tree(ctx, out, spec, "corpus", rot)
        check_tree(ctx, out, spec, "corpus-lo", rot, levelorder=True)
    for n in range(0, n_max + 1):
        for shape in gen.forests(n):
            lim = None if n <= 2 else (40 if ctx.thorough else 6)
            for spec in gen.labelings(shape, NAMES, limit=lim, rng=ctx.rng):
                lo = n >= 2 and next(rot) % 2 == 0
                check_tree(ctx, out, spec, "ex-lo" if lo else "ex", rot, levelorder=lo)
    out.extra["exhaustive_scope"] = f"all shapes <= {n_max} nodes; labelings exhaustive for <= 2 nodes, sampled above"
    for _ in range(120 if ctx.thorough else 20):
        n = ctx.rng.randrange(5, 14)
        spec = gen.random_spec(ctx.rng, n, NAMES + [12, 13], clone_rate=0.5)
        # sprinkle explicit ids / node ids
        cnt = itertools.count(1)

        def deco(s):
            o = []
            for lab, k in s:
                r = ctx.rng.random()
                c = next(cnt)
                if r < 0.15:
                    lab2 = {"a": lab, "nid": 500 + c}
                elif r < 0.25:
                    lab2 = {"a": lab, "did": "id-%d" % (c % 3)} if False else lab
                else:
                    lab2 = lab
                o.append((lab2, deco(k)))
            return o

        spec = deco(spec)
        check_tree(ctx, out, spec, "rnd", rot)
        check_tree(ctx, out, spec, "rnd-lo", rot, levelorder=True)
        out.dist["random_tree"] += 1
    # search - reorder - search on one tree object: sorting registers / unregisters nothing, so anything a search remembered about
    # the order of the nodes is stale afterwards (the history below is an operation list the replay understands)
    for k, spec in enumerate(CORPUS + [gen.random_spec(ctx.rng, ctx.rng.randrange(4, 10), NAMES, clone_rate=0.4) for _ in range(24 if ctx.thorough else 8)]):
        import histories as H
        import world

        impl = world.ImplWorld(ctx.pool)
        impl.new(False)
        impl.new(False)
        impl._bij = world.Bij()
        log = []
        try:
            for op in H.build_ops(spec, 0, False):
                impl.apply(dict(op))
                log.append(H.clean(op))
        except Exception:  # noqa
            continue
        sorts = [{"op": "w.sort", "t": 0, "n": [], "tree_api": True, "reverse": True},
                 {"op": "w.sort", "t": 0, "n": [], "tree_api": False, "reverse": False, "deep": False},
                 {"op": "w.sort", "t": 0, "n": [0], "tree_api": False, "reverse": True, "deep": True}]
        check_tree(ctx, out, {"history": list(log), "tree": 0, "checked_every": 1, "from": len(log)}, "sort", rot, tree=impl.trees[0])
        for op in sorts:
            impl.apply(dict(op))
            log.append(op)
            check_tree(ctx, out, {"history": list(log), "tree": 0, "checked_every": 1, "from": len(log) - 1}, "sort", rot, tree=impl.trees[0])
        # ... and index access - re-key ONE node of a clone group (or a single node) - index access: what `tree[key]` found before
        # says nothing about what it must find now
        for _ in range(3):
            ps = H.paths_of(impl.trees[0])
            if not ps:
                break
            op = {"op": "w.setdata", "t": 0, "n": ctx.rng.choice(ps), "a": ctx.rng.choice(NAMES), "clones": ctx.rng.choice([False, False, True])}
            if ctx.rng.random() < 0.4:
                op["did"] = ctx.rng.choice(["A", "a1", 7, ""])
            impl.apply(dict(op))
            log.append(op)
            check_tree(ctx, out, {"history": list(log), "tree": 0, "checked_every": 1, "from": len(log) - 1}, "rekey", rot, tree=impl.trees[0])
        out.dist["search_sort_search"] += 1
    # trees REACHED through mutation histories (re-keyed nodes, removed clones, explicit ids that are also the data of other
    # nodes): searches and index access must follow from the tree as it is now, not from what an index once held
    import histories as H
    import world

    for h in range(100 if ctx.thorough else 20):
        impl = world.ImplWorld(ctx.pool)
        typed_h = h % 3 == 2               # every third history on typed trees (the overrides of the typed classes)
        mal_h = 0.3 if (h % 4 == 1 or (typed_h and h % 2 == 0)) else 0.03    # every fourth with many refused calls (what a refusal leaves behind is searched)
        impl.new(typed_h)
        impl.new(typed_h)
        impl._bij = world.Bij()
        log = []
        every = 1 if h % 2 else 6      # every second history is searched after EVERY operation (short histories)
        for i in range(ctx.rng.randrange(5, 30 if ctx.thorough else 18) if every > 1 else ctx.rng.randrange(4, 11)):
            ti = 0 if ctx.rng.random() < 0.85 else 1
            op = H.random_op(ctx.rng, impl, ti, labels=[0, 1, 6, 7, 12], malformed=mal_h, did_rate=0.35, dids=("A", "B", "a1", 7, 0, ""),
                             ops=["add", "add", "add", "addnode", "addtree", "move", "move", "remove", "remove", "removechildren", "setdata", "setdata", "setdata",
                                  "sort", "sort", "del", "shortcut"])
            impl.apply(op)
            log.append(H.clean(op))
            if i % every == every - 1:
                # query - mutate - query: the same tree object is searched at several points of its history (an answer
                # memoised by an earlier search must not survive a mutation)
                try:
                    check_tree(ctx, out, {"history": list(log), "tree": 0, "checked_every": every, "typed": typed_h}, "hist", rot, tree=impl.trees[0])
                except core.MachineryError:
                    raise
                except Exception as e:  # noqa
                    out.fail(dict(q="history", spec={"history": list(log), "tree": 0, "typed": typed_h}), f"searches raised {type(e).__name__}: {e} on a tree reached by {len(log)} operations")
        try:
            check_tree(ctx, out, {"history": log, "tree": 0, "checked_every": every, "typed": typed_h}, "hist", rot, tree=impl.trees[0])
        except core.MachineryError:
            raise
        except Exception as e:  # noqa
            out.fail(dict(q="history", spec={"history": log, "tree": 0, "typed": typed_h}), f"searches raised {type(e).__name__}: {e} on a tree reached by {len(log)} operations")
        out.dist["history_tree"] += 1
    return out


CORPUS = [
    # an explicit data_id that equals the DATA of another node: index access resolves data_id before data
    [({"a": 0, "did": "B"}, []), (1, [])],
    [({"a": 0, "did": "B"}, [({"a": 2, "did": "B"}, [])]), (1, [])],
    [({"a": 0, "did": 7}, [(12, [])]), (1, [])],
    # falsy explicit ids
    [({"a": 0, "did": 0}, [({"a": 1, "did": ""}, [])]), (6, [({"a": 2, "did": 0}, [])])],
    # 4 clones of "a1" (the res[k:] defect D3 needs >= 2 clones and k >= 1)
    [(0, [(6, [])]), (1, [(6, [])]), (7, [(6, [])]), (6, [])],
    # a node named "a1"/"a" under an explicit data_id (name searches must not go through the data_id index), clones of
    # "a1" whose creation order differs from the document order in the level-order build
    [(0, [({"a": 6, "did": 4711}, []), (7, [(6, [])])]), (1, [(6, [])]), ({"a": 6, "did": "x"}, [])],
    # int data objects 7 (twice) and 8 for the identity match
    [(0, [(12, []), (13, [])]), (12, [(6, [])])],
    # node_id 7 vs int data 7 (data_id 7): node_id lookup wins
    [({"a": 0, "nid": 7}, []), (12, []), ({"a": 1, "did": 1001}, []), ({"a": 8, "did": "sid"}, [])],
]


def replay(ctx, rp):
    from props.c10 import tuplify_d

    out = core.Outcome()
    sp = rp["case"]["spec"]
    if isinstance(sp, dict) and "history" in sp:
        import world

        impl = world.ImplWorld(ctx.pool)
        impl.new(bool(sp.get("typed")))
        impl.new(bool(sp.get("typed")))
        impl._bij = world.Bij()
        for i, op in enumerate(sp["history"]):
            impl.apply(dict(op))
            if sp.get("checked_every") and i % sp["checked_every"] == sp["checked_every"] - 1 and i + 1 < len(sp["history"]) and i + 1 >= sp.get("from", 0):
                check_tree(ctx, core.Outcome(), sp, "replay-warm", itertools.count(), tree=impl.trees[sp["tree"]])
        check_tree(ctx, out, sp, "replay", itertools.count(), tree=impl.trees[sp["tree"]])
    else:
        check_tree(ctx, out, tuplify_d(sp), "replay", itertools.count(), levelorder=bool(rp["case"].get("levelorder")))
    return dict(failures=out.oracle_failures[:8], disagreements=out.disagreements[:5], property_holds=not out.oracle_failures)
