"""C04 — every mutation has exactly its documented effect and no other."""
from __future__ import annotations

import json

import core
import histories as H
from props import _hist
from props.c01 import LABELS, PROFILES

LEVEL = "proof"
TRUSTED = [
    "the executable specification is the Lean model (lean/Nutree/Model/Ops.lean, World.lean) with its effect/frame theorems; the shortcuts "
    "(append_child / prepend_child / prepend_sibling / append_sibling), `del tree[key]`, set_meta / clear_meta / update_meta, Tree.clear() and Tree.sort() are "
    "operations of the model (Op.addVia, delItem, metaSet, metaClear, metaUpdate, clear, sortTree); that each equals the documented call of the general "
    "entry point is proved in lean/Nutree/Properties/C04Shortcuts.lean",
    "`del tree[key]`: the node_id lookup of `Tree.__getitem__` for int keys is not modelled (node ids are `id(node)`, never a small int); the hash of a str "
    "that is no pool object is assumed not to be a data_id in use",
]
ASSUMPTIONS = []


def judge(s, r):
    out = []
    if s.problems and (s.impl_res == "ok" or s.model_res == "ok"):
        out.append(("effect", s.problems[0], None))
    return out


# fixed histories (tree 0): corner cases of `del tree[key]` that the generators do not reach
FIXED = [
    # hash(-1) == -2: the int key -1 is no data_id in use, so it is looked up as a data object and finds the node registered under -2
    [{"op": "w.add", "t": 0, "p": [], "a": 0, "did": -2}, {"op": "w.add", "t": 0, "p": [0], "a": 1}, {"op": "w.del", "t": 0, "did": -1}],
    # ... but an id in use wins over the meaning as data object
    [{"op": "w.add", "t": 0, "p": [], "a": 0, "did": -2}, {"op": "w.add", "t": 0, "p": [], "a": 1, "did": -1}, {"op": "w.del", "t": 0, "did": -1}],
    # the pool int 7 (data object 12) used as id of other data: `del tree[7]` takes it as data_id first
    [{"op": "w.add", "t": 0, "p": [], "a": 12}, {"op": "w.del", "t": 0, "a": 12}],
    [{"op": "w.add", "t": 0, "p": [], "a": 0, "did": 7}, {"op": "w.add", "t": 0, "p": [0], "a": 12}, {"op": "w.del", "t": 0, "a": 12}],
    [{"op": "w.add", "t": 0, "p": [], "a": 0, "did": 7}, {"op": "w.add", "t": 0, "p": [0], "a": 1, "did": 7}, {"op": "w.del", "t": 0, "did": 7}],
    # a string that is a data object of one node and the explicit id of another one
    [{"op": "w.add", "t": 0, "p": [], "a": 0}, {"op": "w.add", "t": 0, "p": [], "a": 1, "did": "A"}, {"op": "w.del", "t": 0, "a": 0}],
    # falsy keys
    [{"op": "w.add", "t": 0, "p": [], "a": 29}, {"op": "w.add", "t": 0, "p": [], "a": 30}, {"op": "w.del", "t": 0, "a": 29}, {"op": "w.del", "t": 0, "a": 30}],
    [{"op": "w.add", "t": 0, "p": [], "a": 0, "did": 0}, {"op": "w.add", "t": 0, "p": [], "a": 1, "did": ""}, {"op": "w.del", "t": 0, "did": ""}, {"op": "w.del", "t": 0, "did": 0}],
    # the default id of an object as explicit key; equal-but-distinct objects
    [{"op": "w.add", "t": 0, "p": [], "a": 18}, {"op": "w.add", "t": 0, "p": [0], "a": 19}, {"op": "w.del", "t": 0, "hash_of": 18}],
    [{"op": "w.add", "t": 0, "p": [], "a": 18}, {"op": "w.del", "t": 0, "a": 19}],
    [{"op": "w.add", "t": 0, "p": [], "a": 27}, {"op": "w.add", "t": 0, "p": [0], "a": 28}, {"op": "w.del", "t": 0, "hash_of": 28}, {"op": "w.del", "t": 0, "a": 27}],
    # a key for which the id callback raises (object 3 under the hook of `fixed_histories`), also when it is an id in use
    [{"op": "w.add", "t": 0, "p": [], "a": 0}, {"op": "w.del", "t": 0, "a": 3}, {"op": "w.add", "t": 0, "p": [], "a": 1, "did": "D"}, {"op": "w.del", "t": 0, "a": 3}],
    # kinds (typed trees; plain trees ignore `kind`): the sibling shortcuts look at the neighbour of ANY kind and give the new
    # node the kind of the node they are called on; prepend_child goes before the first child of any kind
    [{"op": "w.add", "t": 0, "p": [], "a": 0, "kind": "a"}, {"op": "w.add", "t": 0, "p": [], "a": 1, "kind": "b"}, {"op": "w.add", "t": 0, "p": [], "a": 2, "kind": "a"},
     {"op": "w.add", "t": 0, "p": [], "ref": [0], "a": 9, "via": "append_sibling", "kind": "b"},
     {"op": "w.add", "t": 0, "p": [], "ref": [2], "a": 4, "via": "prepend_sibling", "kind": "a"},
     {"op": "w.add", "t": 0, "p": [], "a": 6, "via": "prepend_child", "kind": "b"},
     {"op": "w.add", "t": 0, "p": [], "ref": [5], "a": 7, "via": "append_sibling"},
     {"op": "w.add", "t": 0, "p": [], "a": 8, "via": "append_child", "kind": "b"}],
    [{"op": "w.add", "t": 0, "p": [], "a": 0, "kind": "a"}, {"op": "w.add", "t": 0, "p": [0], "a": 1, "kind": "b"}, {"op": "w.add", "t": 0, "p": [0], "a": 2, "kind": "a"},
     {"op": "w.add", "t": 0, "p": [0], "a": 9, "kind": "b"},
     {"op": "w.add", "t": 0, "p": [0], "ref": [0, 0], "a": 4, "via": "append_sibling"},
     {"op": "w.add", "t": 0, "p": [0], "ref": [0, 2], "a": 6, "via": "prepend_sibling"},
     {"op": "w.add", "t": 0, "p": [0], "a": 7, "via": "prepend_child", "kind": "a"},
     {"op": "w.add", "t": 0, "p": [0], "ref": [0, 1], "a": 1, "via": "append_sibling"}],
    # metadata: removing the last key empties the dict (meta is None again), update on existing / absent metadata, replace=True,
    # set_meta(key, None) removes, falsy values stay, one caller-owned dict used twice
    [{"op": "w.add", "t": 0, "p": [], "a": 0}, {"op": "w.add", "t": 0, "p": [0], "a": 1},
     {"op": "w.meta", "t": 0, "n": [0], "kind": "set", "k": "a", "v": "1"}, {"op": "w.meta", "t": 0, "n": [0], "kind": "clear", "k": "zz"},
     {"op": "w.meta", "t": 0, "n": [0], "kind": "clear", "k": "a"}, {"op": "w.meta", "t": 0, "n": [0], "kind": "clear", "k": "a"},
     {"op": "w.meta", "t": 0, "n": [0, 0], "kind": "update", "vals": [["a", "1"], ["c", "0"]], "replace": False},
     {"op": "w.meta", "t": 0, "n": [0, 0], "kind": "update", "vals": [["c", "2"], ["d", "null"]], "replace": False},
     {"op": "w.meta", "t": 0, "n": [0, 0], "kind": "set", "k": "a", "v": "null"},
     {"op": "w.meta", "t": 0, "n": [0, 0], "kind": "set", "k": "b", "v": "false"},
     {"op": "w.meta", "t": 0, "n": [0, 0], "kind": "update", "vals": [["d", "5"]], "replace": True, "shared": 0},
     {"op": "w.meta", "t": 0, "n": [0], "kind": "update", "vals": [["a", "7"]], "replace": False, "shared": 0},
     {"op": "w.meta", "t": 0, "n": [0, 0], "kind": "update", "vals": [], "replace": True},
     {"op": "w.meta", "t": 0, "n": [0], "kind": "set", "k": "a", "v": "null"}, {"op": "w.meta", "t": 0, "n": [0], "kind": "clear", "k": None}],
    # a node with children and a clone elsewhere: only the designated node goes, with its branch
    [{"op": "w.add", "t": 0, "p": [], "a": 0}, {"op": "w.add", "t": 0, "p": [0], "a": 1}, {"op": "w.add", "t": 0, "p": [0, 0], "a": 2},
     {"op": "w.add", "t": 0, "p": [], "a": 2}, {"op": "w.del", "t": 0, "a": 1}, {"op": "w.del", "t": 0, "a": 2}, {"op": "w.del", "t": 0, "a": 2}],
]


def fixed_histories(ctx, out):
    for typed in (False, True):
        for hook in (None, [[0, "k0"], [3, None], [12, 7]]):
            cfg = dict(typed=typed, hook=hook, trees=2)
            for log in FIXED:
                fails, steps = _hist.run_log(ctx, cfg, log, judge)
                out.evaluations += len(steps)
                for s in steps:
                    out.dist["op:" + s.op["op"] + (":" + s.op["via"] if s.op.get("via") else "")] += 1
                    out.dist["res:" + s.impl_res] += 1
                out.keys.add(core.hash_str(json.dumps([typed, hook, log], sort_keys=True)))
                if fails:
                    i, (tag, text, finding) = fails[0]
                    out.fail(dict(cfg=_hist.pub(cfg), log=log[: i + 1]), f"[{tag}] fixed history, op {log[i]}: {text}", step=steps[-1].as_dict(), finding=finding)
                elif steps and steps[-1].problems:
                    out.disagree(dict(cfg=_hist.pub(cfg), log=log), f"fixed history {log}: {steps[-1].problems[:2]}", step=steps[-1].as_dict())


def run(ctx):
    out = core.Outcome(
        rule="after every operation of (a) every single op x argument combination on every forest <= N nodes and (b) random histories (plain, typed, hook, "
        "malformed-heavy), the implementation's complete observable state (shape, node identity via a bijection, data object, data_id, kind, meta, "
        "count, count_unique, clone list order) must equal the state of the executable specification after the same history. "
        "non-trivial/distinct as C01"
    )
    ctx.budget_s = ctx.budget(900, 100)
    n = 4 if ctx.thorough else 3
    for typed in (False, True):
        _hist.exhaustive_single_ops(ctx, out, judge, max_nodes=n if not typed else n - 1, alphabet=[0, 1, 6], typed=typed,
                                    ops_of=lambda impl, ti: _hist.all_single_ops(impl, ti, labels=[0, 6, 2]), label_limit=6 if ctx.thorough else 2)
    fixed_histories(ctx, out)
    del_prof = dict(name="del", typed=False, malformed=0.1, hook=[[0, "k0"], [1, "k1"], [2, None], [18, "item"], [19, "item"]],
                    ops=["add", "add", "add", "shortcut", "addnode", "del", "del", "del", "setdata", "move"], did_rate=0.3)
    del_typed = dict(name="del-typed", typed=True, malformed=0.1, ops=["add", "add", "add", "shortcut", "shortcut", "addnode", "del", "del", "setdata"], did_rate=0.3)
    meta_prof = dict(name="meta-sort", typed=False, malformed=0.05, ops=["add", "add", "meta", "meta", "meta", "sort", "sort", "move", "remove"])
    _hist.history_campaign(ctx, out, judge, n_hist=1500 if ctx.thorough else 150, n_steps=120 if ctx.thorough else 25, profiles=PROFILES + [meta_prof, del_prof, del_typed], labels_sets=LABELS)
    return out


def replay(ctx, rp):
    return _hist.replay(ctx, rp, judge)
