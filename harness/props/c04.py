"""C04 — every mutation has exactly its documented effect and no other."""
from __future__ import annotations

import core
import histories as H
from props import _hist
from props.c01 import LABELS, PROFILES

LEVEL = "proof"
TRUSTED = [
    "the executable specification is the Lean model (lean/Nutree/Model/Ops.lean) with its effect/frame theorems; the shortcuts are specified in the harness "
    "(append_child = add(before=None), prepend_child = add(before=first child), prepend_sibling(n) = parent.add(before=n), append_sibling(n) = parent.add(before=next sibling))",
]
ASSUMPTIONS = []


def judge(s, r):
    out = []
    if s.problems and (s.impl_res == "ok" or s.model_res == "ok"):
        out.append(("effect", s.problems[0], None))
    return out


def run(ctx):
    out = core.Outcome(
        rule="after every operation of (a) every single op x argument combination on every forest <= N nodes and (b) random histories (plain, typed, hook, "
        "malformed-heavy), the implementation's complete observable state (shape, node identity via a bijection, data object, data_id, kind, meta, "
        "count, count_unique, clone list order) must equal the state of the executable specification after the same history. "
        "non-trivial/distinct as C01"
    )
    ctx.budget_s = 900 if ctx.thorough else 100
    n = 4 if ctx.thorough else 3
    for typed in (False, True):
        _hist.exhaustive_single_ops(ctx, out, judge, max_nodes=n if not typed else n - 1, alphabet=[0, 1, 6], typed=typed,
                                    ops_of=lambda impl, ti: _hist.all_single_ops(impl, ti, labels=[0, 6, 2]), label_limit=6 if ctx.thorough else 2)
    meta_prof = dict(name="meta-sort", typed=False, malformed=0.05, ops=["add", "add", "meta", "meta", "meta", "sort", "sort", "move", "remove"])
    _hist.history_campaign(ctx, out, judge, n_hist=1500 if ctx.thorough else 150, n_steps=120 if ctx.thorough else 25, profiles=PROFILES + [meta_prof], labels_sets=LABELS)
    return out


def replay(ctx, rp):
    return _hist.replay(ctx, rp, judge)
