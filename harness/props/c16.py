"""C16 — pretty-printing renders the tree shape faithfully in every style."""
from __future__ import annotations

import itertools

import adapter
import core
import gen
from nutree.common import CONNECTORS

LEVEL = "proof"
TRUSTED = [
    "the rendering of a single node (str.format / the repr callable) is a parameter of the model, tabulated per node by the harness",
    "Python str length/concatenation = Lean String (code points)",
]
ASSUMPTIONS = []

CUSTOM = [["  ", "| ", "`-", "+-"], ["  ", "│ ", "╰─", "├─", "╰┬", "├┬"], [">", ">", ">"], [],
          ["  ", "| ", "`- ", "+- ", "", ""], ["", "", "", ""]]     # also EMPTY connector strings (they are connectors like any other)
EMPTIED = None      # how the (empty) tree of the current case was emptied: None = never populated


def render_table(tree, ser, repr_):
    tbl = {}
    for n in [tree.system_root] + list(tree):
        if repr_ is None:
            s = n.DEFAULT_RENDER_REPR.format(node=n)
        elif callable(repr_):
            s = repr_(n)
        else:
            s = repr_.format(node=n)
        tbl[str(ser.of(n))] = s
    return tbl


def call_repr(n):
    return f"<{n.name}>"


def brace_repr(n):
    # a callable's result is the final text: braces in it are text, not a template
    return "{" + n.name + "}{{0}}{}"


REPRS = ["{node.data}", call_repr, None, "{node.name}:{node.data_id}", brace_repr]


def style_wire(style):
    if style is None or isinstance(style, str):
        return style
    return list(style)


def one(ctx, out, tree, ser, tj, spec, path, style, is_tree, add_self, title, repr_, join, reqs, pend):
    kw = {}
    if repr_ is not None:
        kw["repr"] = repr_
    st = style if (style is None or isinstance(style, str)) else tuple(style)
    try:
        if is_tree:
            tk = {} if title is None else {"title": title}
            impl = {"ok": tree.format(style=st, join=join, **kw, **tk)}
        else:
            impl = {"ok": adapter.node_at(tree, path).format(style=st, add_self=add_self, join=join, **kw)}
    except Exception as e:  # noqa
        impl = {"err": adapter.err_class(e)}
    req = {"op": "format", "t": tj, "path": list(path), "style": style_wire(style), "render": render_table(tree, ser, repr_),
           "join": join, "tree": is_tree, "self": add_self, "title": title, "treeStr": str(tree)}
    case = dict(spec=spec, path=list(path), style=style_wire(style), tree=is_tree, self=add_self, title=title,
                repr=REPRS.index(repr_), join=join, emptied=EMPTIED)
    reqs.append(req)
    pend.append((case, impl))


def judge(out, case, impl, resp):
    if "fail" in resp:
        raise core.MachineryError(f"driver: {resp}")
    if impl != resp["spec"]:
        out.fail(case, f"format({ {k: v for k, v in case.items() if k != 'spec'} }) = {impl!r}, documented layout: {resp['spec']!r}",
                 impl=impl, spec=resp["spec"], model=resp["model"])
    elif impl != resp["model"]:
        out.disagree(case, f"format: impl {impl!r} != model {resp['model']!r}")


def empty_it(tree, how):
    """populate the tree and empty it again (an emptied tree is an empty tree)"""
    a = tree.add("tmp-A")
    a.add("tmp-a1")
    if how == "clear":
        tree.clear()
    elif how == "remove":
        a.remove()
    else:
        tree.filter(lambda n: False)


def do_tree(ctx, out, spec, typed, styles, rot, full, emptied=None):
    global EMPTIED
    tree = adapter.build(spec, ctx.pool, typed=typed)
    EMPTIED = emptied
    if emptied:
        empty_it(tree, emptied)
    ser = adapter.Serials()
    ser.by_obj[id(tree.system_root)] = 0
    ser.keep.append(tree.system_root)
    tj = adapter.tree_json(tree, ser, ctx.pool)
    reqs, pend = [], []
    height = gen.spec_height(spec)
    nontriv = gen.spec_size(spec) >= 3 and height >= 2
    paths = [()] + list(gen.all_paths(spec))
    for path in paths:
        for style in styles:
            k = next(rot)
            repr_ = REPRS[(k + k // 5) % len(REPRS)]     # (five entries, as the titles: shifted every fifth case, so that every pair occurs)
            join = ["\n", "\n", ", ", "\n", "", "\n", " | "][k % 7]     # also the empty string (lines glued together)
            if not path:
                titles = [None, False, True, "Title", ""] if full else [[None, False, "Title", True, ""][k % 5]]
                for title in titles:
                    one(ctx, out, tree, ser, tj, spec, path, style, True, False, title, repr_, join, reqs, pend)
                    out.count(("t", repr(spec), repr(style), repr(title), REPRS.index(repr_), join), nontriv)
                    out.dist["title:" + repr(title)] += 1
                # Node.format on the system root
                for add_self in (False, True):
                    one(ctx, out, tree, ser, tj, spec, path, style, False, add_self, None, repr_, join, reqs, pend)
            else:
                for add_self in (False, True):
                    one(ctx, out, tree, ser, tj, spec, path, style, False, add_self, None, repr_, join, reqs, pend)
                    out.count(("n", repr(spec), path, repr(style), add_self, REPRS.index(repr_), join), nontriv)
            out.dist["style:" + (style if isinstance(style, str) else ("default" if style is None else f"custom{len(style)}"))] += 1
    resps = ctx.driver.ask_many(reqs)
    for (case, impl), resp in zip(pend, resps):
        judge(out, case, impl, resp)
    if gen.spec_size(spec) >= 5 and pend:
        out.sample(dict(tree=spec, case={k: v for k, v in pend[len(pend) // 2][0].items() if k != "spec"}, output=pend[len(pend) // 2][1]))


def run(ctx):
    out = core.Outcome(
        rule="every ordered forest with <= N nodes (N=5 quick, 6 thorough; depth up to N) x every start node (tree and node) x every style of the "
        "CONNECTORS table + None + 'list' + custom 4/6-tuples + invalid name / invalid tuple lengths x add_self (Node.format) / title in "
        "{None, False, True, text, ''} (Tree.format), with repr in {format string, callable, default, custom format, callable whose text contains braces} and join in {newline, ', ', '', ' | '} rotated; "
        "text equality of the whole output; typed trees included. non-trivial = >= 3 nodes and >= 2 levels; distinct = distinct argument tuple"
    )
    styles = list(CONNECTORS.keys()) + [None, "list", "", "nosuchstyle"] + CUSTOM
    rot = itertools.count()
    n_max = 6 if ctx.thorough else 5
    alphabet = list(range(0, 12))
    for n in range(0, n_max + 1):
        for shape in gen.forests(n):
            spec = gen.distinct_labeling(shape, alphabet)
            if n <= 3 or ctx.thorough:
                do_tree(ctx, out, spec, False, styles, rot, full=(n <= 3))
            else:
                # rotate a third of the styles per tree (every style still meets every shape class many times)
                k = next(rot)
                do_tree(ctx, out, spec, False, styles[k % 3 :: 3], rot, full=False)
    for how in ("clear", "remove", "filter"):
        do_tree(ctx, out, [], False, styles, rot, full=True, emptied=how)
        out.dist["emptied:" + how] += 1
    out.extra["exhaustive_scope"] = f"all ordered forests with <= {n_max} nodes (styles rotated for > 3 nodes in the quick tier)"
    # typed trees + deep random trees
    for _ in range(60 if ctx.thorough else 12):
        n = ctx.rng.randrange(5, 18)
        shape = gen.random_shape(ctx.rng, n, deep_bias=0.7)
        cnt = itertools.count()
        typed = ctx.rng.random() < 0.4
        spec = gen.label_forest(shape, ({"a": next(cnt) % 12, "k": ctx.rng.choice("ab"), "did": 8000 + next(cnt)} for _ in range(n)))
        k = next(rot)
        do_tree(ctx, out, spec, typed, styles[k % 4 :: 4], rot, full=False)
        out.dist["random_tree" + ("_typed" if typed else "")] += 1
    # clones: equal data_ids at different depths and sibling positions, a node below its own clone (anything remembered per
    # data_id instead of per node shows here)
    clone_specs = [
        # renderings that are empty, end in white space or are white space only (a line is prefix + rendering, unchanged)
        [(30, [(31, [(32, [])]), (0, [])]), (31, [(30, [])]), (32, [])],
        [(0, [(1, []), (0, [(2, [])])]), (3, [])],
        [(0, [(0, [(0, [(1, [])]), (2, [])]), (1, [])]), (2, [(0, [])])],
        [(0, [(1, [(2, [])])]), (1, [(2, []), (0, [(1, [])])])],
    ]
    for _ in range(40 if ctx.thorough else 10):
        clone_specs.append(gen.random_spec(ctx.rng, ctx.rng.randrange(4, 12), [0, 1, 2, 3], clone_rate=0.7))
    for spec in clone_specs:
        k = next(rot)
        do_tree(ctx, out, spec, False, styles[k % 3 :: 3], rot, full=False)
        out.dist["clone_tree"] += 1
    return out


def replay(ctx, rp):
    from props.c10 import tuplify_d

    case = rp["case"]
    spec = tuplify_d(case["spec"])
    out = core.Outcome()
    typed = any(isinstance(l, dict) and l.get("k") for l, _ in spec) and False
    tree = adapter.build(spec, ctx.pool, typed=typed)
    global EMPTIED
    EMPTIED = case.get("emptied")
    if EMPTIED:
        empty_it(tree, EMPTIED)
    ser = adapter.Serials()
    ser.by_obj[id(tree.system_root)] = 0
    ser.keep.append(tree.system_root)
    tj = adapter.tree_json(tree, ser, ctx.pool)
    reqs, pend = [], []
    one(ctx, out, tree, ser, tj, spec, tuple(case["path"]), case["style"], case["tree"], case["self"], case["title"],
        REPRS[case["repr"]], case["join"], reqs, pend)
    resp = ctx.driver.ask(reqs[0])
    judge(out, pend[0][0], pend[0][1], resp)
    return dict(implementation=pend[0][1], model=resp["model"], specification=resp["spec"], property_holds=not out.oracle_failures)
