"""C10 — relationship queries agree with the tree's shape (also with ==-equal siblings)."""
from __future__ import annotations

import itertools

import adapter
import core
import gen

LEVEL = "proof"
TRUSTED = []
ASSUMPTIONS = ["node identities are unique within a tree (C01)"]


def impl_node(tree, node, ser, typed=False):
    # on a typed tree the kind-aware overrides are asked for ANY kind: then they are the plain relationship queries
    ck = ()
    sk = {}
    if typed:
        from nutree.typed_tree import ANY_KIND

        ck = (ANY_KIND,)
        sk = {"any_kind": True}

    def i(n):
        return None if n is None else ser.of(n)

    def up(k):
        try:
            return i(node.up(k))
        except ValueError:
            return None

    def g(f):
        try:
            return f()
        except Exception as e:  # noqa
            return "err:" + adapter.err_class(e)

    return {
        "parent": g(lambda: i(node.parent)),
        "up1": up(1), "up2": up(2), "up3": up(3), "up0": up(0), "up99": up(99),
        "children": g(lambda: adapter.ids(node.children, ser)),
        "first_child": g(lambda: i(node.first_child(*ck))), "last_child": g(lambda: i(node.last_child(*ck))),
        "siblings": g(lambda: adapter.ids(node.get_siblings(**sk), ser)),
        "siblings_self": g(lambda: adapter.ids(node.get_siblings(add_self=True, **sk), ser)),
        "first_sibling": g(lambda: i(node.first_sibling(**sk))), "last_sibling": g(lambda: i(node.last_sibling(**sk))),
        "prev_sibling": g(lambda: i(node.prev_sibling(**sk))), "next_sibling": g(lambda: i(node.next_sibling(**sk))),
        "index": g(lambda: node.get_index(**sk)),
        "depth": g(lambda: node.depth()), "height": g(lambda: node.calc_height()),
        "top": g(lambda: i(node.get_top())),
        "plist": g(lambda: adapter.ids(node.get_parent_list(), ser)),
        "plist_self": g(lambda: adapter.ids(node.get_parent_list(add_self=True), ser)),
        "plist_up": g(lambda: adapter.ids(node.get_parent_list(bottom_up=True), ser)),
        "plist_self_up": g(lambda: adapter.ids(node.get_parent_list(add_self=True, bottom_up=True), ser)),
        "path": g(lambda: node.path), "path_noself": g(lambda: node.get_path(add_self=False)),
        "count": g(lambda: node.count_descendants()), "count_leaves": g(lambda: node.count_descendants(leaves_only=True)),
        "is_top": g(lambda: node.is_top()), "is_leaf": g(lambda: node.is_leaf()),
        "is_first": g(lambda: node.is_first_sibling(**sk)), "is_last": g(lambda: node.is_last_sibling(**sk)),
        "has_children": g(lambda: node.has_children(*ck)),
    }


def impl_pair(a, b, ser):
    def g(f):
        try:
            return f()
        except Exception as e:  # noqa
            return "err:" + adapter.err_class(e)

    ca = g(lambda: a.get_common_ancestor(b))
    return [g(lambda: a.is_descendant_of(b)), g(lambda: a.is_ancestor_of(b)), ca if isinstance(ca, str) else (None if ca is None else ser.of(ca))]


def check_tree(ctx, out, spec, tag, tree=None, typed=False):
    if tree is None:
        if typed:
            from props.c15 import long_kinds     # multi-character kinds, one of them a superstring of another

            tree = adapter.build(long_kinds(spec), ctx.pool, typed=True)
        else:
            tree = adapter.build(spec, ctx.pool, typed=typed)
    try:
        list(tree.children)
        list(tree.get_toplevel_nodes())
    except TypeError:
        out.fail(dict(kind="tree-level", spec=spec, accessor="children", typed=typed),
                 f"tree.children = {tree.children!r} / get_toplevel_nodes() = {tree.get_toplevel_nodes()!r}: not a list of the top-level nodes ({tree.count} nodes in the tree)")
        return
    ser = adapter.Serials()
    ser.by_obj[id(tree.system_root)] = 0
    ser.keep.append(tree.system_root)
    tj = adapter.tree_json(tree, ser, ctx.pool)
    resp = ctx.driver.ask({"op": "rel", "t": tj})
    if "fail" in resp:
        raise core.MachineryError(f"driver: {resp}")
    nodes = {ser.of(n): n for n in tree}
    size = len(nodes)
    nontriv = size >= 3 and tree.calc_height() >= 2
    for rec in resp["nodes"]:
        n = nodes[rec["id"]]
        impl = impl_node(tree, n, ser, typed)
        case = dict(kind="node", spec=spec, node=rec["id"], typed=typed)
        out.count((tag, repr(spec), rec["id"]), nontriv)
        for k, v in impl.items():
            out.dist["acc:" + k] += 1
            if v != rec["spec"][k]:
                out.fail(dict(case, accessor=k), f"{k}() of node {rec['id']} = {v!r}, follows from shape: {rec['spec'][k]!r}",
                         impl=v, spec=rec["spec"][k], model=rec["model"][k], finding=None)
            elif v != rec["model"][k]:
                out.disagree(dict(case, accessor=k), f"{k}() of node {rec['id']} = {v!r}, model {rec['model'][k]!r}")
    if typed:
        # the DEFAULT (kind-aware) sibling queries of a typed node must be mutually consistent: the index is the node's
        # position (by identity) in get_siblings(add_self=True), first/last/prev/next/is_first/is_last follow from it
        for nid, n in nodes.items():
            out.dist["typed_default_consistency"] += 1
            try:
                sibs = n.get_siblings(add_self=True)
                pos = [k for k, x in enumerate(sibs) if x is n]
                idx = n.get_index()
                got = dict(index=idx, first=n.first_sibling(), last=n.last_sibling(), prev=n.prev_sibling(), next=n.next_sibling(),
                           is_first=n.is_first_sibling(), is_last=n.is_last_sibling(), same_kind=all(x.kind == n.kind for x in sibs),
                           in_parent=[x for x in (n.parent or tree.system_root).children if x.kind == n.kind] == sibs)
                # the parent asked for the node's kind, named by an equal string that is a different object (a kind read from a file)
                par_, fk = (n.parent or tree.system_root), "".join(list(n.kind))
                ck_ = par_.get_children(fk)
                got.update(children_of_kind=len(ck_) == len(sibs) and all(x is y for x, y in zip(ck_, sibs)), first_of_kind=par_.first_child(fk),
                           last_of_kind=par_.last_child(fk), has_of_kind=par_.has_children(fk))
            except Exception as e:  # noqa
                out.fail(dict(kind="typed-consistency", spec=spec, node=nid, typed=True), f"default sibling queries of node {nid} raised {e!r}")
                continue
            if len(pos) != 1:
                out.fail(dict(kind="typed-consistency", spec=spec, node=nid, typed=True), f"node {nid} occurs {len(pos)} times in get_siblings(add_self=True)")
                continue
            p = pos[0]
            want = dict(index=p, first=sibs[0], last=sibs[-1], prev=sibs[p - 1] if p > 0 else None, next=sibs[p + 1] if p + 1 < len(sibs) else None,
                        is_first=p == 0, is_last=p == len(sibs) - 1, same_kind=True, in_parent=True,
                        children_of_kind=True, first_of_kind=sibs[0], last_of_kind=sibs[-1], has_of_kind=True)
            for k in want:
                if (got[k] is not want[k]) if k in ("first", "last", "prev", "next", "first_of_kind", "last_of_kind") else (got[k] != want[k]):
                    out.fail(dict(kind="typed-consistency", spec=spec, node=nid, typed=True, accessor=k),
                             f"typed node {nid}: default {k} = {got[k]!r} is inconsistent with its position {p} in get_siblings(add_self=True) (expected {want[k]!r})")
    for a, b, model, sp in resp["pairs"]:
        impl = impl_pair(nodes[a], nodes[b], ser)
        out.count((tag, repr(spec), a, b), nontriv)
        out.dist["pairs"] += 1
        case = dict(kind="pair", spec=spec, a=a, b=b)
        if impl != sp:
            out.fail(case, f"[is_descendant_of, is_ancestor_of, get_common_ancestor]({a},{b}) = {impl}, follows from shape: {sp}", impl=impl, spec=sp, model=model)
        elif impl != model:
            out.disagree(case, f"pair ({a},{b}): impl {impl} model {model}")
    # tree-level accessors and queries that involve a node of ANOTHER tree (no common ancestor, no ancestry)
    tops = list(tree.children)
    ck = ()
    if typed:
        from nutree.typed_tree import ANY_KIND

        ck = (ANY_KIND,)
    tl = dict(toplevel=tree.get_toplevel_nodes(), first=tree.first_child(*ck), last=tree.last_child(*ck), count=tree.count, len=len(tree),
              truth=bool(tree))
    want_tl = dict(toplevel=tops, first=tops[0] if tops else None, last=tops[-1] if tops else None, count=size, len=size, truth=size > 0)
    out.dist["tree_level"] += 1
    for k in want_tl:
        same = (len(tl[k]) == len(want_tl[k]) and all(x is y for x, y in zip(tl[k], want_tl[k]))) if k == "toplevel" else (
            tl[k] is want_tl[k] if k in ("first", "last") else tl[k] == want_tl[k])
        if not same:
            out.fail(dict(kind="tree-level", spec=spec, accessor=k, typed=typed), f"tree-level {k} = {tl[k]!r}, the shape says {want_tl[k]!r}")
    for n in nodes.values():
        gc = n.get_children(*ck)
        if len(gc) != len(n.children) or any(x is not y for x, y in zip(gc, n.children)):
            out.fail(dict(kind="node", spec=spec, accessor="get_children", typed=typed), f"get_children() of {n!r} differs from children")
        if n.is_system_root():
            out.fail(dict(kind="node", spec=spec, accessor="is_system_root", typed=typed), f"is_system_root() of {n!r} is true")
    if nodes:
        other = adapter.build([(0, [(1, [])])], ctx.pool, typed=typed)
        foreign = other.children[0].children[0]
        for n in list(nodes.values())[:4]:
            got = [n.get_common_ancestor(foreign), foreign.get_common_ancestor(n), n.is_descendant_of(foreign), n.is_ancestor_of(foreign)]
            out.dist["foreign_pairs"] += 1
            if got != [None, None, False, False]:
                out.fail(dict(kind="foreign-pair", spec=spec, typed=typed), f"queries between {n!r} and a node of another tree = {got}, expected [None, None, False, False]")
    th = tree.calc_height()
    if th != resp["tree_height_spec"]:
        out.fail(dict(kind="tree_height", spec=spec), f"tree.calc_height() = {th}, shape says {resp['tree_height_spec']}")
    elif th != resp["tree_height"]:
        out.disagree(dict(kind="tree_height", spec=spec), f"tree.calc_height() = {th}, model {resp['tree_height']}")
    if size >= 5:
        out.sample(dict(tree=spec, nodes=size))


def eqsib_variants(shape, rng, k):
    """labelings where siblings hold equal-comparing data under distinct explicit ids."""
    n = gen.forest_size(shape)
    cnt = itertools.count(1)
    # all nodes hold the same string
    yield gen.label_forest(shape, ({"a": 0, "did": 2000 + next(cnt)} for _ in range(n)))
    # equal-but-distinct dataclass instances / EqObj mixes
    for _ in range(k):
        yield gen.label_forest(shape, ({"a": rng.choice([18, 19, 24, 25, 0, 0, 1]), "did": 3000 + next(cnt)} for _ in range(n)))


def run(ctx):
    out = core.Outcome(
        rule="exhaustive: every ordered forest with <= N nodes with distinct labels, plus labelings where siblings hold ==-equal data under distinct explicit "
        "data_ids; per tree every node (33 accessors) and every ordered pair (3 queries); then random larger trees. "
        "non-trivial = tree has >= 3 nodes and >= 2 levels; distinct = distinct (labelled tree, node[, node])"
    )
    n_max = 7 if ctx.thorough else 6
    alphabet = list(range(0, 12))
    for spec in CORPUS:
        check_tree(ctx, out, spec, "corpus")
    for n in range(0, n_max + 1):
        for shape in gen.forests(n):
            check_tree(ctx, out, gen.distinct_labeling(shape, alphabet), "ex")
            if n <= 5:
                for spec in eqsib_variants(shape, ctx.rng, 2 if ctx.thorough else 1):
                    check_tree(ctx, out, spec, "eq")
                    out.dist["eq_sibling_trees"] += 1
    out.exhaustive = True
    out.extra["exhaustive_scope"] = f"all ordered forests with <= {n_max} nodes"
    for _ in range(200 if ctx.thorough else 30):
        n = ctx.rng.randrange(7, 26 if ctx.thorough else 14)
        shape = gen.random_shape(ctx.rng, n)
        cnt = itertools.count(1)
        spec = gen.label_forest(shape, ({"a": ctx.rng.choice([0, 1, 2, 18, 19, 24, 25, 12]), "did": 5000 + next(cnt)} for _ in range(n)))
        check_tree(ctx, out, spec, "rnd")
        out.dist["random_tree"] += 1
    # emptied trees (populated, then cleared / last node removed / everything filtered out): an empty tree like a new one
    from nutree import Tree as _Tree
    from nutree.typed_tree import TypedTree as _TypedTree

    for typed_ in (False, True):
        for how in ("clear", "remove", "filter"):
            t_ = (_TypedTree if typed_ else _Tree)("t")
            a_ = t_.add("tmp-A", **({"kind": "kind-a"} if typed_ else {}))
            a_.add("tmp-a1", **({"kind": "kind-b"} if typed_ else {}))
            if how == "clear":
                t_.clear()
            elif how == "remove":
                a_.remove()
            else:
                t_.filter(lambda n: False)
            check_tree(ctx, out, {"emptied": how, "typed": typed_}, "emptied", tree=t_, typed=typed_)
            out.dist["emptied_tree"] += 1
    # typed trees with mixed kinds among siblings: asked for ANY kind, the kind-aware overrides of TypedNode are the plain queries
    for spec in TYPED_CORPUS:
        check_tree(ctx, out, spec, "typed-corpus", typed=True)
    for n in range(1, (6 if ctx.thorough else 5) + 1):
        for shape in gen.forests(n):
            for _ in range(3 if n >= 3 else 1):
                cnt = itertools.count()
                spec = gen.label_forest(shape, ({"a": next(cnt) % 12, "k": ctx.rng.choice("abcd"), "did": 8000 + next(cnt)} for _ in range(n)))
                check_tree(ctx, out, spec, "typed", typed=True)
                out.dist["typed_tree"] += 1
    for _ in range(150 if ctx.thorough else 30):
        n = ctx.rng.randrange(6, 16)
        shape = gen.random_shape(ctx.rng, n)
        cnt = itertools.count()
        spec = gen.label_forest(shape, ({"a": ctx.rng.choice([0, 1, 2, 18, 19, 24, 25, 12]), "k": ctx.rng.choice("abcd"), "did": 9000 + next(cnt)} for _ in range(n)))
        check_tree(ctx, out, spec, "typed-rnd", typed=True)
        out.dist["typed_tree"] += 1
    # trees REACHED through mutation histories (add / shortcuts / copies / moves / removals with keep_children / sort / set_data):
    # the relationship queries must agree with the shape the tree has now
    import histories as H
    import world

    for h in range(120 if ctx.thorough else 25):
        impl = world.ImplWorld(ctx.pool)
        htyped = h % 3 == 2          # every third history is on typed trees (siblings of several kinds, removals among them)
        impl.new(htyped)
        impl.new(htyped)
        impl._bij = world.Bij()
        log = []
        for i in range(ctx.rng.randrange(5, 40 if ctx.thorough else 25)):
            ti = 0 if ctx.rng.random() < 0.8 else 1
            op = H.random_op(ctx.rng, impl, ti, labels=H.STR + [18, 19], malformed=0.05, typed=htyped,
                             ops=["add", "add", "add", "shortcut", "addnode", "addtree", "move", "move", "remove", "remove", "sort", "setdata"])
            if op["op"] == "w.remove":
                op["keep"] = ctx.rng.random() < 0.6
            impl.apply(op)
            log.append(H.clean(op))
            if i % 7 == 6:
                # query - mutate - query: the relationship queries are also asked in the middle of the history
                try:
                    check_tree(ctx, out, {"history": list(log), "tree": 0, "checked_every": 7, "typed": htyped}, "hist", tree=impl.trees[0], typed=htyped)
                except core.MachineryError:
                    raise
                except Exception as e:  # noqa
                    out.fail(dict(kind="history", spec={"history": list(log), "tree": 0}), f"relationship queries raised {type(e).__name__}: {e} on a tree reached by {len(log)} operations")
        for ti in (0, 1):
            t = impl.trees[ti]
            before = len(out.oracle_failures)
            try:
                check_tree(ctx, out, {"history": log, "tree": ti, "checked_every": 7, "typed": htyped}, "hist", tree=t, typed=htyped)
            except Exception as e:  # noqa  -- an accessor raised on a reachable tree
                out.fail(dict(kind="history", spec={"history": log, "tree": ti}), f"relationship queries raised {type(e).__name__}: {e} on a tree reached by {len(log)} operations")
        out.dist["history_tree"] += 1
    return out


TYPED_CORPUS = [
    [({"a": 0, "k": "a"}, []), ({"a": 1, "k": "b"}, []), ({"a": 2, "k": "a"}, []), ({"a": 3, "k": "b"}, [])],
    [({"a": 0, "k": "a"}, [({"a": 1, "k": "a"}, []), ({"a": 2, "k": "b"}, []), ({"a": 3, "k": "a"}, []), ({"a": 4, "k": "c"}, [])])],
]
CORPUS = [
    [({"a": 0, "did": 1}, []), ({"a": 0, "did": 2}, []), ({"a": 0, "did": 3}, [])],
]


def replay(ctx, rp):
    from props.c06 import tuplify

    out = core.Outcome()
    spec = rp["case"]["spec"]
    if isinstance(spec, dict) and "emptied" in spec:
        from nutree import Tree as _Tree
        from nutree.typed_tree import TypedTree as _TypedTree

        typed_, how = bool(spec.get("typed")), spec["emptied"]
        t_ = (_TypedTree if typed_ else _Tree)("t")
        a_ = t_.add("tmp-A", **({"kind": "kind-a"} if typed_ else {}))
        a_.add("tmp-a1", **({"kind": "kind-b"} if typed_ else {}))
        if how == "clear":
            t_.clear()
        elif how == "remove":
            a_.remove()
        else:
            t_.filter(lambda n: False)
        check_tree(ctx, out, spec, "replay", tree=t_, typed=typed_)
    elif isinstance(spec, dict) and "history" in spec:
        import world

        impl = world.ImplWorld(ctx.pool)
        impl.new(bool(spec.get("typed")))
        impl.new(bool(spec.get("typed")))
        impl._bij = world.Bij()
        for i, op in enumerate(spec["history"]):
            impl.apply(dict(op))
            if spec.get("checked_every") and i % spec["checked_every"] == spec["checked_every"] - 1 and i + 1 < len(spec["history"]):
                check_tree(ctx, core.Outcome(), spec, "replay-warm", tree=impl.trees[0], typed=bool(spec.get("typed")))
        check_tree(ctx, out, spec, "replay", tree=impl.trees[spec["tree"]], typed=bool(spec.get("typed")))
    else:
        check_tree(ctx, out, tuplify_d(spec), "replay", typed=bool(rp["case"].get("typed")))
    return dict(failures=out.oracle_failures[:5], disagreements=out.disagreements[:5], property_holds=not out.oracle_failures)


def tuplify_d(spec):
    return [((lab if not isinstance(lab, list) else tuple(lab)), tuplify_d(k)) for lab, k in spec]
