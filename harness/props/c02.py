"""C02 — lookups and clone queries reflect exactly the nodes currently in the tree."""
from __future__ import annotations

import core
import histories as H
from props import _hist
from props.c01 import LABELS

LEVEL = "proof"
TRUSTED = [
    "the index is observed through the public queries only (find_all/find_first by data, data_id, node_id; get_clones; is_clone; count_unique; `in`)",
    "the decidable `indexExactB` of lean/Nutree/Spec/WF.lean is evaluated by the driver on the observed state",
]
ASSUMPTIONS = []

PROFILES = [
    dict(name="setdata", typed=False, malformed=0.1, ops=["add", "add", "add", "setdata", "setdata", "setdata", "remove", "move", "addnode", "shortcut"]),
    dict(name="plain", typed=False, malformed=0.1),
    dict(name="hook", typed=False, malformed=0.1, hook=[[0, "k0"], [1, "k1"], [2, None], [18, "item"], [19, "item"], [12, 7]],
         ops=["add", "add", "add", "setdata", "setdata", "remove", "move", "addnode"]),
    dict(name="typed", typed=True, malformed=0.1, ops=["add", "add", "add", "setdata", "setdata", "remove", "addnode", "shortcut"]),
]


def judge(s, r):
    out = []
    if s.oracles.get("index"):
        out.append(("index", s.oracles["index"][0], None))
    # the data_id rule for freshly added data: explicit id, else the tree's callback, else hash(data)
    op = s.op
    if op["op"] == "w.add" and s.impl_res == "ok":
        t = r.impl.trees[op["t"]]
        data = r.pool.objs[op["a"]]
        want = op["did"] if op.get("did") is not None else t.calc_data_id(data)
        new = [n for n in t if n.data is data and n.data_id == want]
        if not new:
            out.append(("dataid-rule", f"after add({data!r}, data_id={op.get('did')!r}) no node carries data_id {want!r}", None))
    if op["op"] == "w.setdata" and s.impl_res == "ok" and not s.problems:
        pass
    for p in s.problems:
        if "find_all(data_id" in p or "count_unique" in p or ("content:" in p and "data_id" in p and s.impl_res == "ok" and s.model_res == "ok"):
            out.append(("lookup", p, None))
            break
    return out


def run(ctx):
    out = core.Outcome(
        rule="random structured histories biased to set_data on single nodes and clone groups (with_clones None/False/True), three id configurations "
        "(hash ids, calc_data_id hook incl. a raising entry and colliding keys, explicit ids), all data flavours; plus every single op on every forest "
        "with <= N nodes. After every step, on the implementation alone: for every data_id present now or earlier, find_all/find_first/get_clones/"
        "is_clone/count_unique return exactly the reachable nodes with that id (Lean indexExactB on the observed state); new nodes obey the id rule; "
        "clone list order equals the model's. non-trivial/distinct as C01"
    )
    ctx.budget_s = ctx.budget(900, 100)
    _hist.fixed_histories(ctx, out, judge, _hist.STALE_HANDLE_HISTORIES)
    n = 4 if ctx.thorough else 3
    _hist.exhaustive_single_ops(ctx, out, judge, max_nodes=n, alphabet=[0, 1, 6],
                                ops_of=lambda impl, ti: [o for o in _hist.all_single_ops(impl, ti, labels=[0, 6, 2]) if o["op"] in ("w.setdata", "w.remove", "w.move", "w.removechildren", "w.del")],
                                label_limit=8 if ctx.thorough else 3)
    _hist.history_campaign(ctx, out, judge, n_hist=1500 if ctx.thorough else 160, n_steps=100 if ctx.thorough else 25, profiles=PROFILES, labels_sets=LABELS)
    # invalid arguments outside the model's alphabet (unhashable ids, a node_id that is in use, ...): the call is refused
    # and the lookup structures are what they were (campaign and oracle of props/c13.py)
    from props import c13 as C13

    C13.unhashable_campaign(ctx, out, [([(0, [(1, []), (0, [])]), (1, [])], False), ([((0, "a"), [((1, "b"), [])]), ((1, "a"), [])], True)])
    return out


def replay(ctx, rp):
    return _hist.replay(ctx, rp, judge)
