"""C19 — load_tree_from_fs mirrors the directory it scanned.

Real temporary directory trees are created, read back with ``os.scandir`` (the listing order
the OS presents, which is also what ``Path.iterdir()`` yields), scanned by the real
``load_tree_from_fs`` and by the Lean model, and judged by an oracle written from the
property text.  Then the tree is saved and loaded again with the FileSystemTree mappers.
"""
from __future__ import annotations

import os
import shutil
import tempfile
from pathlib import Path

import adapter
import core

LEVEL = "proof"
TRUSTED = [
    "os / pathlib semantics: Path.iterdir() yields the entries in the order os.scandir() reports (checked for every directory of "
    "every generated tree), Path.is_dir()/is_file()/stat() report what os.stat() reports; the order in which the OS lists a folder "
    "is an input of the model (arbitrary)",
    "outside the model: symbolic links, special files (neither is_dir() nor is_file(): skipped by the code), permission errors, "
    "a directory that is modified while it is scanned, names that are not valid unicode (surrogateescape)",
    "Python str comparison = code-point order = Lean String order (spot-checked by the concrete Lean example and on every generated name set)",
    "modification times cross the wire as the index of the float value among the distinct st_mtime values of the tree (no floats on the wire); "
    "the float itself is compared on the Python side (entry.mdate == os.stat().st_mtime); json float round trip is exact (repr)",
    "the theorems are about `scan` (recurse, then sort); `visit` transcribes the statement order of the code (sort, then recurse) and is "
    "proved equal (visit_eq_scan); both are executed by the driver and compared on every directory",
    "Tree.save/load file format (C05/C12); here only the FileSystemTree mappers are modelled (serFS/deserFS)",
]
ASSUMPTIONS = [
    "case-sensitive, byte-preserving file system for the temporary directory (Linux tmpfs/ext4): the generated names "
    "'a'/'A', NFC/NFD forms are distinct entries (verified after creation, otherwise machinery error)",
    "names within one folder are distinct (guaranteed by the file system)",
    "nobody else writes below the temporary directory during the run",
]

NAMES = [
    "a", "B", "_x", "1", "10", "2", "é", "Z", ".hidden", "a b", "b", "A", "ab", "a.txt", "É", "z", "_", "~tmp",
    "日本", "a-1", "a_1", "aB", "Ab", " x", "e\u0301", "ß", "0", "-", "Zz", "a b c", "é.txt", "B.txt", "10.txt", "2.txt",
]
SIZES = [0, 0, 1, 2, 3, 10, 255, 256, 4095, 4096, 4097]
PREFIX = "nutree_verif_c19_"


# ---------------------------------------------------------------------------
# generation: spec = [name, is_dir, size, mtime_ns, [children]] in CREATION order


import io  # noqa: E402

from nutree import Tree  # noqa: E402

APP_META = {"app": "scanner", "run": 1}
APP_FILE_META = {}
_PLAIN = Tree("notes")
_PLAIN.add("note").add("sub")


def gen_entries(rng, depth, max_depth, n_lo, n_hi, clock, big):
    n = rng.randint(n_lo, n_hi)
    names = rng.sample(NAMES, n)
    out = []
    for nm in names:
        is_dir = depth < max_depth and rng.random() < (0.5 if depth < 3 else 0.35)
        if is_dir:
            empty = rng.random() < 0.2
            kids = [] if empty else gen_entries(rng, depth + 1, max_depth, 0, 5 if depth < 2 else 3, clock, big)
            out.append([nm, True, 0, None, kids])
        else:
            r = rng.random()
            size = rng.choice(SIZES) if r < 0.7 else rng.randrange(0, big)
            out.append([nm, False, size, clock(), []])
    return out


def gen_spec(rng, thorough):
    used = set()

    def clock():
        while True:
            r = rng.random()
            if r < 0.03:
                ns = 0  # the epoch
            elif r < 0.5:
                ns = rng.randrange(1, 2_000_000_000) * 1_000_000_000  # whole seconds
            else:
                ns = rng.randrange(1, 2_000_000_000) * 1_000_000_000 + rng.randrange(0, 1000) * 1_000_000  # + ms
            if ns not in used:
                used.add(ns)
                return ns

    max_depth = rng.choice([1, 2, 2, 3, 3, 3, 4, 4, 4, 4])
    return gen_entries(rng, 1, max_depth, 1 if rng.random() < 0.9 else 0, 8, clock, 70_000 if thorough else 20_000)


def spec_stats(spec, depth=1):
    n, h, empty = 0, 0, 0
    for nm, is_dir, _s, _m, kids in spec:
        n += 1
        h = max(h, depth)
        if is_dir:
            if not kids:
                empty += 1
            n2, h2, e2 = spec_stats(kids, depth + 1)
            n += n2
            h = max(h, h2)
            empty += e2
    return n, h, empty


# ---------------------------------------------------------------------------
# the real directory


def create(root, spec, rng=None):
    """Create the entries (in the order of `spec`, files before the recursion into dirs is NOT
    enforced: creation order = spec order)."""
    os.mkdir(root)
    for nm, is_dir, size, mtime_ns, kids in spec:
        p = os.path.join(root, nm)
        if is_dir:
            create(p, kids)
        else:
            with open(p, "wb") as f:
                f.write(b"x" * size)
            os.utime(p, ns=(mtime_ns, mtime_ns))
    got = sorted(os.listdir(root))
    want = sorted(e[0] for e in spec)
    if got != want:
        raise core.MachineryError(f"the file system does not keep the generated names apart: wanted {want!r}, got {got!r}")


def read_listing(root):
    """The directory as the OS lists it: [name, is_dir, size, st_mtime(float)|None, [entries]] in os.scandir order."""
    with os.scandir(root) as it:
        ents = list(it)
    via_pathlib = [p.name for p in Path(root).iterdir()]
    if via_pathlib != [e.name for e in ents]:
        raise core.MachineryError(f"Path.iterdir() and os.scandir() list {root} in different orders")
    out = []
    for e in ents:
        st = os.stat(e.path)
        if e.is_dir():
            out.append([e.name, True, 0, None, read_listing(e.path)])
        else:
            out.append([e.name, False, st.st_size, st.st_mtime, []])
    return out


def mtimes_of(listing, acc):
    for _n, is_dir, _s, m, kids in listing:
        if is_dir:
            mtimes_of(kids, acc)
        else:
            acc.add(m)
    return acc


def wire(nested, sur):
    """nested listing / forest -> wire form with integer mtime surrogates (-1: a value that is no mtime of the tree)."""
    return [[n, bool(d), int(s), (None if m is None else sur.get(m, -1)), wire(k, sur)] for n, d, s, m, k in nested]


# ---------------------------------------------------------------------------
# the implementation


def nest_tree(nodes):
    out = []
    for n in nodes:
        d = n.data
        out.append([d.name, d.is_dir, d.size, d.mdate, nest_tree(n.children)])
    return out


def type_problems(nested, path=""):
    for n, d, s, m, k in nested:
        if not isinstance(n, str) or not isinstance(d, bool) or not isinstance(s, int) or isinstance(s, bool) or not (m is None or isinstance(m, float)):
            return f"{path}/{n}: payload types name={type(n).__name__} is_dir={type(d).__name__} size={type(s).__name__} mdate={type(m).__name__}"
        r = type_problems(k, f"{path}/{n}")
        if r:
            return r
    return None


# ---------------------------------------------------------------------------
# the oracle, written from the property text (a checker, not a second implementation)


def oracle_scan(listing, forest, sort, path=""):
    """None if `forest` mirrors `listing` as the property demands, else a description of the first defect."""
    here = path or "/"
    by_name = {}
    for e in listing:
        by_name[e[0]] = e
    names = [k[0] for k in forest]
    # exactly one node per file and sub-directory at this depth
    if sorted(names) != sorted(by_name):
        missing = sorted(set(by_name) - set(names))
        extra = sorted(set(names) - set(by_name))
        dup = sorted({n for n in names if names.count(n) > 1})
        return f"{here}: nodes do not correspond one-to-one to the entries (missing {missing!r}, unexpected {extra!r}, repeated {dup!r})"
    # carrying name, directory flag and (for files) size and modification time
    for n, d, s, m, kids in forest:
        en, ed, es, em, ekids = by_name[n]
        if d != ed:
            return f"{here}{'' if here.endswith('/') else '/'}{n}: is_dir={d!r}, the entry is a {'directory' if ed else 'file'}"
        if ed:
            if s != 0 or m is not None:
                return f"{here}{'' if here.endswith('/') else '/'}{n}: a directory carries size={s!r} mdate={m!r} (FileSystemEntry documents size 0, no mdate)"
        else:
            if s != es or m != em:
                return f"{here}{'' if here.endswith('/') else '/'}{n}: file carries size={s!r} mdate={m!r}, the file has size={es!r} st_mtime={em!r}"
            if kids:
                return f"{here}{'' if here.endswith('/') else '/'}{n}: a file node has children"
    # order
    if sort:
        flags = [k[1] for k in forest]
        if any(a and not b for a, b in zip(flags, flags[1:])):
            return f"{here}: sort=True but a directory precedes a file: {[(k[0], 'd' if k[1] else 'f') for k in forest]!r}"
        fnames = [k[0] for k in forest if not k[1]]
        dnames = [k[0] for k in forest if k[1]]
        for grp, what in ((fnames, "files"), (dnames, "directories")):
            if any(not (a < b) for a, b in zip(grp, grp[1:])):
                return f"{here}: sort=True but the {what} are not in name order: {grp!r}"
    else:
        if names != [e[0] for e in listing]:
            return f"{here}: sort=False but the order {names!r} is not the listing order {[e[0] for e in listing]!r}"
    for n, d, s, m, kids in forest:
        if d:
            r = oracle_scan(by_name[n][4], kids, sort, f"{path}/{n}")
            if r:
                return r
    return None


def first_diff(a, b, path=""):
    if len(a) != len(b):
        return f"{path or '/'}: {len(a)} vs {len(b)} nodes ({[x[0] for x in a]!r} vs {[x[0] for x in b]!r})"
    for x, y in zip(a, b):
        if x[:4] != y[:4]:
            return f"{path or '/'}: {tuple(x[:4])!r} vs {tuple(y[:4])!r}"
        r = first_diff(x[4], y[4], f"{path}/{x[0]}")
        if r:
            return r
    return None


# ---------------------------------------------------------------------------


def tag(v, sur):
    if v is None:
        return None
    if isinstance(v, bool):
        return ["b", v]
    if isinstance(v, str):
        return ["s", v]
    if isinstance(v, float):
        return ["i", sur.get(v, -1)]
    if isinstance(v, int):
        return ["n", v] if v >= 0 else ["i", v]
    raise core.MachineryError(f"record value {v!r}")


def check_dir(ctx, out, spec, sorts=(True, False), label="rand"):
    """Create `spec` on disk, run every check on it. Returns a summary (for replay)."""
    from nutree.fs import FileSystemEntry, FileSystemTree, load_tree_from_fs

    summary = {}
    base = tempfile.mkdtemp(prefix=PREFIX)
    try:
        root = os.path.join(base, "root")
        create(root, spec)
        # scan - rewrite files in place - scan: the directory is scanned once BEFORE every second file gets other content
        # (size) and another modification time; rewriting a file does not touch its folder, so nothing that an earlier scan
        # remembered about a folder may be used by the scans that are judged below
        try:
            load_tree_from_fs(root, sort=True)
            load_tree_from_fs(Path(root), sort=False)
        except Exception:  # noqa  (judged below)
            pass
        k_ = 0
        for dp, dns, fns in os.walk(root):
            for fn in sorted(fns):
                k_ += 1
                if k_ % 2 == 0:
                    fp_ = os.path.join(dp, fn)
                    st_ = os.stat(fp_)
                    with open(fp_, "ab") as f_:
                        f_.write(b"+++")
                    os.utime(fp_, (st_.st_atime, st_.st_mtime + 7.25))
                    out.dist["files_rewritten_after_first_scan"] += 1
        listing = read_listing(root)
        sur = {m: i for i, m in enumerate(sorted(mtimes_of(listing, set())))}
        n_entries, height, n_empty = spec_stats(spec)
        nontriv = n_entries >= 3 and height >= 2
        listing_names_sorted = all(
            [e[0] for e in lst] == sorted(e[0] for e in lst if not e[1]) + sorted(e[0] for e in lst if e[1])
            for lst in all_levels(listing)
        )
        out.dist[f"depth={height}"] += 1
        out.dist["with_empty_folder"] += 1 if n_empty else 0
        out.dist["listing_order_differs_from_sorted"] += 0 if listing_names_sorted else 1
        out.dist["non_ascii_names"] += 1 if any(ord(c) > 127 for n in all_names(listing) for c in n) else 0
        for sort in sorts:
            case = dict(spec=spec, sort=sort)
            out.count(("scan", repr(spec), sort), nontriv)
            out.dist[f"sort={sort}"] += 1
            try:
                # the documented argument types: str or Path (rotated)
                tree = load_tree_from_fs(root if (n_entries + int(sort)) % 2 else Path(root), sort=sort)
                impl = nest_tree(tree.children)
            except Exception as e:  # noqa
                out.fail(case, f"load_tree_from_fs(sort={sort}) raised {type(e).__name__}: {e}", listing=wire(listing, sur))
                continue
            resp = ctx.driver.ask({"op": "fs.scan", "dir": wire(listing, sur), "sort": sort})
            if "fail" in resp:
                raise core.MachineryError(f"driver: {resp}")
            model = resp["ok"]
            if resp["literal"] != model:
                out.disagree(case, f"the two Lean models differ (visit vs scan) at {first_diff(resp['literal'], model)}")
            impl_w = wire(impl, sur)
            summary[f"sort={sort}"] = dict(implementation=impl_w, model=model)
            defect = type_problems(impl) or oracle_scan(listing, impl, sort)
            if not isinstance(tree, FileSystemTree):
                defect = defect or f"result is a {type(tree).__name__}, not a FileSystemTree"
            if defect:
                out.fail(case, f"load_tree_from_fs(sort={sort}): {defect}", listing=wire(listing, sur), implementation=impl_w, model=model)
                continue
            if impl_w != model:
                out.disagree(case, f"load_tree_from_fs(sort={sort}): implementation and model differ at {first_diff(impl_w, model)}",
                             listing=wire(listing, sur), implementation=impl_w, model=model)
            if nontriv and len(out.samples) < 6 and height >= 3:
                out.sample(dict(listing=wire(listing, sur), sort=sort, result=impl_w))

            # --- the mappers, node by node (correspondence with serFS / deserFS)
            reqs, pend = [], []
            for n in tree:
                d = n.data
                try:
                    rec = FileSystemTree.serialize_mapper(n, {})
                    rec_w = [[k, tag(v, sur)] for k, v in rec.items()]
                    back = FileSystemTree.deserialize_mapper(n.parent, dict(rec))
                    back_w = [back.name, back.is_dir, back.size, None if back.mdate is None else sur.get(back.mdate, -1)]
                    ok = (back.name, back.is_dir, back.size, back.mdate) == (d.name, d.is_dir, d.size, d.mdate) and isinstance(back, FileSystemEntry)
                except Exception as e:  # noqa
                    rec_w, back_w, ok = None, "err:" + adapter.err_class(e), False
                if not ok:
                    out.fail(dict(case, phase="mappers", node=d.name),
                             f"deserialize_mapper(serialize_mapper(node)) does not rebuild the payload of {d.name!r}: record {rec_w!r} -> {back_w!r}")
                    break
                reqs.append({"op": "fs.ser", "node": [d.name, d.is_dir, d.size, None if d.mdate is None else sur.get(d.mdate, -1)]})
                pend.append((d.name, rec_w, back_w))
            for (nm, rec_w, back_w), r in zip(pend, ctx.driver.ask_many(reqs)):
                out.count(None, False)
                if "fail" in r:
                    raise core.MachineryError(f"driver: {r}")
                if r["rec"] != rec_w or r["deser"] != back_w:
                    out.disagree(dict(case, phase="mappers", node=nm), f"mapper record of {nm!r}: implementation {rec_w!r} -> {back_w!r}, model {r['rec']!r} -> {r['deser']!r}")
                    break

            # --- save + load with the FileSystemTree mappers
            for compression, explicit in ((False, True), (True, True), (False, False)):
                variant = f"compression={compression}, mapper={'FileSystemTree.deserialize_mapper' if explicit else 'default'}"
                out.count(("rt", repr(spec), sort, compression, explicit), nontriv)
                out.dist["roundtrip " + variant] += 1
                target = os.path.join(base, f"saved_{int(sort)}_{int(compression)}_{int(explicit)}.json")
                rcase = dict(case, phase="roundtrip", compression=compression, explicit_mapper=explicit)
                try:
                    # the application keeps ONE metadata dict for all the files it writes - also those of its other (plain)
                    # trees: nothing of an earlier save may stick to it
                    meta_before = dict(APP_META)
                    plain_fp = io.StringIO()
                    _PLAIN.save(plain_fp, meta=APP_META)
                    tree.save(target, compression=compression, meta=APP_META)
                    if APP_META != meta_before:
                        out.fail(rcase, f"save() changed the caller's metadata dict: {APP_META} (was {meta_before})")
                        APP_META.clear()
                        APP_META.update(meta_before)
                    kw = dict(mapper=FileSystemTree.deserialize_mapper) if explicit else {}
                    # ... and ONE dict that receives the header of every file it loads (first the plain tree's, then the scan's)
                    fm = APP_FILE_META
                    Tree.load(io.StringIO(plain_fp.getvalue()), file_meta=fm)
                    loaded = FileSystemTree.load(target, file_meta=fm, **kw)
                    if any(fm.get(k_) != v_ for k_, v_ in meta_before.items()):
                        out.fail(rcase, f"file_meta {fm} does not contain the stored metadata {meta_before}")
                    back = nest_tree(loaded.children)
                except Exception as e:  # noqa
                    out.fail(rcase, f"save/load of the scanned tree ({variant}) raised {type(e).__name__}: {e}", implementation=impl_w)
                    continue
                defect = type_problems(back) or first_diff(impl, back)
                if not isinstance(loaded, FileSystemTree):
                    defect = defect or f"loaded tree is a {type(loaded).__name__}"
                if not defect and not all(isinstance(n.data, FileSystemEntry) for n in loaded):
                    defect = "a loaded node does not carry a FileSystemEntry"
                summary[f"sort={sort} roundtrip {variant}"] = wire(back, sur)
                if defect:
                    out.fail(rcase, f"save + FileSystemTree.load ({variant}) does not preserve the scanned tree: {defect} (scanned vs loaded)",
                             implementation=impl_w, loaded=wire(back, sur))
    finally:
        shutil.rmtree(base, ignore_errors=True)
    return summary


def all_levels(listing):
    yield listing
    for e in listing:
        if e[1]:
            yield from all_levels(e[4])


def all_names(listing):
    for lst in all_levels(listing):
        for e in lst:
            yield e[0]


FIXED = [
    # the empty directory
    [],
    # one file / one empty folder
    [["a", False, 0, 1_000_000_000, []]],
    [["d", True, 0, None, []]],
    # file and folder whose names sort the other way round; creation order scrambled
    [["a", True, 0, None, [["f", False, 1, 5_000_000_000, []]]], ["b", False, 2, 3_000_000_000, []]],
    [["b", False, 2, 3_000_000_000, []], ["a", True, 0, None, [["f", False, 1, 5_000_000_000, []]]]],
    # sizes sort differently from the names; numeric-looking names; case; unicode
    [["10", False, 1, 9_000_000_000, []], ["2", False, 300, 8_000_000_000, []], ["1", False, 20, 7_000_000_000, []],
     ["a", False, 5, 1_500_000_000, []], ["B", False, 4, 2_500_000_000, []], ["_x", False, 3, 3_500_000_000, []],
     ["é", False, 2, 4_500_000_000, []], ["Z", False, 0, 0, []]],
    # four levels, empty folders at the bottom, same names at different levels
    [["a", True, 0, None, [["a", True, 0, None, [["a", True, 0, None, [["a", False, 7, 1_000_000_123, []], ["B", True, 0, None, []]]],
                                                 ["Z", False, 0, 2_000_000_000, []]]],
                           [".hidden", False, 1, 3_000_000_000, []], ["a b", True, 0, None, []]]],
     ["é", True, 0, None, [["e\u0301", False, 2, 4_000_000_000, []], ["é", False, 3, 5_000_000_000, []]]],
     ["B", False, 9, 6_000_000_000, []]],
]


def run(ctx):
    out = core.Outcome(
        rule="real temporary directory trees: a fixed list of corner cases + random trees (depth <= 4, 0..8 entries per folder, empty folders, "
        "names drawn without replacement from a sort-sensitive alphabet (case, digits '1'/'10'/'2', '_', '.', space, NFC/NFD, CJK), file sizes "
        "0..n bytes written, distinct mtimes set with os.utime incl. the epoch and sub-second values, entries created in random order so that "
        "the OS listing order differs from the sorted order) x sort in {True, False}; judged by (1) the property oracle on the implementation's "
        "tree (one node per entry at the same depth with name/is_dir/size/mdate; files then directories, each name-sorted, when sort=True; "
        "listing order when sort=False), (2) equality with the Lean model on the os.scandir listing, (3) per node deserialize_mapper(serialize_mapper) "
        "against serFS/deserFS, (4) save + FileSystemTree.load (plain, compressed, default mapper) preserving shape, order and payloads. "
        "non-trivial = >= 3 entries and >= 2 levels; distinct = distinct (directory, sort[, save variant])"
    )
    # code-point order of Python str on the alphabet = what the model assumes (UTF-8 byte order is the same order)
    if sorted(NAMES) != sorted(NAMES, key=lambda s: s.encode("utf8")) or sorted(NAMES) != sorted(NAMES, key=lambda s: [ord(c) for c in s]):
        raise core.MachineryError("str order is not code-point order on the alphabet")
    if len(set(NAMES)) != len(NAMES):
        raise core.MachineryError("duplicate names in the alphabet")
    for spec in FIXED:
        check_dir(ctx, out, spec, label="fixed")
        out.dist["fixed"] += 1
    n_trees = 600 if ctx.thorough else 60
    for _ in range(n_trees):
        spec = gen_spec(ctx.rng, ctx.thorough)
        check_dir(ctx, out, spec)
        out.dist["random"] += 1
    left = [d for d in os.listdir(tempfile.gettempdir()) if d.startswith(PREFIX) and os.stat(os.path.join(tempfile.gettempdir(), d)).st_uid == os.getuid()]
    out.extra["temp_dirs_present_after_run"] = len(left)
    return out


def replay(ctx, rp):
    case = rp["case"]
    out = core.Outcome()
    summary = check_dir(ctx, out, case["spec"], sorts=(bool(case["sort"]),), label="replay")
    return dict(
        directory=case["spec"],
        sort=case["sort"],
        results=summary,
        failures=[f["what"] for f in out.oracle_failures[:5]],
        disagreements=[d["what"] for d in out.disagreements[:5]],
        property_holds=not out.oracle_failures,
    )
