"""C13 — refused or failing operations do not corrupt the tree."""
from __future__ import annotations

import io
import itertools
import json
import os
import tempfile
import warnings

import adapter
import core
import gen
import histories as H
from nutree import IterMethod
from props import _hist
from props.c01 import LABELS

LEVEL = "proof"
TRUSTED = [
    "a refusal is observed as one of the library's errors (UniqueConstraintError, AmbiguousMatchError, ValueError, NotImplementedError, AssertionError); "
    "'unchanged' is the equality of the complete observable state (shape, node objects, data objects, ids, kinds, meta, count, count_unique) before and after",
]
ASSUMPTIONS = ["assertions enabled"]

PROFILES = [
    dict(name="malformed", typed=False, malformed=0.6),
    dict(name="malformed-typed", typed=True, malformed=0.5),
    dict(name="collide", typed=False, malformed=0.3, ops=["add", "addnode", "addtree", "copykids", "copykids", "move", "move", "remove", "setdata", "setdata"]),
    dict(name="hook-raises", typed=False, malformed=0.2, hook=[[0, "k0"], [1, None], [2, None], [6, "k0"], [18, None]],
         ops=["add", "add", "add", "setdata", "setdata", "addnode", "move", "remove", "sortfail"]),
]
SMALL = [[0, 1, 2, 6], [0, 1, 18, 19, 2]]


def refused(s):
    """the call was refused: one of the refusal classes, or — for the single-node entry points whose lookup fails
    before anything is touched — the KeyError / raising id callback of `del tree[key]` and the AttributeError of a
    sibling shortcut on the system root (Lean: `refused_unchanged` covers `Op.delItem` / `Op.addVia`)"""
    if s.impl_res in H.REFUSALS:
        return True
    if s.op["op"] == "w.dead" and s.impl_res != "ok":
        return True      # a call on a node that was removed earlier
    if s.op["op"] == "w.del" and s.impl_res in ("key", "callback"):
        return True
    return s.op["op"] == "w.add" and s.op.get("via") in ("prepend_sibling", "append_sibling") and s.impl_res == "attribute"


def judge(s, r):
    out = []
    if refused(s) and s.changed:
        finding = None
        op = s.op
        if op["op"] == "w.remove" and op.get("keep") and op.get("clones") and s.impl_res == "unique" and s.model_res == "unique" and not s.problems:
            # known finding: the clones are removed one after the other; a later clone whose un-nested children
            # collide is refused after earlier clones are gone (the model mirrors this, so the states still agree)
            finding = "KF-C13-remove-keep-clones-partial"
        out.append(("refused-but-changed", f"{H.clean(s.op)} was refused ({s.impl_res}) but the tree changed", finding))
    if s.impl_res in H.REFUSALS and not s.changed:
        bad = {k: v for k, v in s.oracles.items() if v}
        if bad:
            k = sorted(bad)[0]
            out.append(("corrupt-after-refusal", f"{H.clean(s.op)} was refused ({s.impl_res}); afterwards {k}: {bad[k][0]}", None))
    if s.impl_res in ("callback", "recursion", "other", "attribute", "type", "key", "index"):
        bad = {k: v for k, v in s.oracles.items() if v}
        if bad:
            k = sorted(bad)[0]
            out.append(("corrupt-after-exception", f"{H.clean(s.op)} raised ({s.impl_res}); afterwards {k}: {bad[k][0]}", None))
    return out


def sortfail_op(rng, impl, ti, bij):
    t = impl.trees[ti]
    paths = [[]] + H.paths_of(t)
    p = rng.choice(paths)
    par = impl.node(ti, p)
    mids = [bij.i2m.get(id(n)) for n in par.iterator()]
    mids = [m for m in mids if m is not None]
    tbl = {str(m): rng.choice(["a", "b", "c"]) for m in mids}
    if mids:
        tbl[str(rng.choice(mids))] = None   # the key callback raises for this node
    return {"op": "w.sort", "t": ti, "n": p, "key": tbl, "reverse": rng.random() < 0.3, "deep": rng.random() < 0.6, "tree_api": False}


def callback_campaign(ctx, out, n_hist, n_steps):
    """histories in which user callbacks raise: calc_data_id hook entries, sort keys"""
    for h in range(n_hist):
        if ctx.time_left() < 5:
            break
        prof = PROFILES[3]
        cfg = dict(typed=False, hook=prof["hook"], trees=2)
        r, _ = _hist.setup_runner(ctx, cfg)
        log = []
        diverged_at, div_op = None, None
        for i in range(n_steps + _hist.TAIL_STEPS):
            if (i >= n_steps and diverged_at is None) or (diverged_at is not None and i - diverged_at > _hist.TAIL_STEPS):
                break
            ti = 0 if ctx.rng.random() < 0.8 else 1
            x = ctx.rng.random()
            if diverged_at is not None and i - diverged_at <= 4:
                # the operation on which model and implementation parted is repeated (every second time at another place): what
                # ONE swallowed exception leaves behind may be harmless, what the next call finds need not be
                op = dict(div_op)
                if (i - diverged_at) % 2 == 0 and "p" in op and "t" in op:
                    op["p"] = ctx.rng.choice([[]] + H.paths_of(r.impl.trees[op["t"]]))
                    op["before"] = None
                    op.pop("ref", None)
                    if op.get("via") in ("prepend_sibling", "append_sibling"):
                        op.pop("via")
            elif x < 0.2 and r.impl.trees[ti].count:
                op = sortfail_op(ctx.rng, r.impl, ti, r.bij)
            elif x < 0.4 and r.impl.trees[ti].count >= 2:
                # in-place filter whose predicate raises at some node (after other nodes were already rejected / accepted)
                op = H.random_op(ctx.rng, r.impl, ti, labels=SMALL[h % 2], ops=["filter"])
                if op["op"] == "w.filter" and op["v"]:
                    ks = sorted(op["v"])
                    op["v"][ctx.rng.choice(ks[len(ks) // 3:])] = "raiseOther"
                    for k_ in ks[: len(ks) // 2]:
                        if ctx.rng.random() < 0.5 and op["v"][k_] != "raiseOther":
                            op["v"][k_] = "retFalse"
            else:
                op = H.random_op(ctx.rng, r.impl, ti, labels=SMALL[h % 2], malformed=0.2, ops=[o for o in prof["ops"] if o != "sortfail"])
            s = r.step(op)
            log.append(H.clean(op))
            out.evaluations += 1
            out.dist["cb:" + s.impl_res] += 1
            fs = judge(s, r)
            if fs:
                tag, text, finding = fs[0]
                out.fail(dict(cfg=_hist.pub(cfg), log=log), f"[{tag}] {text}", step=s.as_dict(), finding=finding)
                break
            if r.dead and diverged_at is None:
                # the search goes on from the diverged state on the implementation alone (see _hist.history_campaign)
                out.disagree(dict(cfg=_hist.pub(cfg), log=list(log)), f"step {i}: {s.problems[:2]}", step=s.as_dict())
                diverged_at, div_op = i, H.clean(op)
        if len(log) >= 3:
            out.keys.add(core.hash_str(json.dumps(log, sort_keys=True, default=str)))


from booms import CbBoom as Boom, boom  # noqa: E402


def snapshot(tree):
    def w(n):
        return [id(n), id(n.data), repr(n.data_id), getattr(n, "kind", None), json.dumps(n.meta, sort_keys=True, default=str), [w(c) for c in n.children]]

    return [[w(c) for c in tree.children], tree.count, tree.count_unique]


def readonly_ops(tree, k_fail):
    """(name, thunk) pairs of read-only operations; callbacks raise at their k_fail-th invocation"""
    def counting(fn_ok):
        c = itertools.count(1)

        def f(*a, **kw):
            if next(c) == k_fail:
                raise boom()
            return fn_ok(*a, **kw)

        return f

    ops = []
    ops.append(("save", lambda: tree.save(io.StringIO())))
    ops.append(("save-mapper-raises", lambda: tree.save(io.StringIO(), mapper=counting(lambda n, d: d))))
    ops.append(("to_dict_list", lambda: tree.to_dict_list()))
    ops.append(("to_dict_list-mapper-raises", lambda: tree.to_dict_list(mapper=counting(lambda n, d: d))))
    ops.append(("to_dot", lambda: list(tree.to_dot())))
    ops.append(("to_dot-mapper-raises", lambda: list(tree.to_dot(node_mapper=counting(lambda n, d: None)))))
    ops.append(("to_mermaid", lambda: tree.to_mermaid_flowchart(io.StringIO())))
    ops.append(("to_rdf", lambda: tree.to_rdf_graph()))
    ops.append(("format", lambda: tree.format()))
    ops.append(("format-repr-raises", lambda: tree.format(repr=counting(lambda n: "x"))))
    ops.append(("copy", lambda: tree.copy()))
    ops.append(("copy-predicate-raises", lambda: tree.copy(predicate=counting(lambda n: True))))
    ops.append(("filtered", lambda: tree.filtered(lambda n: n.name < "C")))
    ops.append(("find_all-match-raises", lambda: tree.find_all(match=counting(lambda n: True))))
    ops.append(("find_first", lambda: tree.find_first(match=".*1")))
    ops.append(("visit-raises", lambda: tree.visit(counting(lambda n, memo: None))))
    for m in IterMethod:
        ops.append((f"iterator-{m.value}", lambda m=m: list(tree.iterator(m))))
    ops.append(("visit-level", lambda: tree.visit(lambda n, memo: None, method=IterMethod.LEVEL_ORDER)))
    ops.append(("diff", lambda: tree.diff(tree.copy())))
    ops.append(("calc_height", lambda: tree.calc_height()))
    for n in list(tree)[:3]:
        ops.append(("node.copy", lambda n=n: n.copy()))
        ops.append(("node.format", lambda n=n: n.format()))
        ops.append(("node.find_all", lambda n=n: n.find_all(match=lambda x: True)))
        ops.append(("node.to_dict", lambda n=n: n.to_dict()))
    return ops


def readonly_campaign(ctx, out, specs):
    for spec, typed in specs:
        tree = adapter.build(spec, ctx.pool, typed=typed)
        n_nodes = tree.count
        for k_fail in ([0] + list(range(1, min(n_nodes, 4) + 1))):
            for name, thunk in readonly_ops(tree, k_fail):
                before = snapshot(tree)
                try:
                    with warnings.catch_warnings():
                        warnings.simplefilter("ignore")
                        thunk()
                    res = "ok"
                except Boom:
                    res = "callback"
                except Exception as e:  # noqa
                    res = adapter.err_class(e)
                after = snapshot(tree)
                out.evaluations += 1
                out.dist["ro:" + name.split("-")[0]] += 1
                if n_nodes >= 3:
                    out.keys.add(core.hash_str(json.dumps([repr(spec), typed, name, k_fail])))
                if before != after:
                    out.fail(dict(kind="readonly", spec=spec, typed=typed, op=name, k_fail=k_fail),
                             f"[readonly-changed] {name} (callback raising at call {k_fail}, result {res}) changed the tree {spec}")
                try:
                    tree._self_check()
                except Exception as e:  # noqa
                    out.fail(dict(kind="readonly", spec=spec, typed=typed, op=name, k_fail=k_fail), f"[readonly-corrupt] _self_check after {name}: {e!r}")


def unhashable_ops(tree, node):
    """(name, thunk): mutating calls with an argument the library must refuse (an unhashable data_id or data object)"""
    ops = [
        ("add(data_id=[1])", lambda: node.add("N-unh", data_id=[1], **({"kind": "k"} if hasattr(node, "kind") else {}))),
        ("add(data_id={})", lambda: node.add("N-unh", data_id={}, **({"kind": "k"} if hasattr(node, "kind") else {}))),
        ("add([1, 2])", lambda: node.add([1, 2], **({"kind": "k"} if hasattr(node, "kind") else {}))),
        ("set_data(data_id=[1])", lambda: node.set_data("Z-unh", data_id=[1])),
        ("set_data(data_id=[1], with_clones=True)", lambda: node.set_data("Z-unh", data_id=[1], with_clones=True)),
        ("set_data(data_id=[1], with_clones=False)", lambda: node.set_data("Z-unh", data_id=[1], with_clones=False)),
        ("set_data(None, data_id={})", lambda: node.set_data(None, data_id={}, with_clones=True)),
        ("set_data([1, 2])", lambda: node.set_data([1, 2], with_clones=True)),
    ]
    # arguments that the documentation declares invalid, outside the model's operation alphabet
    ops += [
        ("node.filter(None)", lambda: node.filter(None)),
        ("node.filtered(None)", lambda: node.filtered(None)),
        ("tree.filter(None)", lambda: tree.filter(None)),
        ("tree.filtered(None)", lambda: tree.filtered(None)),
        ("tree.find_all()", lambda: tree.find_all()),
        ("tree.find_first()", lambda: tree.find_first()),
        ("tree == tree", lambda: tree == tree),
        ("node.up(0)", lambda: node.up(0)),
        ("node.up(99)", lambda: node.up(99)),
    ]
    first = next(iter(tree))
    kw_ = {"kind": "k"} if hasattr(node, "kind") else {}
    ops += [
        # an explicit node_id that is already in use (AssertionError of the registry)
        ("add(node_id=<in use>)", lambda: node.add("N-dup-nid", node_id=first.node_id, **kw_)),
        ("add(node_id=<own>)", lambda: node.add("N-dup-nid2", node_id=node.node_id, before=True, **kw_)),
    ]
    if hasattr(node, "kind"):
        from nutree import Tree as _PlainTree

        plain = _PlainTree("plain")
        pn = plain.add("P-unh")
        ops += [("typed.add(<plain node>)", lambda: node.add(pn, kind="k")), ("typed.add(<plain tree>)", lambda: node.add(plain, kind="k"))]
    if not node.children and not hasattr(node, "kind"):
        ops.append(("from_dict([{data_id: [1]}])", lambda: node.from_dict([{"data": "x-unh", "data_id": [1]}])))
    return ops


def unhashable_campaign(ctx, out, specs):
    """invalid arguments outside the model's operation alphabet (unhashable ids / data): the call must raise and leave
    the tree exactly as it was (oracle on the implementation alone, from the property text)"""
    for spec, typed in specs:
        probe = adapter.build(spec, ctx.pool, typed=typed)
        n_nodes = probe.count
        for idx in range(n_nodes):
            for k in range(len(unhashable_ops(probe, next(iter(probe))))  + 1):
                tree = adapter.build(spec, ctx.pool, typed=typed)
                node = list(tree)[idx]
                ops = unhashable_ops(tree, node)
                if k >= len(ops):
                    continue
                name, thunk = ops[k]
                before = snapshot(tree)
                try:
                    thunk()
                    res = "ok"
                except Exception as e:  # noqa
                    res = adapter.err_class(e)
                after = snapshot(tree)
                out.evaluations += 1
                out.dist["unhashable:" + name] += 1
                out.dist["unhashable-res:" + res] += 1
                if n_nodes >= 3:
                    out.keys.add(core.hash_str(json.dumps([repr(spec), typed, name, idx])))
                case = dict(kind="unhashable", spec=spec, typed=typed, op=name, node=idx)
                if res == "ok":
                    out.fail(case, f"[accepted] {name} on node #{idx} of {spec} was accepted")
                elif before != after:
                    out.fail(case, f"[refused-but-changed] {name} on node #{idx} of {spec} raised ({res}) but the tree changed")
                try:
                    tree._self_check()
                except Exception as e:  # noqa
                    out.fail(case, f"[corrupt-after-refusal] {name} on node #{idx} of {spec} raised ({res}); afterwards _self_check fails: {e!r}")


CORPUS = [
    # remove(keep_children=True) refused because a NON-FIRST child collides with a sibling: nothing may have changed (parent links!)
    dict(cfg=dict(typed=False, hook=None, trees=2), log=[
        {"op": "w.add", "t": 0, "p": [], "a": 2}, {"op": "w.add", "t": 0, "p": [0], "a": 0}, {"op": "w.add", "t": 0, "p": [0], "a": 1},
        {"op": "w.add", "t": 0, "p": [0], "a": 6}, {"op": "w.add", "t": 0, "p": [], "a": 1},
        {"op": "w.remove", "t": 0, "n": [0], "keep": True, "clones": False}]),
    # KF-C13-remove-keep-clones-partial: X[a[e]], Y[a'[c], c'] ; a'.remove(keep_children=True, with_clones=True)
    dict(cfg=dict(typed=False, hook=None, trees=2), log=[
        {"op": "w.add", "t": 0, "p": [], "a": 0}, {"op": "w.add", "t": 0, "p": [0], "a": 6}, {"op": "w.add", "t": 0, "p": [0, 0], "a": 2},
        {"op": "w.add", "t": 0, "p": [], "a": 1}, {"op": "w.add", "t": 0, "p": [1], "a": 6}, {"op": "w.add", "t": 0, "p": [1, 0], "a": 7},
        {"op": "w.add", "t": 0, "p": [1], "a": 7}, {"op": "w.remove", "t": 0, "n": [1, 0], "keep": True, "clones": True}]),
]


def run_corpus(ctx, out):
    for c in CORPUS:
        fails, steps = _hist.run_log(ctx, c["cfg"], c["log"], judge)
        out.evaluations += len(c["log"])
        for i, (tag, text, finding) in fails:
            out.fail(dict(cfg=c["cfg"], log=c["log"][: i + 1]), f"[{tag}] {text}", step=steps[-1].as_dict(), finding=finding)
        if steps and steps[-1].problems and not fails:
            out.disagree(dict(cfg=c["cfg"], log=c["log"]), f"corpus: {steps[-1].problems[:2]}")


def run(ctx):
    out = core.Outcome(
        rule="fault enumeration used as validation and search: (a) every single op with every invalid argument on every forest <= N nodes and "
        "malformed-heavy random histories: a refused operation must leave the complete observable state equal; (b) histories in which the calc_data_id "
        "hook raises for some data objects and the sort key raises at a chosen node: afterwards the C01-C03 oracles must hold and model = implementation; "
        "(c) every read-only operation (save, to_dict_list, to_dot, mermaid, rdf, format, copy, filtered, find, visit, all iterators, diff) with its "
        "callback raising at the k-th invocation for every k up to 4: the tree must be unchanged. "
        "non-trivial = >= 3 nodes; distinct by content"
    )
    ctx.budget_s = ctx.budget(900, 110)
    _hist.fixed_histories(ctx, out, judge, _hist.STALE_HANDLE_HISTORIES)
    n = 4 if ctx.thorough else 3
    run_corpus(ctx, out)
    _hist.exhaustive_single_ops(ctx, out, judge, max_nodes=n, alphabet=[0, 1], ops_of=lambda impl, ti: _hist.all_single_ops(impl, ti, labels=[0, 1]),
                                label_limit=6 if ctx.thorough else 3)
    _hist.history_campaign(ctx, out, judge, n_hist=900 if ctx.thorough else 90, n_steps=80 if ctx.thorough else 25, profiles=PROFILES[:3], labels_sets=SMALL)
    callback_campaign(ctx, out, 400 if ctx.thorough else 50, 40 if ctx.thorough else 20)
    specs = []
    for k in range(0, 5 if ctx.thorough else 4):
        for shape in gen.forests(k):
            specs.append((gen.distinct_labeling(shape, [0, 1, 2, 6, 7]), False))
    specs.append(([(0, [(6, []), (1, [(6, [])])]), (6, [])], False))
    specs.append(([((0, "a"), [((6, "b"), [])]), ((1, "a"), [((6, "b"), [])])], True))
    readonly_campaign(ctx, out, specs)
    unhashable_campaign(ctx, out, [sp for sp in specs if gen.spec_size(sp[0]) >= 1][-12:] + [
        ([(0, [(6, []), (1, [(6, [])])]), (6, [])], False), ([((0, "a"), [((6, "b"), [])]), ((1, "a"), [((6, "b"), [])])], True)])
    # (e) documents (valid and malformed) on the routes load / from_dict / node.from_dict with mappers that raise: whatever
    # stops the reader, an existing tree stays well-formed (campaign and oracle of props/c03.py)
    from props import c03 as C03

    C03.documents_campaign(ctx, out, scale=0.35)
    return out


def replay(ctx, rp):
    case = rp["case"]
    if case.get("campaign") == "documents":
        from props import c03 as C03

        return C03.replay(ctx, rp)
    if case.get("kind") == "unhashable":
        from props.c10 import tuplify_d
        out = core.Outcome()
        unhashable_campaign(ctx, out, [(tuplify_d(case["spec"]), case["typed"])])
        return dict(failures=[f["what"] for f in out.oracle_failures[:5]], property_holds=not out.oracle_failures)
    if case.get("kind") == "readonly":
        from props.c10 import tuplify_d
        out = core.Outcome()
        readonly_campaign(ctx, out, [(tuplify_d(case["spec"]), case["typed"])])
        return dict(failures=[f["what"] for f in out.oracle_failures[:5]], property_holds=not out.oracle_failures)
    return _hist.replay(ctx, rp, judge)
