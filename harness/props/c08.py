"""C08 — filtering keeps exactly the accepted nodes and their ancestors."""
from __future__ import annotations

import itertools

import adapter
import core
import gen
from nutree.common import SelectBranch, SkipBranch, StopTraversal

LEVEL = "proof"
TRUSTED = ["predicates are modelled as functions of the node (each node is consulted at most once per run)"]
ASSUMPTIONS = ["a predicate returning a truthy value other than True / an IterationControl (e.g. 1, a regex match object) matches no branch of the "
               "implementation and is outside the property's quantifier (recorded in DESIGN.md)"]

# verdict -> spellings
SPELL = {
    "T": ["retTrue"],
    "F": ["retFalse", "retNone"],
    "S": ["retSkipInst", "retSkipCls", "raiseSkip"],
    "S0": ["retSkipSelfInst", "raiseSkipSelf"],
    "B": ["retSelectInst", "retSelectCls", "raiseSelect"],
    "X": ["retStopInst", "retStopCls", "raiseStop", "raiseStopIter"],
}
VERDICTS = list(SPELL)


from booms import CbBoom as Boom, boom  # noqa: E402


def make_pred(table, ser, calls=None):
    def pred(node):
        tag = table.get(str(ser.of(node)), "retFalse")
        if calls is not None:
            calls.append(ser.of(node))
        if tag == "retTrue":
            return True
        if tag == "retFalse":
            return False
        if tag == "retNone":
            return None
        if tag == "retSkipInst":
            return SkipBranch()
        if tag == "retSkipSelfInst":
            return SkipBranch(and_self=False)
        if tag == "retSelectInst":
            return SelectBranch()
        if tag == "retStopInst":
            return StopTraversal()
        if tag == "retSkipCls":
            return SkipBranch
        if tag == "retSelectCls":
            return SelectBranch
        if tag == "retStopCls":
            return StopTraversal
        if tag == "raiseSkip":
            raise SkipBranch
        if tag == "raiseSkipSelf":
            raise SkipBranch(and_self=False)
        if tag == "raiseSelect":
            raise SelectBranch
        if tag == "raiseStop":
            raise StopTraversal
        if tag == "raiseStopIter":
            raise StopIteration
        if tag == "retOther":
            return 1
        if tag == "raiseOther":
            raise boom()
        raise AssertionError(tag)

    return pred


def ids_forest(nodes, ser):
    return [[ser.of(n), ids_forest(n.children, ser)] for n in nodes]


def strip(f):
    """model forest json -> [id, kids]"""
    return [[n[0], strip(n[5])] for n in f]


def shape(f):
    """forest json -> (atom, did, kids) without identities / kinds"""
    return [[n[1], n[2], shape(n[5])] for n in f]


def one_case(ctx, out, spec, typed, path, table, rot):
    """in-place and copying form on fresh trees built from spec"""
    pool = ctx.pool
    res = {}
    # ---- in place
    tree = adapter.build(spec, pool, typed=typed)
    ser = adapter.Serials()
    ser.by_obj[id(tree.system_root)] = 0
    ser.keep.append(tree.system_root)
    tj = adapter.tree_json(tree, ser, pool)
    start = adapter.node_at(tree, path)
    pred = make_pred(table, ser)
    try:
        (tree if not path else start).filter(pred)
        r_in = "ok"
    except Boom:
        r_in = "callback"
    except Exception as e:  # noqa
        r_in = adapter.err_class(e)
    impl_in = ids_forest(start.children if r_in != "attribute" else [], ser)
    try:
        tree._self_check()
        sane = True
    except Exception:  # noqa
        sane = False
    case = dict(spec=spec, typed=typed, path=list(path), v=table)
    m = ctx.driver.ask({"op": "flt.inplace", "t": tj, "typed": typed, "path": list(path), "v": table})
    if "fail" in m:
        raise core.MachineryError(f"driver {m}")
    spec_in = strip(m["spec"])
    has_err = any(t in ("raiseOther", "retOther") for t in table.values())
    if not has_err:
        if r_in != "ok" or impl_in != spec_in or not sane:
            out.fail(dict(case, form="inplace"), f"filter() at {list(path)} with {table}: result {r_in} {impl_in}, self_check={sane}; specified {spec_in}",
                     impl=impl_in, spec=spec_in, model=strip(m["model"]))
        elif impl_in != strip(m["model"]) or r_in != m["res"]:
            out.disagree(dict(case, form="inplace"), f"filter(): impl {impl_in} / {r_in}, model {strip(m['model'])} / {m['res']}")
    else:
        if impl_in != strip(m["model"]) or r_in != m["res"]:
            out.disagree(dict(case, form="inplace"), f"filter() with failing/unspecified predicate: impl {impl_in} / {r_in}, model {strip(m['model'])} / {m['res']}")
        if not sane:
            out.fail(dict(case, form="inplace"), f"filter() with raising predicate left a corrupt tree ({table})")
    # ---- copy
    tree2 = adapter.build(spec, pool, typed=typed)
    ser2 = adapter.Serials()
    ser2.by_obj[id(tree2.system_root)] = 0
    ser2.keep.append(tree2.system_root)
    tj2 = adapter.tree_json(tree2, ser2, pool)
    start2 = adapter.node_at(tree2, path)
    pred2 = make_pred(table, ser2)
    before = adapter.tree_json(tree2, ser2, pool)
    try:
        cp = (tree2.filtered(pred2) if not path else start2.filtered(pred2)) if next(rot) % 2 else (tree2.copy(predicate=pred2) if not path else start2.copy(predicate=pred2))
        r_cp = "ok"
    except Boom:
        r_cp = "callback"
        cp = None
    except Exception as e:  # noqa
        r_cp = adapter.err_class(e)
        cp = None
    after = adapter.tree_json(tree2, ser2, pool)
    if before != after:
        out.fail(dict(case, form="copy"), f"filtered() changed the source tree ({table})")
    m2 = ctx.driver.ask({"op": "flt.copy", "t": tj2, "typed": typed, "path": (list(path) if path else None), "v": table})
    if "fail" in m2:
        raise core.MachineryError(f"driver {m2}")
    serc = adapter.Serials()
    cpj = adapter.tree_json(cp, serc, pool) if cp is not None else None
    if not has_err:
        spec_sh = shape(m2["spec"])
        if r_cp == "ok":
            if shape(cpj) == spec_sh:
                pass
            else:
                # is the deviation exactly the known duplicate (D11)?
                st = ctx.driver.ask({"op": "flt.strip", "src": (tj2 if not path else None) or sub_json(tj2, path), "copy": (cpj if not path else (cpj[0][5] if len(cpj) == 1 else cpj)), "v": table})
                stripped = st.get("stripped")
                if path and len(cpj) == 1:
                    stripped_sh = [[cpj[0][1], cpj[0][2], shape(stripped)]]
                else:
                    stripped_sh = shape(stripped) if stripped is not None else None
                finding = "KF-C08-filtered-duplicates" if stripped_sh == spec_sh else None
                out.fail(dict(case, form="copy"), f"filtered() at {list(path)} with {table}: copy {shape(cpj)}, specified {spec_sh}", impl=shape(cpj), spec=spec_sh, finding=finding)
        else:
            # refused copies: only acceptable as a consequence of the duplicate (child clone of its accepted parent)
            finding = "KF-C08-filtered-duplicates" if r_cp == "unique" and m2["res"] == "unique" else None
            out.fail(dict(case, form="copy"), f"filtered() at {list(path)} with {table} raised {r_cp}; specified {spec_sh}", finding=finding)
    if (r_cp, shape(cpj) if cpj is not None else None) != (m2["res"], shape(m2["model"]) if m2["res"] == "ok" else None):
        out.disagree(dict(case, form="copy"), f"filtered(): impl {r_cp} {shape(cpj) if cpj is not None else None}, model {m2['res']} {shape(m2['model'])}")
    # ---- copy of the children only: node.copy(add_self=False, predicate=) == the filtered copy of the branch's child forest
    if path and not has_err and next(rot) % 2 == 0:
        tree3 = adapter.build(spec, pool, typed=typed)
        ser3 = adapter.Serials()
        ser3.by_obj[id(tree3.system_root)] = 0
        ser3.keep.append(tree3.system_root)
        tj3 = adapter.tree_json(tree3, ser3, pool)
        start3 = adapter.node_at(tree3, path)
        try:
            cp3 = start3.copy(add_self=False, predicate=make_pred(table, ser3))
            r3 = "ok"
        except Boom:
            r3, cp3 = "callback", None
        except Exception as e:  # noqa
            r3, cp3 = adapter.err_class(e), None
        sub = sub_json(tj3, path)
        m3 = ctx.driver.ask({"op": "flt.copy", "t": sub, "typed": typed, "path": None, "v": table})
        if "fail" in m3:
            raise core.MachineryError(f"driver {m3}")
        c3 = adapter.tree_json(cp3, adapter.Serials(), pool) if cp3 is not None else None
        out.dist["copy_add_self_false"] += 1
        spec3 = shape(m3["spec"])
        if r3 == "ok" and shape(c3) != spec3:
            st = ctx.driver.ask({"op": "flt.strip", "src": sub, "copy": c3, "v": table})
            finding = "KF-C08-filtered-duplicates" if st.get("stripped") is not None and shape(st["stripped"]) == spec3 else None
            out.fail(dict(case, form="copy-children"), f"copy(add_self=False, predicate=) at {list(path)} with {table}: copy {shape(c3)}, specified {spec3}",
                     impl=shape(c3), spec=spec3, finding=finding)
        elif r3 != "ok":
            finding = "KF-C08-filtered-duplicates" if r3 == "unique" and m3["res"] == "unique" else None
            out.fail(dict(case, form="copy-children"), f"copy(add_self=False, predicate=) at {list(path)} with {table} raised {r3}; specified {spec3}", finding=finding)
    return res


def sub_json(tj, path):
    cur = tj
    node = None
    for i in path:
        node = cur[i]
        cur = node[5]
    return cur


def tables_for(ids, verdicts_choice, rot):
    tbl = {}
    for i, v in zip(ids, verdicts_choice):
        sp = SPELL[v]
        tbl[str(i)] = sp[next(rot) % len(sp)]
    return tbl


def run(ctx):
    out = core.Outcome(
        rule="every ordered forest with <= N nodes x every assignment of the 6 verdicts {True, False/None, SkipBranch, SkipBranch(and_self=False), SelectBranch, "
        "StopTraversal} to its nodes (spelling - returned instance, returned class, raised - chosen round-robin), applied to the tree and to every branch, "
        "in place and as filtered()/copy(predicate=); larger trees with random assignments; raising predicates. "
        "in place: result == filterSpec and _self_check; copy: result == filterSpec (or exactly the known duplicate pattern), source unchanged. "
        "non-trivial = >= 3 nodes and >= 2 distinct verdicts; distinct = (tree, start, assignment)"
    )
    rot = itertools.count()
    n_ex = 4 if ctx.thorough else 3
    labels = [0, 1, 2, 3, 4, 6, 7]
    n_cases = 0
    for n in range(0, n_ex + 1):
        for shape_ in gen.forests(n):
            spec = gen.distinct_labeling(shape_, labels)
            ids = list(range(1, n + 1))   # serials are assigned in pre-order by adapter.tree_json
            for choice in itertools.product(VERDICTS, repeat=n):
                tbl = tables_for(ids, choice, rot)
                for path in [()] + ([p for p in gen.all_paths(spec)] if n <= 3 else []):
                    one_case(ctx, out, spec, False, path, tbl, rot)
                    n_cases += 1
                    out.count((repr(spec), path, repr(sorted(tbl.items()))), n >= 3 and len(set(choice)) >= 2)
                for v in choice:
                    out.dist["verdict:" + v] += 1
    out.exhaustive = True
    out.extra["exhaustive_scope"] = f"all forests <= {n_ex} nodes x all 6^n verdict assignments x all start nodes"
    # clones (child clone of its accepted parent, equal data below different parents), typed, larger random
    n_rand = 1500 if ctx.thorough else 250
    for k in range(n_rand):
        n = ctx.rng.randrange(4, 12)
        typed = k % 5 == 4
        if typed:
            shape_ = gen.random_shape(ctx.rng, n)
            cnt = itertools.count()
            spec = gen.label_forest(shape_, ({"a": next(cnt) % 12, "k": ctx.rng.choice("ab")} for _ in range(n)))
            if not gen.sibling_unique(spec, key=lambda l: l["a"]):
                continue
        else:
            spec = gen.random_spec(ctx.rng, n, [0, 1, 2, 6], clone_rate=0.4)
        size = gen.spec_size(spec)
        ids = list(range(1, size + 1))
        weights = [3, 4, 1, 1, 1, 1] if k % 3 else [2, 4, 1, 1, 1, 0]
        choice = ctx.rng.choices(VERDICTS, weights=weights, k=size)
        tbl = tables_for(ids, choice, rot)
        if k % 7 == 6 and ids:
            tbl[str(ctx.rng.choice(ids))] = ctx.rng.choice(["raiseOther", "retOther"])
        if not typed and k % 6 == 3:
            # siblings whose data compare EQUAL (the same string, equal-but-distinct objects) under distinct explicit ids: a
            # rejected node must be taken out by identity, not by `==`
            cnt2 = itertools.count(1)

            def eq(sp):
                return [({"a": ctx.rng.choice([0, 0, 18, 19]), "did": 4000 + next(cnt2)}, eq(kids)) for lab, kids in sp]

            spec = eq(spec)
            out.dist["eq_sibling_tree"] += 1
        paths = [()] + list(gen.all_paths(spec))
        path = paths[0] if k % 2 else ctx.rng.choice(paths)
        one_case(ctx, out, spec, typed, path, tbl, rot)
        out.count((repr(spec), path, repr(sorted(tbl.items()))), True)
        out.dist["random" + ("_typed" if typed else "")] += 1
        if k < 3:
            out.sample(dict(tree=spec, start=list(path), verdicts=tbl))
    return out


def replay(ctx, rp):
    from props.c10 import tuplify_d

    case = rp["case"]
    out = core.Outcome()
    one_case(ctx, out, tuplify_d(case["spec"]), case["typed"], tuple(case["path"]), case["v"], itertools.count())
    fails = [f for f in out.oracle_failures if not f.get("finding")]
    return dict(failures=[f["what"] for f in out.oracle_failures[:4]], property_holds=not fails)
