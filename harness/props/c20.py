"""C20 — build_random_tree produces a tree that conforms to its structure definition.

"For all seeds" is proved in Lean as "for all draw streams" (lean/Nutree/Properties/C20.lean).
The correspondence run ties the model to nutree/tree_generator.py: for one call of
`build_random_tree` every function of the module `random` (and fabulist) is replaced by a recording
wrapper; the recorded stream (function, arguments, result) is replayed by the model, which must
produce exactly the same tree.  Independently, the ORACLE (written from the property text) judges
the implementation's tree.
"""
from __future__ import annotations

import random as _random
from datetime import date, timedelta
from fractions import Fraction

import core

LEVEL = "proof"
TRUSTED = [
    "the quality of Python's PRNG: 'for all seeds' is proved as 'for all draw streams'; that `random.randrange(a, b)` returns a <= r < b and "
    "`random.sample(l, 1, counts=c)` returns an element of l with a positive count is the documented contract of `random`, which the model "
    "requires of an admissible stream (and the harness observes on every recorded draw)",
    "the content of fabulist texts (TextRandomizer / BlindTextRandomizer): each generated text is one opaque draw",
    "the float arithmetic of `random.uniform`: its result is an opaque draw; min <= v <= max is checked on the Python side only",
    "`str.format` is modelled for `{idx}`, `{hier_idx}`, `{{`, `}}` (other fields: error); the oracle uses Python's own str.format",
    "the recording wrappers installed on the module object `random` / on `nutree.tree_generator.fab` for the duration of one call",
]
ASSUMPTIONS = [
    "acyclic relation graphs (the real code recurses forever on a cycle whose counts are >= 1)",
    "node data factory is the default DictWrapper, no `:callback`; format strings use plain `{idx}` / `{hier_idx}` fields (no conversions / format specs)",
    "relation / spec dictionaries are Python dicts (unique keys); every type default carries a marker attribute `ty` so that the node type is observable in plain trees",
]

RECORDED = ["random", "randrange", "randint", "uniform", "choice", "choices", "sample", "shuffle", "getrandbits", "gauss", "triangular"]
EPOCH = date(1970, 1, 1)
COLON_KEYS = (":count", ":callback", ":factory")


# ---------------------------------------------------------------------------
# values <-> wire


def enc(v):
    if v is None:
        return None
    if isinstance(v, bool):
        return {"b": v}
    if isinstance(v, int):
        return {"i": v}
    if isinstance(v, float):
        n, d = v.as_integer_ratio()
        return {"f": [n, d]}
    if isinstance(v, str):
        return {"s": v}
    if isinstance(v, date) and type(v) is date:
        return {"d": v.toordinal()}
    raise core.MachineryError(f"C20: value outside the model: {v!r}")


def dec(w):
    if w is None:
        return None
    if "b" in w:
        return bool(w["b"])
    if "i" in w:
        return int(w["i"])
    if "f" in w:
        return float(Fraction(w["f"][0], w["f"][1]))
    if "s" in w:
        return w["s"]
    if "d" in w:
        return date.fromordinal(w["d"])
    raise core.MachineryError(f"C20: bad wire value {w!r}")


def encp(p):
    n, d = float(p).as_integer_ratio()
    return [n, d]


def decp(w):
    return float(Fraction(w[0], w[1]))


def dec_sval(w):
    """wire spec value -> constant or Randomizer instance"""
    import nutree.tree_generator as tg

    if "factory" in w:
        from nutree.common import DictWrapper

        return DictWrapper
    if "r" not in w:
        return dec(w.get("c"))
    r = w["r"]
    p = decp(r["p"])
    k = r["k"]
    if k == "rangeInt":
        return tg.RangeRandomizer(r["min"], r["max"], probability=p, none_value=dec(r.get("nv")))
    if k == "rangeFlt":
        return tg.RangeRandomizer(dec(r["min"]), dec(r["max"]), probability=p, none_value=dec(r.get("nv")))
    if k == "date":
        lo = date.fromordinal(r["min"])
        hi = lo + timedelta(days=r["delta"]) if r.get("maxdate") else r["delta"]
        return tg.DateRangeRandomizer(lo, hi, as_js_stamp=r["stamp"], probability=p)
    if k == "value":
        return tg.ValueRandomizer(dec(r.get("v")), probability=p)
    if k == "sparse":
        return tg.SparseBoolRandomizer(probability=p)
    if k == "sample":
        return tg.SampleRandomizer([dec(x) for x in r["vals"]], counts=r.get("counts"), probability=p)
    if k == "text":
        if r.get("blind") is not None:
            kw = dict(r["blind"])
            for kk in ("sentence_count", "words_per_sentence"):
                if isinstance(kw.get(kk), list):
                    kw[kk] = tuple(kw[kk])
            return tg.BlindTextRandomizer(probability=p, **kw)
        return tg.TextRandomizer(r["template"], probability=p)
    raise core.MachineryError(f"C20: bad wire randomizer {r!r}")


def dec_spec(ws):
    return {k: dec_sval(v) for k, v in ws}


def dec_def(wire):
    """wire definition -> the `structure_def` dict passed to build_random_tree"""
    d = {}
    if wire.get("name") is not None:
        d["name"] = wire["name"]
    if wire.get("types") is not None:
        d["types"] = {t: dec_spec(s) for t, s in wire["types"]}
    d["relations"] = {pt: {nt: dec_spec(s) for nt, s in rels} for pt, rels in wire["relations"]}
    return d


# ---------------------------------------------------------------------------
# random structure definitions (wire form; pure JSON, so a replay file holds the whole input)

TYPE_NAMES = ["a", "b", "c", "d", "fn", "x y"]
KEYS = ["title", "n", "flag", "when", "pick", "txt", "note"]
PROBS = [1.0, 1.0, 0.5, 0.25, 0.9, 0.0]


def g_prob(rng, force_lt1=False):
    p = rng.choice(PROBS[2:] if force_lt1 else PROBS)
    if rng.random() < 0.15:
        p = rng.random()
    return encp(p)


def g_const(rng, dist):
    k = rng.randrange(10)
    if k == 0:
        return None
    if k == 1:
        return {"b": rng.random() < 0.5}
    if k == 2:
        return {"i": rng.randrange(-5, 100)}
    if k == 3:
        return {"f": list(rng.choice([0.5, 1.25, -3.0, 0.1]).as_integer_ratio())}
    if k == 4:
        return {"d": date(2020, 1, 1).toordinal() + rng.randrange(1000)}
    if k == 5:
        dist["const:str_plain"] += 1
        return {"s": rng.choice(["", "plain", "no macros here", "ünï ✓"])}
    dist["const:str_macro"] += 1
    return {"s": rng.choice(["{idx}", "{hier_idx}", "#{idx} of {hier_idx}", "{{{idx}}}", "{{lit}} {hier_idx}.", "{idx}{idx}", "}}{{{hier_idx}"])}


def g_randomizer(rng, dist):
    k = rng.randrange(10)
    p = g_prob(rng)
    if k == 0:
        lo = rng.randrange(-5, 10)
        dist["rnd:RangeRandomizer(int)"] += 1
        nv = rng.choice([None, None, {"i": -1}, {"s": "n/a"}, {"s": "none@{idx}"}])
        return {"r": {"k": "rangeInt", "min": lo, "max": lo + rng.randrange(1, 8), "p": p, "nv": nv}}
    if k == 1:
        lo = rng.choice([0.0, -1.5, 0.25, 10.0])
        dist["rnd:RangeRandomizer(float)"] += 1
        nv = rng.choice([None, None, {"f": [-1, 1]}, {"i": 0}])
        return {"r": {"k": "rangeFlt", "min": enc(lo), "max": enc(lo + rng.choice([0.5, 1.0, 7.75])), "p": p, "nv": nv}}
    if k == 2:
        dist["rnd:DateRangeRandomizer"] += 1
        return {"r": {"k": "date", "min": date(1965, 1, 1).toordinal() + rng.randrange(25000), "delta": rng.randrange(1, 40),
                      "maxdate": rng.random() < 0.5, "stamp": rng.random() < 0.6, "p": p}}
    if k == 3:
        dist["rnd:ValueRandomizer"] += 1
        return {"r": {"k": "value", "v": g_const(rng, dist), "p": p}}
    if k == 4:
        dist["rnd:SparseBoolRandomizer"] += 1
        return {"r": {"k": "sparse", "p": g_prob(rng, force_lt1=rng.random() < 0.7)}}
    if k in (5, 6):
        n = rng.randrange(1, 5)
        vals = [g_const(rng, dist) for _ in range(n)]
        counts = None
        if k == 6:
            counts = [rng.randrange(0, 4) for _ in range(n)]
            if sum(counts) == 0:
                counts[rng.randrange(n)] = 1
        dist["rnd:SampleRandomizer" + ("(counts)" if counts else "")] += 1
        return {"r": {"k": "sample", "vals": vals, "counts": counts, "p": p}}
    if k == 7:
        dist["rnd:BlindTextRandomizer"] += 1
        return {"r": {"k": "text", "p": p, "blind": {"sentence_count": rng.choice([1, [1, 2]]), "words_per_sentence": [2, 4],
                                                       "dialect": "ipsum", "entropy": rng.choice([1, 2, 3]), "keep_first": rng.random() < 0.3}}}
    dist["rnd:TextRandomizer"] += 1
    tmpl = rng.choice(["{idx}: Provide $(Noun:plural)", "$(Noun) not provided", "$(Verb:ing) the $(adj) $(noun) at {hier_idx}",
                       ["{idx} $(Noun)", "$(Adj) {hier_idx}"], "fixed text {idx}"])
    return {"r": {"k": "text", "p": p, "template": tmpl}}


def g_count(rng, dist):
    k = rng.randrange(10)
    if k == 9:
        if rng.random() < 0.5:
            dist["count:ValueRandomizer"] += 1
            return {"r": {"k": "value", "v": {"i": rng.choice([1, 2, 3])}, "p": g_prob(rng, True)}}
        dist["count:SampleRandomizer"] += 1
        vals = [rng.choice([None, {"i": 0}, {"i": 1}, {"i": 2}, {"i": 3}]) for _ in range(rng.randrange(1, 4))]
        return {"r": {"k": "sample", "vals": vals, "counts": None, "p": g_prob(rng)}}
    if k <= 3:
        dist["count:fixed"] += 1
        return {"c": {"i": rng.choice([0, 1, 2, 2, 3, 3])}}
    lo = rng.choice([0, 0, 1, 1, 2])
    hi = rng.randrange(lo + 1, 5)
    if k <= 5:
        dist["count:RangeRandomizer"] += 1
        return {"r": {"k": "rangeInt", "min": lo, "max": hi, "p": encp(1.0), "nv": None}}
    if k <= 6:
        dist["count:RangeRandomizer(p<1)"] += 1
        return {"r": {"k": "rangeInt", "min": lo, "max": hi, "p": g_prob(rng, True), "nv": None}}
    dist["count:RangeRandomizer(p<1,none_value)"] += 1
    return {"r": {"k": "rangeInt", "min": lo, "max": hi, "p": g_prob(rng, True), "nv": {"i": rng.choice([0, 1, 2])}}}


def g_attrs(rng, dist, lo, hi):
    out = []
    for key in rng.sample(KEYS, rng.randrange(lo, hi + 1)):
        out.append([key, g_randomizer(rng, dist) if rng.random() < 0.55 else {"c": g_const(rng, dist)}])
    return out


def g_def(rng, dist):
    nt = rng.choice([1, 2, 3, 3, 4, 4])
    names = rng.sample(TYPE_NAMES, nt)
    types = []
    if rng.random() < 0.7:
        star = g_attrs(rng, dist, 0, 3)
        if rng.random() < 0.5:
            star.insert(rng.randrange(len(star) + 1), ["ty", {"c": {"s": "*"}}])
        if rng.random() < 0.5:
            star.append(["src", {"c": {"s": "star {idx}"}}])
        if rng.random() < 0.15:
            star.append([":count", g_count(rng, dist)])
            dist["count:from '*' defaults"] += 1
        types.append(["*", star])
        dist["star_defaults"] += 1
    # a node type that is used in `relations` but has NO entry of its own in `types` (only the '*' defaults and the
    # relation spec apply to it); its type marker `ty` then comes from the relation spec
    absent = {rng.choice(names)} if rng.random() < 0.25 else set()
    if absent:
        dist["type_without_entry"] += 1
    for t in names:
        if t in absent:
            continue
        s = g_attrs(rng, dist, 0, 2)
        s.insert(rng.randrange(len(s) + 1), ["ty", {"c": {"s": t}}])
        s.insert(rng.randrange(len(s) + 1), ["at", {"c": {"s": "{idx}@{hier_idx}"}}])
        if rng.random() < 0.4:
            s.append(["src", {"c": {"s": "type"}}])
        if rng.random() < 0.2:
            s.append([":count", g_count(rng, dist)])
            dist["count:from type defaults"] += 1
        types.append([t, s])
    rng.shuffle(types)
    relations = []
    parents = ["__root__"] + [t for t in names if rng.random() < 0.85]
    for pt in parents:
        lvl = -1 if pt == "__root__" else names.index(pt)
        cands = names[lvl + 1:]
        k = min(len(cands), rng.choice([1, 1, 2, 2, 3]) if pt == "__root__" or rng.random() < 0.9 else 0)
        rels = []
        chosen = rng.sample(cands, k)
        if chosen and cands[0] not in chosen and rng.random() < 0.7:
            chosen[rng.randrange(len(chosen))] = cands[0]  # favour deep chains
        for ct in chosen:
            s = g_attrs(rng, dist, 0, 4)
            s = [kv for kv in s if kv[0] != "ty"]
            if ct in absent:
                s.insert(rng.randrange(len(s) + 1), ["ty", {"c": {"s": ct}}])
            if rng.random() < 0.4:
                s.append(["src", {"c": {"s": "rel"}}])
            if rng.random() < 0.85:
                cnt = g_count(rng, dist)
                if pt == "__root__" and cnt == {"c": {"i": 0}} and rng.random() < 0.8:
                    cnt = {"c": {"i": 3}}
                s.insert(rng.randrange(len(s) + 1), [":count", cnt])
            else:
                dist["count:default"] += 1
            rels.append([ct, s])
        if pt != "__root__" and rng.random() < 0.12:
            # a CYCLE in the relation graph (folder -> folder): the recursion ends because the count is 0 with high probability
            # (probability < 1 and none_value 0, at most one child)
            back = pt      # a self-loop only: a cycle through other types multiplies by their counts and need not die out
            s = [["src", {"c": {"s": "cycle {hier_idx}"}}]]
            if back in absent:
                s.append(["ty", {"c": {"s": back}}])
            s.append([":count", {"r": {"k": "rangeInt", "min": 1, "max": 2, "p": encp(rng.choice([0.15, 0.25])), "nv": {"i": 0}}}])
            rels.append([back, s])
            dist["cyclic_relation"] += 1
        relations.append([pt, rels])
    tail = relations[1:]
    rng.shuffle(tail)
    wire = {"types": types, "relations": [relations[0]] + tail if rng.random() < 0.5 else tail + [relations[0]]}
    if rng.random() < 0.3:
        wire["name"] = "generated"
    bad = False
    if rng.random() < 0.03:
        # an unknown / malformed replacement field: str.format raises (if such a node is created at all)
        _, rels = rng.choice(wire["relations"])
        if rels:
            rng.choice(rels)[1].append(["bad", {"c": {"s": rng.choice(["{nosuch}", "{}", "open { brace", "close } brace", "{0}"])}}])
            bad = True
            dist["bad_format_string"] += 1
    return wire, bad


def doc_examples():
    """the two structure definitions of docs/sphinx/ug_randomize.rst (plus the type marker `ty`)"""
    one = encp(1.0)

    def c(v):
        return {"c": enc(v)}

    def text(t):
        return {"r": {"k": "text", "p": one, "template": t}}

    def rng_(lo, hi):
        return {"r": {"k": "rangeInt", "min": lo, "max": hi, "p": one, "nv": None}}

    ex1 = {
        "types": [["TYPE_1", [["ty", c("TYPE_1")]]], ["TYPE_2", [["ty", c("TYPE_2")]]]],
        "relations": [
            ["__root__", [["TYPE_1", [[":count", c(10)], ["ATTR_1", c("This is a top node")], ["ATTR_2", c(True)], ["ATTR_3", c(42)]]]]],
            ["TYPE_1", [["TYPE_2", [[":count", c(3)], ["title", c("This is a child node of TYPE_1")]]]]],
        ],
    }
    ex2 = {
        "name": "fmea",
        "types": [
            ["*", [[":factory", {"factory": "DictWrapper"}]]],
            ["function", [["icon", c("gear")], ["ty", c("function")]]],
            ["failure", [["icon", c("exclamation")], ["ty", c("failure")]]],
            ["cause", [["icon", c("tools")], ["ty", c("cause")]]],
            ["effect", [["icon", c("lightning")], ["ty", c("effect")]]],
        ],
        "relations": [
            ["__root__", [["function", [[":count", c(3)], ["title", text(["{idx}: Provide $(Noun:plural)"])],
                                        ["details", {"r": {"k": "text", "p": one, "blind": {"dialect": "ipsum"}}}], ["expanded", c(True)]]]]],
            ["function", [["failure", [[":count", rng_(1, 3)], ["title", text("$(Noun:plural) not provided")]]]]],
            ["failure", [["cause", [[":count", rng_(1, 3)], ["title", text("$(Noun:plural) not provided")]]],
                         ["effect", [[":count", rng_(1, 3)], ["title", text("$(Noun:plural) not provided")]]]]],
        ],
    }
    return [ex1, ex2]


# ---------------------------------------------------------------------------
# recording the draws of one build_random_tree call


class Recorder:
    def __init__(self):
        self.log = []
        self.depth = 0  # > 0 while fabulist runs (its own use of `random` belongs to the opaque text)

    def wrap(self, name, f):
        def w(*a, **k):
            r = f(*a, **k)
            if self.depth == 0:
                self.log.append(self.draw(name, a, k, r))
            return r

        return w

    @staticmethod
    def draw(name, a, k, r):
        if name == "random" and not a and not k:
            return ["rand", *r.as_integer_ratio()]
        if name == "randrange" and not k and len(a) in (1, 2) and all(type(x) is int for x in a):
            lo, hi = (0, a[0]) if len(a) == 1 else a
            return ["randrange", lo, hi, r]
        if name == "uniform" and not k and len(a) == 2:
            return ["uniform", enc(a[0]), enc(a[1]), enc(r)]
        if name == "sample" and len(a) == 2 and a[1] == 1 and set(k) <= {"counts"} and isinstance(r, list) and len(r) == 1:
            pop, counts = list(a[0]), k.get("counts")
            for i, x in enumerate(pop):
                if type(x) is type(r[0]) and x == r[0] and (counts is None or counts[i] > 0):
                    return ["sample", [enc(x) for x in pop], None if counts is None else list(counts), i]
            return ["other", "sample: result not in the population"]
        return ["other", f"{name}/{len(a)}"]


class FabProxy:
    def __init__(self, real, rec):
        self._real = real
        self._rec = rec

    def _call(self, meth, a, k):
        self._rec.depth += 1
        try:
            r = getattr(self._real, meth)(*a, **k)
        finally:
            self._rec.depth -= 1
        if self._rec.depth == 0:
            self._rec.log.append(["text", r])
        return r

    def get_quote(self, *a, **k):
        return self._call("get_quote", a, k)

    def get_lorem_paragraph(self, *a, **k):
        return self._call("get_lorem_paragraph", a, k)

    def __getattr__(self, name):
        return getattr(self._real, name)


def run_impl(sdef, typed, seed):
    """seed `random`, install the wrappers, call build_random_tree, uninstall. -> (tree | exception, draws)"""
    import nutree.tree_generator as tg
    from nutree import Tree
    from nutree.typed_tree import TypedTree

    cls = TypedTree if typed else Tree
    rec = Recorder()
    saved = {n: getattr(_random, n) for n in RECORDED}
    saved_fab = tg.fab
    state = _random.getstate()
    _random.seed(seed)
    try:
        for n, f in saved.items():
            setattr(_random, n, rec.wrap(n, f))
        if saved_fab is not None:
            tg.fab = FabProxy(saved_fab, rec)
        try:
            res = cls.build_random_tree(sdef)
        except RecursionError as e:
            # the generated definitions end their recursion (acyclic relation graphs, or cycles whose count is 0 with
            # probability >= 0.75 per level): unbounded recursion is a failure of the implementation
            res = e
        except Exception as e:  # noqa
            res = e
    finally:
        for n, f in saved.items():
            setattr(_random, n, f)
        tg.fab = saved_fab
        _random.setstate(state)
    return cls, res, rec.log


# ---------------------------------------------------------------------------
# the implementation's tree as data


def node_type(node):
    d = node.data._dict
    return d.get("ty") if isinstance(d.get("ty"), str) else None


def impl_forest(nodes):
    out = []
    for n in nodes:
        d = n.data._dict
        out.append([node_type(n), getattr(n, "kind", None), [[k, enc(v)] for k, v in d.items()], impl_forest(n.children)])
    return out


def forest_stats(f, depth=1):
    n, h = 0, 0
    for _, _, _, kids in f:
        cn, ch = forest_stats(kids, depth + 1)
        n += 1 + cn
        h = max(h, depth, ch)
    return n, h


# ---------------------------------------------------------------------------
# ORACLE: the property text, evaluated on the implementation's tree


def same(a, b):
    return type(a) is type(b) and a == b


class FormatError:
    """str.format raised: a node with this attribute cannot exist (equal to nothing)"""

    def __repr__(self):
        return "<str.format raises>"


def fmt(v, i, p):
    if not isinstance(v, str):
        return v
    try:
        return v.format(idx=i, hier_idx=p)
    except (KeyError, IndexError, ValueError):
        return FormatError()


def count_ok(cnt, n):
    """the number n of children created for a relation whose merged spec has `:count` = cnt"""
    import nutree.tree_generator as tg

    def num(x):  # the number of children a count value stands for (None: nothing is created)
        if x is None:
            return 0
        if isinstance(x, bool) or not isinstance(x, int):
            raise core.MachineryError(f"C20 oracle: count value outside the generated class: {x!r}")
        return max(x, 0)

    if isinstance(cnt, tg.Randomizer):
        skipped = {num(cnt.none_value if isinstance(cnt, tg.RangeRandomizer) else None)} if cnt.probability < 1.0 else set()
        if isinstance(cnt, tg.RangeRandomizer) and not cnt.is_float:
            return cnt.min <= n < cnt.max or n in skipped
        if isinstance(cnt, tg.ValueRandomizer):
            return n == num(cnt.value) or n in skipped
        if isinstance(cnt, tg.SampleRandomizer):
            cs = cnt.counts or [1] * len(cnt.sample_list)
            return n in {num(x) for x, c in zip(cnt.sample_list, cs) if c > 0} or n in skipped
        raise core.MachineryError(f"C20 oracle: count spec outside the generated class: {cnt!r}")
    return n == num(cnt)


def may_be_absent(r):
    import nutree.tree_generator as tg

    if isinstance(r, tg.SampleRandomizer):
        cs = r.counts or [1] * len(r.sample_list)
        if any(x is None and c > 0 for x, c in zip(r.sample_list, cs)):
            return True
    if isinstance(r, tg.ValueRandomizer) and r.value is None:
        return True
    if r.probability < 1.0:
        return r.none_value is None if isinstance(r, tg.RangeRandomizer) else True
    return False


def value_ok(r, v, i, p):
    """v is a value the randomizer r may have produced for the node with index i / path p"""
    import nutree.tree_generator as tg

    if v is None:
        return False  # skipped => absent
    if isinstance(r, tg.RangeRandomizer):
        if r.probability < 1.0 and r.none_value is not None and same(v, fmt(r.none_value, i, p)):
            return True
        if r.is_float:
            return type(v) is float and r.min <= v <= r.max
        return type(v) is int and r.min <= v < r.max
    if isinstance(r, tg.DateRangeRandomizer):
        if r.as_js_stamp:
            if type(v) is not float or v % 86400000.0 != 0:
                return False
            v = EPOCH + timedelta(days=int(v // 86400000))
            return r.min <= v <= r.max
        return type(v) is date and r.min <= v <= r.max
    if isinstance(r, tg.ValueRandomizer):  # includes SparseBoolRandomizer (value True)
        return same(v, fmt(r.value, i, p))
    if isinstance(r, tg.SampleRandomizer):
        cs = r.counts or [1] * len(r.sample_list)
        return any(c > 0 and x is not None and same(v, fmt(x, i, p)) for x, c in zip(r.sample_list, cs))
    if isinstance(r, (tg.TextRandomizer, tg.BlindTextRandomizer)):
        # the text itself is fabulist's; the macros of the template must have been expanded
        return type(v) is str and "{idx}" not in v and "{hier_idx}" not in v
    raise core.MachineryError(f"C20 oracle: unknown randomizer {r!r}")


def oracle(sdef, cls, typed, tree):
    """-> list of violations (strings) of the property by `tree`"""
    import nutree.tree_generator as tg

    bad = []
    if type(tree) is not cls:
        return [f"result is a {type(tree).__name__}, requested {cls.__name__}"]
    if "name" in sdef and tree.name != sdef["name"]:
        bad.append(f"tree name {tree.name!r} != {sdef['name']!r}")
    types = sdef.get("types", {})
    relations = sdef["relations"]

    def check(parent, ptype, prefix):
        kids = list(parent.children)
        if ptype not in relations:
            if kids:
                bad.append(f"node of type {ptype!r} at {prefix!r} has children but no relations")
            return
        pos = 0
        for ntype, spec in relations[ptype].items():
            merged = {**types.get("*", {}), **types.get(ntype, {}), **spec}
            n = 0
            while pos + n < len(kids) and node_type(kids[pos + n]) == ntype:
                n += 1
            if not count_ok(merged.get(":count", 1), n):
                bad.append(f"{n} children of type {ntype!r} below {ptype!r} at {prefix!r}: not admitted by :count = {describe(merged.get(':count', 1))}")
            for i in range(1, n + 1):
                node = kids[pos + i - 1]
                p = f"{prefix}.{i}" if prefix else f"{i}"
                where = f"node {ntype!r} #{p}"
                if typed:
                    if getattr(node, "kind", None) != ntype:
                        bad.append(f"{where}: kind {getattr(node, 'kind', None)!r}, expected the type name")
                elif hasattr(node, "kind"):
                    bad.append(f"{where}: plain tree node has a kind")
                if not isinstance(node.data, tg.DictWrapper):
                    bad.append(f"{where}: data is {type(node.data).__name__}")
                    continue
                data = dict(node.data._dict)
                for key, sv in merged.items():
                    if key in COLON_KEYS:
                        continue
                    if isinstance(sv, tg.Randomizer):
                        if key not in data:
                            if not may_be_absent(sv):
                                bad.append(f"{where}: attribute {key!r} missing although {describe(sv)} cannot be skipped")
                        elif not value_ok(sv, data[key], i, p):
                            bad.append(f"{where}: attribute {key!r} = {data[key]!r} is not a value of {describe(sv)}"
                                       + (" (a skipped attribute must be absent)" if data[key] is None else ""))
                    elif key not in data:
                        bad.append(f"{where}: attribute {key!r} missing")
                    elif not same(data[key], fmt(sv, i, p)):
                        bad.append(f"{where}: attribute {key!r} = {data[key]!r}, expected {fmt(sv, i, p)!r} (merge of '*', type and relation spec, idx={i}, hier_idx={p!r})")
                    data.pop(key, None)
                if data:
                    bad.append(f"{where}: attributes {sorted(data)} are not part of the merged spec")
                check(node, ntype, p)
            pos += n
        if pos < len(kids):
            t = node_type(kids[pos])
            if t not in relations[ptype]:
                bad.append(f"child of type {t!r} below {ptype!r} at {prefix!r}: not a type {ptype!r} may have ({list(relations[ptype])})")
            else:
                bad.append(f"children below {ptype!r} at {prefix!r} are not grouped in relation order: {[node_type(k) for k in kids]}")

    check(tree.system_root, "__root__", "")
    return bad


def describe(x):
    import nutree.tree_generator as tg

    if isinstance(x, tg.Randomizer):
        d = {k: v for k, v in vars(x).items() if k not in ("is_float",)}
        return f"{type(x).__name__}({d})"
    return repr(x)


# ---------------------------------------------------------------------------


def request(wire, typed, draws):
    # fuel bounds the nesting depth of the model's recursion; `Gen.fuel_irrelevant`: any sufficient value gives the same tree
    # (relation graphs may be cyclic: the depth is then decided by the draws)
    return {"op": "gen.build", "typed": typed, "fuel": 80, "types": wire.get("types") or [], "relations": wire["relations"], "draws": draws}


def evaluate(wire, typed, seed, has_bad):
    """-> (case, impl summary, oracle violations, driver request)"""
    sdef = dec_def(wire)
    cls, res, draws = run_impl(sdef, typed, seed)
    case = dict(defn=wire, typed=typed, seed=seed, bad_format=has_bad)
    if isinstance(res, Exception):
        impl = {"err": type(res).__name__ + ": " + str(res)[:120]}
        viol = [] if has_bad and isinstance(res, (KeyError, IndexError, ValueError)) else [f"build_random_tree raised {impl['err']}"]
    else:
        viol = oracle(sdef, cls, typed, res)
        try:
            impl = {"ok": impl_forest(res.system_root.children)}
        except core.MachineryError:
            if viol:
                impl = {"ok": None}
            else:
                raise
    return case, impl, viol, request(wire, typed, draws)


def judge(out, case, impl, viol, resp):
    if "fail" in resp:
        raise core.MachineryError(f"driver: {resp}")
    short = dict(case)
    if viol:
        out.fail(case, f"build_random_tree({'TypedTree' if case['typed'] else 'Tree'}, seed={case['seed']}): " + "; ".join(viol[:3]),
                 violations=viol[:10], implementation=impl, model=resp)
        return
    if "err" in impl:
        if "err" not in resp:
            out.disagree(short, f"implementation raised {impl['err']}, the model builds a tree")
        return
    if "err" in resp:
        out.disagree(short, f"the model rejects the recorded draw stream ({resp['err']}); implementation built {forest_stats(impl['ok'])[0]} nodes")
    elif resp["ok"] != impl["ok"]:
        out.disagree(short, f"trees differ: impl {first_diff(impl['ok'], resp['ok'])}")
    elif resp["unused"] != 0:
        out.disagree(short, f"the model left {resp['unused']} recorded draws unused")


def first_diff(a, b, path="/"):
    if len(a) != len(b):
        return f"{path}: {len(a)} vs {len(b)} children"
    for i, (x, y) in enumerate(zip(a, b)):
        for j, nm in enumerate(["type", "kind", "attrs"]):
            if x[j] != y[j]:
                return f"{path}{i} {nm}: {x[j]!r} vs model {y[j]!r}"
        d = first_diff(x[3], y[3], f"{path}{i}/")
        if d:
            return d
    return ""


def run(ctx):
    out = core.Outcome(
        rule="random structure definitions: acyclic relation graphs over <= 4 node types (relation dicts in random order, 0..3 child types per parent), "
        ":count absent / fixed 0..3 / RangeRandomizer(lo, hi) with 0 <= lo < hi <= 4 (also probability < 1, with and without none_value; also inherited "
        "from '*' / type defaults), 0..4 attributes per level ('*' defaults, type defaults, relation spec; shared key pool so that overrides occur) with "
        "constants (None, bool, int, float, date, plain strings, strings with {idx} / {hier_idx} / {{ }}) and every randomizer class (RangeRandomizer int "
        "and float, DateRangeRandomizer date / JS stamp, ValueRandomizer, SparseBoolRandomizer, SampleRandomizer with and without counts, TextRandomizer "
        "with {idx} templates, BlindTextRandomizer) with probabilities 1.0 / 0.0 / 0.25 / 0.5 / 0.9 / random; Tree and TypedTree; one seed of `random` "
        "per definition. oracle = property text on the implementation's tree; correspondence = model replays the recorded draws and must build the same "
        "tree. non-trivial = >= 3 nodes and >= 2 levels; distinct = distinct (definition, class, seed)"
    )
    n_defs = 6000 if ctx.thorough else 800
    batch = []
    fixed = [(w, t) for w in doc_examples() for t in (False, True)]
    for k in range(n_defs):
        if k < len(fixed):
            (wire, typed), has_bad = fixed[k], False
            out.dist["documentation example"] += 1
        else:
            wire, has_bad = g_def(ctx.rng, out.dist)
            typed = ctx.rng.random() < 0.5
        seed = ctx.rng.randrange(1 << 32)
        case, impl, viol, req = evaluate(wire, typed, seed, has_bad)
        batch.append((case, impl, viol, req))
        n, h = forest_stats(impl["ok"]) if impl.get("ok") else (0, 0)
        out.count(("c20", core.hash_str(repr(wire)), typed, seed), n >= 3 and h >= 2)
        out.dist["TypedTree" if typed else "Tree"] += 1
        out.dist["outcome:" + ("raised" if "err" in impl else "tree")] += 1
        out.dist[f"nodes:{'0' if n == 0 else '1-9' if n < 10 else '10-99' if n < 100 else '100+'}"] += 1
        out.dist["draws:" + ("0" if not req["draws"] else "1-9" if len(req["draws"]) < 10 else "10-99" if len(req["draws"]) < 100 else "100+")] += 1
        for d in req["draws"]:
            out.dist["draw:" + d[0]] += 1
        if n >= 6 and h >= 2 and len(out.samples) < 6 and k % 7 == 0:
            out.sample(dict(definition=wire, cls="TypedTree" if typed else "Tree", seed=seed, draws=len(req["draws"]), nodes=n, levels=h))
        if len(batch) >= 100:
            flush(ctx, out, batch)
    flush(ctx, out, batch)
    return out


def flush(ctx, out, batch):
    # one request at a time: a request / reply can exceed the pipe buffer, so write-all-then-read-all could block
    resps = [ctx.driver.ask(b[3]) for b in batch]
    for (case, impl, viol, _), resp in zip(batch, resps):
        judge(out, case, impl, viol, resp)
    batch.clear()


def replay(ctx, rp):
    case = rp["case"]
    out = core.Outcome()
    c, impl, viol, req = evaluate(case["defn"], case["typed"], case["seed"], case.get("bad_format", False))
    resp = ctx.driver.ask(req)
    judge(out, c, impl, viol, resp)
    return dict(
        implementation=impl,
        model=resp,
        recorded_draws=req["draws"][:50],
        oracle_violations=viol[:10],
        disagreements=[d["what"] for d in out.disagreements],
        property_holds=not out.oracle_failures,
    )
