"""C17 — DOT, Mermaid and RDF exports describe exactly the tree's edges."""
from __future__ import annotations

import io
import itertools
import json
import re

import adapter
import core
import gen

LEVEL = "proof"
TRUSTED = [
    "the parsers of this module (emitted DOT / Mermaid text -> declared nodes + edges; rdflib graph -> triples); "
    "the text skeleton around the node/edge lines is only checked loosely",
    "rdflib: Graph is a set of triples, Literal(x).toPython() returns x for int/str, bool(Literal(x)) == bool(x)",
    "str(int)/str(str) as printed by the f-strings identifies the data_id / node_id (the harness uses int data_ids and the tokens of the tree's own ids)",
]
ASSUMPTIONS = [
    "node identities are unique within a tree (C01)",
    "kinds are non-empty strings (Mermaid uses the typed edge template only for a truthy kind)",
    "no node carries the data_id '__root__' of the system root",
]

GEN_DOT = "# Generator: https://github.com/mar10/nutree/"
GEN_MM = "%% Generator: https://github.com/mar10/nutree/"
NS = "http://wwwendt.de/namespace/nutree/rdf/0.1/"



class ParseError(Exception):
    pass


def canon_did(pool, did):
    """pool.canon_did, except that the data_id 0 stays 0: the pool canonicalises hash('') == 0 to a
    non-zero stand-in, which would hide the falsiness of the data_id of the objects 0 and ''."""
    if isinstance(did, int) and did == 0:
        return 0
    return pool.canon_did(did)


def node_json(node, ser, pool):
    return [ser.of(node), pool.index_of(node.data), canon_did(pool, node.data_id), getattr(node, "kind", None), None,
            [node_json(ch, ser, pool) for ch in node.children]]


def tree_json(tree, ser, pool):
    return [node_json(ch, ser, pool) for ch in tree.children]


# ---------------------------------------------------------------------------
# parsers


def parse_dot(lines, tree_name):
    """-> (node declarations [(token, label|None, shape|None)], edges [(ptoken, ctoken, label|None)])."""
    if len(lines) < 6 or lines[0] != GEN_DOT:
        raise ParseError(f"DOT: first line is not the generator comment: {lines[:1]!r}")
    if not (lines[1].startswith('digraph "') and lines[1].endswith('" {')):
        raise ParseError(f"DOT: no digraph header: {lines[1]!r}")
    if lines[1] != f'digraph "{tree_name}" {{':
        raise ParseError(f"DOT: graph is not named after the tree: {lines[1]!r}")
    if lines[-1] != "}":
        raise ParseError(f"DOT: last line {lines[-1]!r}")
    try:
        i_n = lines.index("  # Node Definitions")
        i_e = lines.index("  # Edge Definitions")
    except ValueError:
        raise ParseError("DOT: section comments missing") from None
    if not i_n < i_e:
        raise ParseError("DOT: sections out of order")
    for l in lines[2:i_n]:
        if l.strip():
            raise ParseError(f"DOT: unexpected line before the node section: {l!r}")
    nodes, edges = [], []
    for l in lines[i_n + 1 : i_e]:
        if not l.strip():
            continue
        m = re.fullmatch(r"  (\S+)(?: \[(.*)\])?", l)
        if not m or "->" in m.group(1):
            raise ParseError(f"DOT: not a node statement: {l!r}")
        label = shape = None
        if m.group(2) is not None:
            a = re.fullmatch(r'label="(.*?)"(?: shape="(\w+)")?', m.group(2))
            if not a:
                raise ParseError(f"DOT: attribute list {m.group(2)!r}")
            label, shape = a.group(1), a.group(2)
        nodes.append((m.group(1), label, shape))
    for l in lines[i_e + 1 : -1]:
        if not l.strip():
            continue
        m = re.fullmatch(r'  (\S+) -> (\S+)(?: \[label="(.*)"\])?', l)
        if not m:
            raise ParseError(f"DOT: not an edge statement: {l!r}")
        edges.append((m.group(1), m.group(2), m.group(3)))
    return nodes, edges


def parse_mermaid(lines, as_markdown, title, start_name):
    """-> (nodes [(idx, name, is_root_shape)], edges [(pidx, cidx, kind|None)])."""
    ls = list(lines)
    if as_markdown:
        if not ls or ls[0] != "```mermaid" or ls[-1] != "```":
            raise ParseError(f"Mermaid: markdown fence missing: {ls[:1]!r} .. {ls[-1:]!r}")
        ls = ls[1:-1]
    elif ls and ls[0].startswith("```"):
        raise ParseError("Mermaid: unexpected markdown fence")
    if title:
        if ls[:3] != ["---", f"title: {start_name}", "---"]:
            raise ParseError(f"Mermaid: title block {ls[:3]!r}")
        ls = ls[3:]
    elif ls and ls[0] == "---":
        raise ParseError("Mermaid: unexpected title block")
    try:
        i_g = ls.index(GEN_MM)
        i_f = next(i for i, l in enumerate(ls) if l.startswith("flowchart "))
        i_n = ls.index("%% Nodes:")
        i_e = ls.index("%% Edges:")
    except (ValueError, StopIteration):
        raise ParseError("Mermaid: generator comment / flowchart / section comments missing") from None
    if not i_g < i_f < i_n < i_e:
        raise ParseError("Mermaid: sections out of order")
    if any(l.strip() for l in ls[:i_g]):
        raise ParseError("Mermaid: text before the generator comment")
    nodes, edges = [], []
    for l in ls[i_n + 1 : i_e]:
        if not l.strip():
            continue
        m = re.fullmatch(r'(\d+)\("(.*)"\)', l)
        if m:
            nodes.append((int(m.group(1)), m.group(2), False))
            continue
        m = re.fullmatch(r'(\d+)\{\{"(.*)"\}\}', l)
        if m:
            nodes.append((int(m.group(1)), m.group(2), True))
            continue
        raise ParseError(f"Mermaid: not a node line: {l!r}")
    for l in ls[i_e + 1 :]:
        if not l.strip():
            continue
        m = re.fullmatch(r"(\d+) --> (\d+)", l)
        if m:
            edges.append((int(m.group(1)), int(m.group(2)), None))
            continue
        m = re.fullmatch(r'(\d+)-- "(.*)" -->(\d+)', l)
        if m:
            edges.append((int(m.group(1)), int(m.group(3)), m.group(2)))
            continue
        raise ParseError(f"Mermaid: not an edge line: {l!r}")
    return nodes, edges


def parse_rdf(graph, pool):
    """-> list of triples in the driver's wire form (subject None = the system_root resource)."""
    import rdflib

    out = []
    for s, p, o in graph:
        if not str(p).startswith(NS):
            raise ParseError(f"RDF: foreign predicate {p!r}")
        pred = str(p)[len(NS) :]
        if isinstance(s, rdflib.URIRef):
            if str(s) != NS + "system_root":
                raise ParseError(f"RDF: subject {s!r}")
            subj = None
        elif isinstance(s, rdflib.Literal):
            subj = canon_did(pool, s.toPython())
        else:
            raise ParseError(f"RDF: subject {s!r}")
        if not isinstance(o, rdflib.Literal):
            raise ParseError(f"RDF: object {o!r}")
        if pred == "has_child":
            obj = canon_did(pool, o.toPython())
        elif pred in ("name", "kind"):
            obj = str(o)
        elif pred == "index":
            obj = int(o.toPython())
        else:
            raise ParseError(f"RDF: predicate {pred}")
        out.append([pred, subj, obj])
    return out


def tsort(triples):
    return sorted({json.dumps(t, ensure_ascii=False) for t in triples})


# ---------------------------------------------------------------------------
# calling the implementation


def uses_mappers(variant):
    return (variant // 2) % 2 == 1


# what the application's mappers return: ONE dict that the application owns and re-uses (the DOT mappers change the attribute dict
# they are given in place; what they return is not part of the documented protocol and must not leak into the output)
APP_DOT_RESULT = {"app": "cache"}


def _dot_node_mapper(node, data):
    data["tag"] = "n"
    return APP_DOT_RESULT


def _dot_edge_mapper(node, data):
    data["etag"] = "e"
    return APP_DOT_RESULT


def strip_dot_mapper_attrs(lines):
    """with the mappers above every node statement carries tag="n" and every edge statement etag="e" (after the standard
    attributes): check that, and take them out again so that the plain parser applies"""
    try:
        i_n, i_e = lines.index("  # Node Definitions"), lines.index("  # Edge Definitions")
    except ValueError:
        return lines
    out = []
    for i, l in enumerate(lines):
        sect = "n" if i_n < i < i_e else ("e" if i_e < i < len(lines) - 1 else None)
        if sect and l.strip():
            attr = ' tag="n"' if sect == "n" else ' etag="e"'
            if l.endswith(" [" + attr[1:] + "]"):
                l = l[: -len(" [" + attr[1:] + "]")]
            elif l.endswith(attr + "]"):
                l = l[: -len(attr + "]")] + "]"
            else:
                raise ParseError(f"DOT: the attribute set by the application's {'node' if sect == 'n' else 'edge'}_mapper is missing or misplaced: {l!r}")
            if "app=" in l or "cache" in l:
                raise ParseError(f"DOT: what the application's mapper RETURNED shows up in the output: {l!r}")
        out.append(l)
    if APP_DOT_RESULT != {"app": "cache"}:
        bad = dict(APP_DOT_RESULT)
        APP_DOT_RESULT.clear()
        APP_DOT_RESULT.update({"app": "cache"})
        raise ParseError(f"DOT: the export wrote into the dict that the application's mapper returned: {bad}")
    return out


def call_impl(tree, node, path, fmt, unique, add_self, variant):
    """The raw output of the real export (lines resp. an rdflib graph)."""
    is_tree = not path
    if fmt == "dot":
        mkw = dict(node_mapper=_dot_node_mapper, edge_mapper=_dot_edge_mapper) if uses_mappers(variant) else {}
        if is_tree:
            if (variant // 7) % 2:
                s = io.StringIO()
                tree.to_dotfile(s, add_root=add_self, unique_nodes=unique, **mkw)
                txt = s.getvalue()
                if txt and not txt.endswith("\n"):
                    raise ParseError("to_dotfile: last line not terminated")
                lines = txt.split("\n")[:-1]
            else:
                lines = list(tree.to_dot(add_root=add_self, unique_nodes=unique, **mkw))
        else:
            lines = list(node.to_dot(add_self=add_self, unique_nodes=unique, **mkw))
        return strip_dot_mapper_attrs(lines) if mkw else lines
    if fmt == "mermaid":
        as_md, title = mermaid_flags(variant)
        s = io.StringIO()
        if is_tree:
            tree.to_mermaid_flowchart(s, add_root=add_self, unique_nodes=unique, as_markdown=as_md, title=title)
        else:
            node.to_mermaid_flowchart(s, add_self=add_self, unique_nodes=unique, as_markdown=as_md, title=title)
        txt = s.getvalue()
        if txt and not txt.endswith("\n"):
            raise ParseError("to_mermaid_flowchart: last line not terminated")
        return txt.split("\n")[:-1]
    if fmt == "rdf":
        mkw = {}
        handled = []
        if uses_mappers(variant) and not (is_tree and add_self):     # Tree.to_rdf_graph() takes no mapper
            import rdflib

            def node_mapper(graph, graph_node, tree_node):
                # the application describes LEAVES with even names itself (returns False: "no standard attributes"); every other
                # node gets one extra triple.  The parent-to-child edge is the export's business in both cases.
                if not tree_node.children and len(tree_node.name) % 2 == 0:
                    graph.add((graph_node, rdflib.URIRef(NS + "app_leaf"), rdflib.Literal(tree_node.name)))
                    handled.append(tree_node)
                    return False
                graph.add((graph_node, rdflib.URIRef(NS + "app_seen"), rdflib.Literal(True)))
                return None

            mkw["node_mapper"] = node_mapper
        if is_tree and add_self:
            g = tree.to_rdf_graph(**mkw)
        else:
            g = node.to_rdf_graph(add_self=add_self, **mkw)
        if mkw:
            g = undo_rdf_mapper(g, handled, node, add_self)
        return g
    raise ValueError(fmt)


def undo_rdf_mapper(g, handled, start, add_self):
    """check the application's own triples, take them out, and put the standard attributes of the nodes the application
    described itself back in (they must be absent), so that the plain parser and the specification apply"""
    import rdflib

    seen_p, leaf_p = rdflib.URIRef(NS + "app_seen"), rdflib.URIRef(NS + "app_leaf")
    ns = rdflib.Namespace(NS)
    own = {id(n) for n in handled}
    visited = [n for n in start] + ([start] if add_self and not start.is_system_root() else [])
    for n in visited:
        lit = rdflib.Literal(n.data_id)
        if id(n) in own:
            if (lit, leaf_p, rdflib.Literal(n.name)) not in g:
                raise ParseError(f"RDF: the triple added by the application's node_mapper for {n.name!r} is missing")
        elif (lit, seen_p, rdflib.Literal(True)) not in g and not any(m.data_id == n.data_id and id(m) in own for m in visited):
            raise ParseError(f"RDF: the node_mapper was not called for {n.name!r} (or its triple is missing)")
    g.remove((None, seen_p, None))
    g.remove((None, leaf_p, None))
    for n in handled:
        lit = rdflib.Literal(n.data_id)
        others = [m for m in visited if m.data_id == n.data_id and id(m) not in own]
        if not others and ((lit, ns["name"], None) in g):
            raise ParseError(f"RDF: standard attributes were written for {n.name!r} although its node_mapper returned False")
    for n in handled:
        lit = rdflib.Literal(n.data_id)
        if hasattr(n, "kind"):
            g.add((lit, ns["kind"], rdflib.Literal(n.kind)))
        g.add((lit, ns["name"], rdflib.Literal(n.name)))
        if n is not start:      # the start node itself is exported without an index
            par = n.parent if n.parent is not None else n.tree.system_root
            g.add((lit, ns["index"], rdflib.Literal([i for i, c in enumerate(par.children) if c is n][0], datatype=rdflib.XSD.integer)))
    return g


def mermaid_flags(variant):
    return [(False, False), (True, True), (True, False), (False, True)][(variant // 3) % 4]


class Keys:
    """token <-> canonical key tables of one tree."""

    def __init__(self, tree, ser, pool):
        self.did = {"__root__": "__root__"}
        self.nid = {str(tree.system_root.node_id): 0}
        for n in tree:
            self.did[str(n.data_id)] = canon_did(pool, n.data_id)
            self.nid[str(n.node_id)] = ser.of(n)

    def key(self, token, unique):
        tbl = self.did if unique else self.nid
        if token not in tbl:
            raise ParseError(f"key {token!r} is not a {'data_id' if unique else 'node_id'} of the tree")
        return tbl[token]


# ---------------------------------------------------------------------------
# one case


def case_of(spec, typed, path, fmt, unique, add_self, variant):
    return dict(spec=spec, typed=typed, path=list(path), fmt=fmt, unique=unique, addSelf=add_self, variant=variant)


def request(tj, c):
    return {"op": "graph", "t": tj, "name": "t", "typed": c["typed"], "path": c["path"], "fmt": c["fmt"],
            "unique": c["unique"], "addSelf": c["addSelf"], "tree": c["fmt"] == "rdf" and not c["path"] and c["addSelf"]}


def observe(ctx, tree, ser, keys, c):
    """Run the export and parse it -> structured observation (or {'parse_error': ...})."""
    path = tuple(c["path"])
    node = adapter.node_at(tree, path)
    fmt, unique = c["fmt"], c["unique"]
    try:
        raw = call_impl(tree, node, path, fmt, unique, c["addSelf"], c["variant"])
        if fmt == "dot":
            ns, es = parse_dot(raw, tree.name)
            nodes = [[keys.key(t, unique), lab] for t, lab, _ in ns]
            edges = [[keys.key(p, unique), keys.key(ch, unique), lab] for p, ch, lab in es]
            shapes = [sh for _, _, sh in ns]
            return dict(nodes=nodes, edges=edges, shapes=shapes)
        if fmt == "mermaid":
            as_md, title = mermaid_flags(c["variant"])
            ns, es = parse_mermaid(raw, as_md, title, node.name)
            return dict(nodes=[[i, nm] for i, nm, _ in ns], edges=[list(e) for e in es], rootshape=[r for _, _, r in ns])
        return dict(triples=parse_rdf(raw, ctx.pool))
    except ParseError as e:
        return dict(parse_error=str(e))
    except Exception as e:  # noqa
        return dict(parse_error=f"export raised {type(e).__name__}: {e}")


def brief(c):
    return {k: v for k, v in c.items() if k != "spec"}


def judge(out, c, obs, resp):
    """Oracle (specification evaluated on the implementation's output) and correspondence."""
    if "fail" in resp:
        raise core.MachineryError(f"driver: {resp}")
    model, spec = resp["model"], resp["spec"]
    fmt = c["fmt"]
    if "parse_error" in obs:
        out.fail(c, f"{fmt} export {brief(c)}: {obs['parse_error']}", impl=obs, spec=spec, model=model)
        return
    if fmt == "rdf":
        it, st, mt = tsort(obs["triples"]), tsort(spec["triples"]), tsort(model["triples"])
        if it != st:
            missing = [json.loads(x) for x in st if x not in set(it)]
            extra = [json.loads(x) for x in it if x not in set(st)]
            out.fail(c, f"rdf export {brief(c)}: statements missing {missing}, unexpected {extra}", impl=it, spec=st, model=mt)
        elif it != mt:
            out.disagree(c, f"rdf export {brief(c)}: impl {it} != model {mt}")
        return
    exp_edges = [[p, ch, k] for p, ch, k, _ in spec["edges"]]
    if fmt == "dot":
        exp_nodes = [[k, nm] for k, nm in spec["nodes"]]
        new = False
        if obs["nodes"] != exp_nodes:
            out.fail(c, f"dot export {brief(c)} declares {obs['nodes']}, one labelled node per key expected: {exp_nodes}",
                     impl=obs, spec=spec, model=model)
            new = True
        if obs["edges"] != exp_edges:
            out.fail(c, f"dot export {brief(c)} has edges {obs['edges']}, tree edges: {exp_edges}", impl=obs, spec=spec, model=model)
            new = True
        # root declaration: box shape for the system root only
        want_shapes = [("box" if (i == 0 and c["addSelf"] and not c["path"]) else None) for i in range(len(obs["nodes"]))]
        if obs["shapes"] != want_shapes:
            out.fail(c, f"dot export {brief(c)}: shapes {obs['shapes']}, expected {want_shapes}", impl=obs, spec=spec, model=model)
            new = True
        if not new and (obs["nodes"] != model["nodes"] or obs["edges"] != model["edges"]):
            out.disagree(c, f"dot export {brief(c)}: impl {obs['nodes']} {obs['edges']} != model {model['nodes']} {model['edges']}")
        return
    # mermaid: the declared indices number the spec's keys (a bijection), edges translate accordingly
    keys = [k for k, _ in spec["nodes"]]
    idxs = [i for i, _ in obs["nodes"]]
    good = True
    if len(set(idxs)) != len(idxs) or len(idxs) != len(keys) or [nm for _, nm in obs["nodes"]] != [nm for _, nm in spec["nodes"]]:
        out.fail(c, f"mermaid export {brief(c)} declares {obs['nodes']}, one node per key expected: {spec['nodes']}", impl=obs, spec=spec, model=model)
        good = False
    else:
        want_root = [(j == 0 and c["addSelf"]) for j in range(len(idxs))]
        if obs["rootshape"] != want_root or (c["addSelf"] and idxs[0] != 0):
            out.fail(c, f"mermaid export {brief(c)}: root shape / root index wrong: {obs['nodes']} {obs['rootshape']}", impl=obs, spec=spec, model=model)
            good = False
        idx_of = dict(zip(map(json.dumps, keys), idxs))
        want = [[idx_of[json.dumps(p)], idx_of[json.dumps(ch)], k] for p, ch, k in exp_edges]
        if obs["edges"] != want:
            back = {i: k for k, i in zip(keys, idxs)}
            got = [[back.get(p, f"?{p}"), back.get(ch, f"?{ch}"), k] for p, ch, k in obs["edges"]]
            out.fail(c, f"mermaid export {brief(c)} has edges {got} (indices {obs['edges']}), tree edges: {exp_edges}", impl=obs, spec=spec, model=model)
            good = False
    if good and (obs["nodes"] != model["nodes"] or obs["edges"] != model["edges"]):
        out.disagree(c, f"mermaid export {brief(c)}: impl {obs['nodes']} {obs['edges']} != model {model['nodes']} {model['edges']}")


def configs():
    for fmt in ("dot", "mermaid", "rdf"):
        for unique in ((True,) if fmt == "rdf" else (True, False)):
            for add_self in (True, False):
                yield fmt, unique, add_self


def has_clone(tree):
    ids = [n.data_id for n in tree]
    return len(set(ids)) < len(ids)


def do_tree(ctx, out, spec, typed, rot, tag):
    tree = adapter.build(spec, ctx.pool, typed=typed)
    ser = adapter.Serials()
    ser.by_obj[id(tree.system_root)] = 0
    ser.keep.append(tree.system_root)
    tj = tree_json(tree, ser, ctx.pool)
    keys = Keys(tree, ser, ctx.pool)
    size = len(tree)
    clone = has_clone(tree)
    nontriv = size >= 3 and (clone or gen.spec_height(spec) >= 2)
    reqs, pend = [], []
    for path in [()] + list(gen.all_paths(spec)):
        node = adapter.node_at(tree, path)
        below = [n.data_id for n in node]
        self_clone = bool(path) and node.data_id in below
        for fmt, unique, add_self in configs():
            c = case_of(spec, typed, path, fmt, unique, add_self, next(rot))
            obs = observe(ctx, tree, ser, keys, c)
            reqs.append(request(tj, c))
            pend.append((c, obs))
            out.count((tag, typed, repr(spec), path, fmt, unique, add_self), nontriv)
            out.dist[f"{fmt}:{'unique' if unique else 'per-node'}:{'self' if add_self else 'noself'}"] += 1
            out.dist["api:" + ("tree" if not path else "node")] += 1
            if fmt == "dot" and not path:
                out.dist["dot tree api:" + ("to_dotfile(StringIO)" if (c["variant"] // 7) % 2 else "to_dot()")] += 1
            if fmt == "mermaid":
                out.dist["mermaid as_markdown=%s title=%s" % mermaid_flags(c["variant"])] += 1
            elif uses_mappers(c["variant"]):
                out.dist[fmt + " with application mappers"] += 1
            if self_clone and unique:
                out.dist["start node has a clone among its descendants"] += 1
        if clone:
            out.dist["start in tree with clones"] += 1
    resps = ctx.driver.ask_many(reqs)
    for (c, obs), resp in zip(pend, resps):
        judge(out, c, obs, resp)
    if size >= 4 and clone and pend:
        c, obs = max(pend, key=lambda q: len(q[1].get("edges", q[1].get("triples", []))) if "parse_error" not in q[1] else -1)
        out.sample(dict(case=brief(c), tree=spec, observed=obs), every=1)
    out.dist["trees" + ("_typed" if typed else "")] += 1


def hid_key(ctx):
    return lambda lab: hash(ctx.pool.objs[lab[0] if isinstance(lab, tuple) else lab])


def run(ctx):
    out = core.Outcome(
        rule="every ordered forest with <= N nodes (N=5 quick, 6 thorough) x labelings over a 3-letter alphabet that respect sibling uniqueness "
        "(clones everywhere; exhaustive up to 4 (quick) / 5 (thorough) nodes, sampled per shape above) and typed trees over {A,B} x kinds {a,b}; "
        "plus random larger trees (plain/typed, with falsy data 0/'' mixed in) x every start node (tree-level API for the system root, node-level API below) "
        "x {dot, mermaid} x unique_nodes on/off x add_root/add_self on/off and rdf x add_self on/off (tree.to_rdf_graph() / system_root.to_rdf_graph(add_self=False) "
        "for the root); to_dot()/to_dotfile(StringIO) and the 4 as_markdown x title combinations rotated. The emitted text / rdflib graph is parsed back into "
        "declared nodes and edges and compared with edgesSpec/nodesSpec (oracle) and the model. non-trivial = >= 3 nodes with a clone or >= 2 levels; "
        "distinct = distinct (tree, start node, format, flags)"
    )
    rot = itertools.count()
    key = hid_key(ctx)
    n_max = 6 if ctx.thorough else 5
    n_ex = 5 if ctx.thorough else 4
    plain_alpha = [0, 1, 2]
    typed_alpha = [(0, "a"), (0, "b"), (1, "a"), (1, "b")]
    for n in range(0, n_max + 1):
        for shape in gen.forests(n):
            if n <= n_ex:
                for spec in gen.labelings(shape, plain_alpha, key=key):
                    do_tree(ctx, out, spec, False, rot, "p")
            else:
                for spec in gen.labelings(shape, plain_alpha, key=key, limit=(12 if ctx.thorough else 4), rng=ctx.rng):
                    do_tree(ctx, out, spec, False, rot, "p")
            if n <= 3:
                for spec in gen.labelings(shape, typed_alpha, key=key):
                    do_tree(ctx, out, spec, True, rot, "t")
            else:
                for spec in gen.labelings(shape, typed_alpha, key=key, limit=(10 if ctx.thorough else 3), rng=ctx.rng):
                    do_tree(ctx, out, spec, True, rot, "t")
    out.extra["exhaustive_scope"] = (
        f"all ordered forests with <= {n_ex} nodes x all sibling-unique labelings over 3 data objects (plain) / <= 3 nodes x 2 objects x 2 kinds (typed); "
        f"sampled labelings up to {n_max} nodes"
    )
    # falsy data_ids (hash(0) == hash('') == 0): deterministic witnesses + random trees
    for spec in ([(29, [(0, [])])], [(0, [(30, [(1, [])])])], [(29, [(0, []), (1, [(29, [(2, [])])])])]):
        do_tree(ctx, out, spec, False, rot, "z")
    do_tree(ctx, out, [((29, "a"), [((0, "b"), [])])], True, rot, "z")
    for _ in range(150 if ctx.thorough else 30):
        n = ctx.rng.randrange(6, 16)
        typed = ctx.rng.random() < 0.4
        if typed:
            alpha = [(a, k) for a in (0, 1, 2, 11, 12, 18, 29) for k in ("a", "b", "c")]
        else:
            alpha = [0, 1, 2, 3, 11, 12, 14, 18, 19, 24, 29, 30]
        spec = gen.random_spec(ctx.rng, n, alpha, clone_rate=0.4, key=key)
        do_tree(ctx, out, spec, typed, rot, "r")
        out.dist["random_tree" + ("_typed" if typed else "")] += 1
    return out


def replay(ctx, rp):
    from props.c10 import tuplify_d

    c = dict(rp["case"])
    spec = tuplify_d(c["spec"])
    c["spec"] = spec
    out = core.Outcome()
    tree = adapter.build(spec, ctx.pool, typed=c["typed"])
    ser = adapter.Serials()
    ser.by_obj[id(tree.system_root)] = 0
    ser.keep.append(tree.system_root)
    tj = tree_json(tree, ser, ctx.pool)
    keys = Keys(tree, ser, ctx.pool)
    path = tuple(c["path"])
    node = adapter.node_at(tree, path)
    obs = observe(ctx, tree, ser, keys, c)
    resp = ctx.driver.ask(request(tj, c))
    judge(out, c, obs, resp)
    try:
        raw = call_impl(tree, node, path, c["fmt"], c["unique"], c["addSelf"], c["variant"])
        text = raw if isinstance(raw, list) else sorted(map(str, raw))
    except Exception as e:  # noqa
        text = f"{type(e).__name__}: {e}"
    return dict(
        implementation=obs, implementation_output=text, model=resp.get("model"), specification=resp.get("spec"),
        failures=[f["what"] for f in out.oracle_failures],
        disagreements=[d["what"] for d in out.disagreements],
        property_holds=not out.oracle_failures,
    )
