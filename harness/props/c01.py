"""C01 — the node graph stays a well-formed tree after any mutation history."""
from __future__ import annotations

import core
import histories as H
from props import _hist

LEVEL = "proof"
TRUSTED = [
    "the stored `_parent` / `_tree` links are not model state: the model derives them from the tree value; that the implementation's links agree "
    "is checked on every step through `node.parent`, `node.up()`, `node.tree` (oracle on the implementation alone)",
    "the decidable well-formedness check `wfB` of lean/Nutree/Spec/WF.lean (proved equivalent to WF) is evaluated by the driver on the state observed from the implementation",
]
ASSUMPTIONS = ["copying a branch below itself with deep=True is excluded (unbounded recursion in the implementation, see DESIGN.md)"]

PROFILES = [
    dict(name="plain", typed=False, malformed=0.1),
    dict(name="plain-malformed", typed=False, malformed=0.5),
    dict(name="typed", typed=True, malformed=0.1),
    dict(name="moves", typed=False, malformed=0.15, ops=["add", "add", "move", "move", "move", "remove", "addnode", "setdata"]),
    dict(name="hook", typed=False, malformed=0.1, hook=[[0, "k0"], [1, "k1"], [2, None], [18, "item"], [19, "item"]]),
]
LABELS = [H.STR, H.STR[:3] + [18, 19, 24, 25], H.STR[:2] + H.FLAV]


def judge(s, r):
    out = []
    for k in _hist.C01_KEYS:
        if s.oracles.get(k):
            out.append((k, s.oracles[k][0], None))
    return out


def run(ctx):
    out = core.Outcome(
        rule="(a) every forest with <= N nodes (labelings with clones sampled) x every single mutating operation with every argument combination "
        "(valid and invalid); (b) random structured histories (plain, typed, malformed-heavy, move-heavy, calc_data_id hook; two trees) — after every "
        "step the implementation alone must satisfy: parent/up()/tree links match positions, each object reachable once, node_ids unique, "
        "count == len == reachable, find_first(node_id) exact, removed nodes not found, Lean wfB conjuncts true on the observed state, _self_check() passes. "
        "non-trivial = a history of >= 3 ops reaching >= 3 nodes (or a single op on a forest with >= 2 nodes); distinct by content"
    )
    ctx.budget_s = ctx.budget(900, 100)
    _hist.fixed_histories(ctx, out, judge, _hist.STALE_HANDLE_HISTORIES)
    n = 4 if ctx.thorough else 3
    _hist.exhaustive_single_ops(ctx, out, judge, max_nodes=n, alphabet=[0, 1, 6], ops_of=lambda impl, ti: _hist.all_single_ops(impl, ti, labels=[0, 6, 2]),
                                label_limit=6 if ctx.thorough else 2)
    out.extra["exhaustive_scope"] = f"forests <= {n} nodes x all single ops (labelings sampled above 2 nodes)"
    _hist.history_campaign(ctx, out, judge, n_hist=1500 if ctx.thorough else 150, n_steps=120 if ctx.thorough else 25, profiles=PROFILES, labels_sets=LABELS)
    return out


def replay(ctx, rp):
    return _hist.replay(ctx, rp, judge)
