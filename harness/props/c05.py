"""C05 — save() then load() reproduces the tree under every storage option."""
from __future__ import annotations

import io
import itertools
import json
import os
import shutil
import tempfile
import zipfile

import adapter
import core
import gen
import serial_h as S
from nutree import Tree
from nutree.typed_tree import TypedTree

LEVEL = "proof"
TRUSTED = [
    "json.dump/json.load, zipfile, io.TextIOWrapper and file handling are the identity on JSON values (not modelled; every compression method and "
    "path/stream target is run for real on every check)",
    "user mappers are parameters of the model; the harness uses a pair of inverse mappers over value-equality objects",
]
ASSUMPTIONS = ["key_map injective and no short key equals another key of an entry; every value of a value-mapped key occurs in its list (ValidMaps)",
               "user meta keys do not start with '$'"]

CONFIGS = ["plain-str", "plain-obj", "derived", "typed-str", "typed-obj", "typed-derived", "plain-hook-str", "typed-hook-str"]


def hook_id(tree, data):
    """a calc_data_id hook: str data gets a computed (non-hash) id, so every str node carries a custom data_id"""
    return "H:" + data if isinstance(data, str) else hash(data)


def new_tree(cfg, pool):
    """(tree to fill or None, derived class or None)"""
    typed = cfg.startswith("typed")
    if cfg.endswith("derived"):
        cls = S.make_derived(pool, typed)
        return cls("t"), cls
    if "-hook-" in cfg:
        return (TypedTree if typed else Tree)("t", calc_data_id=hook_id), None
    return None, None


def make_tree(ctx, cfg, rng, n):
    pool = ctx.pool
    typed = cfg.startswith("typed")
    labels = S.STRS if cfg.endswith("str") else S.STRS[:3] + S.OBJ
    spec = S.random_label_spec(rng, n, labels, typed)
    t0, cls = new_tree(cfg, pool)
    tree = adapter.build(spec, pool, typed=typed, tree=t0)
    return spec, tree, cls


def read_doc(path_or_text, is_path):
    if not is_path:
        return json.loads(path_or_text)
    if zipfile.is_zipfile(path_or_text):
        with zipfile.ZipFile(path_or_text) as zf:
            names = zf.namelist()
            assert len(names) == 1, names
            return json.loads(zf.read(names[0]).decode("utf8"))
    with open(path_or_text, encoding="utf8") as f:
        return json.load(f)


SHARED_META = {}
SHARED_FILE_META = {}
_ROT = {"style": 0, "fm": 0, "stream": 0}
_FORCE = None


def _rot(k):
    _ROT[k] += 1
    return _ROT[k]



def consuming(deser):
    """a de-serialisation mapper that empties the entry dict after it has built the data object"""
    def mapper(parent, data):
        obj = deser(parent, dict(data))
        data.clear()
        return obj

    return mapper


def short_ser(m):
    def ser(node, data):
        r = m.ser(node, data)
        if r is None:
            return None
        for long, short in (("o", "i"), ("type", "s"), ("name", "k")):
            r[short] = r.pop(long)
        return r

    return ser


def short_deser(m):
    def deser(parent, data):
        d = dict(data)
        if "i" in d and "o" not in d:
            d["o"] = d.pop("i")
        return m.deser(parent, d)

    return deser


def one_case(ctx, out, cfg, spec, tree, cls, km_name, vm_name, compression, use_path, tmpdir, counter):
    pool = ctx.pool
    typed = isinstance(tree, TypedTree)
    m = S.Mappers(pool, strict_plain=True)
    derived = cls is not None
    needs_mapper = not cfg.endswith("str")
    key_map = S.KEY_MAPS[km_name]
    value_map = S.VALUE_MAPS[vm_name]
    # the custom maps are the application's own dict objects, passed to every save as they are (S.KEY_MAPS / S.VALUE_MAPS):
    # save() must not keep anything in them
    maps_before = (json.dumps(S.KEY_MAPS["custom"], sort_keys=True), json.dumps(S.VALUE_MAPS["custom"], sort_keys=True))
    # ONE caller-owned metadata dict is re-used for all saves (as an application would): save() must neither keep state in
    # it (maps of an earlier call) nor hand a header with foreign entries to the next call
    SHARED_META.update({"foo": "bar", "n": next(counter)})
    meta = dict(SHARED_META)
    kw = dict(meta=SHARED_META, key_map=key_map, value_map=value_map)
    # mapper styles (callback mappers): std; `consuming` = the de-serialisation mapper empties the entry dict it was given
    # (everything the loader needs from the entry must have been read before); `short` = the mapper's own fields are called
    # i / s / k (only legitimate when no key map is in use: nothing may be renamed on load then)
    # (own rotation counters with co-prime periods for the independent choices - style 4, re-used file_meta 3, stream kind 5:
    # with ONE shared counter, whose number of draws per case varies, some combinations never met)
    _ROT["style"] += 1
    style = ["std", "consuming", "std", "short"][_ROT["style"] % 4]
    if _FORCE:
        style = _FORCE["style"]
    if style == "short" and not (km_name == "off" and needs_mapper and not derived):
        style = "std"
    if style == "consuming" and not ((needs_mapper and not derived) or (typed and not needs_mapper)):
        style = "std"
    if needs_mapper and not derived:
        kw["mapper"] = m.ser if style != "short" else short_ser(m)
    case = dict(cfg=cfg, spec=spec, key_map=km_name, value_map=vm_name, compression=repr(compression), path=use_path, mapper_style=style)
    out.dist["mapper_style:" + style] += 1
    ser = adapter.Serials()
    tj = adapter.tree_json(tree, ser, pool)
    before = S.tree_shape(tree, pool)
    # what the model needs
    ekm, evm = S.effective_maps(tree, key_map, value_map if not isinstance(value_map, dict) else dict(value_map))
    try:
        if use_path:
            path = os.path.join(tmpdir, f"t{next(counter)}.nutree")
            tree.save(path, compression=compression, **kw)
            doc = read_doc(path, True)
        elif _rot("stream") % 5 in (0, 3):
            # an open text stream with a narrow encoding (the application opened the file): the document must get through
            path = os.path.join(tmpdir, f"a{next(counter)}.nutree")
            enc = ["ascii", "latin-1", "cp1252"][next(counter) % 3]
            with open(path, "w", encoding=enc) as fp:
                tree.save(fp, **kw)
            with open(path, encoding=enc) as fp:
                doc = read_doc(fp.read(), False)
            out.dist["stream_encoding:" + enc] += 1
        else:
            fp = io.StringIO()
            tree.save(fp, **kw)
            doc = read_doc(fp.getvalue(), False)
        r_save = "ok"
    except Exception as e:  # noqa
        r_save = adapter.err_class(e) + ":" + type(e).__name__
        doc = None
    if S.tree_shape(tree, pool) != before:
        out.fail(case, "save() changed the tree")
    if (json.dumps(S.KEY_MAPS["custom"], sort_keys=True), json.dumps(S.VALUE_MAPS["custom"], sort_keys=True)) != maps_before:
        # not a failure by itself: what counts is what a LATER save / load with the same application-owned dict does
        out.dist["save_wrote_into_the_callers_map"] += 1
    if SHARED_META != meta:
        out.fail(case, f"save() changed the caller's metadata dict: {SHARED_META} (was {meta})")
        SHARED_META.clear()
    if r_save != "ok":
        dirty = S.custom_maps_dirty()
        out.fail(case, f"save({km_name}, {vm_name}, compression={compression!r}, path={use_path}) raised {r_save}"
                 + (f" (the caller's custom maps, re-used for every save, had been written into by an earlier save(): {dirty})" if dirty else ""))
        S.reset_custom_maps()
        return
    # model document
    req = {"op": "ser.save", "t": tj, "typed": typed, "key_map": ekm, "value_map": evm, "meta": meta,
           "ser": (m.ser_table(tree, ser) if needs_mapper else {})}
    md = ctx.driver.ask(req)
    if "fail" in md:
        raise core.MachineryError(f"driver: {md}")
    if md.get("ok") != doc and style != "short":
        out.disagree(case, f"saved document differs from the model's: impl {json.dumps(doc)[:300]} model {json.dumps(md.get('ok'))[:300]}")
    # load
    load_cls = cls or (TypedTree if typed else Tree)
    lkw = {}
    if needs_mapper and not derived:
        lkw["mapper"] = {"std": m.deser, "consuming": consuming(m.deser), "short": short_deser(m)}[style]
    elif style == "consuming" and typed and not needs_mapper:
        lkw["mapper"] = consuming(lambda parent, data: data["str"])
    # every other load hands over ONE caller-owned `file_meta` dict that still holds the header of an earlier file (with other
    # maps): what load() does must depend on the file alone
    reuse_fm = _rot("fm") % 3 != 0
    if _FORCE:
        reuse_fm = _FORCE["reuse_fm"]
    case["reuse_file_meta"] = reuse_fm
    fm = SHARED_FILE_META if reuse_fm else {}
    try:
        if use_path:
            t2 = load_cls.load(path, file_meta=fm, **lkw)
        else:
            t2 = load_cls.load(io.StringIO(json.dumps(doc)), file_meta=fm, **lkw)
        r_load = "ok"
    except Exception as e:  # noqa
        r_load = adapter.err_class(e) + ":" + type(e).__name__
        t2 = None
    if r_load != "ok":
        out.fail(case, f"load() of the saved file raised {r_load}; tree {spec}")
    else:
        after = S.tree_shape(t2, pool)
        if after != before:
            out.fail(case, f"load(save(tree)) differs: {after} != {before}", impl=after, expected=before)
        elif S.clone_groups(t2) != S.clone_groups(tree):
            out.fail(case, f"clone groups differ after the round trip: {S.clone_groups(t2)} != {S.clone_groups(tree)}")
        if type(t2) is not load_cls:
            out.fail(case, f"loaded tree is a {type(t2).__name__}, loading class {load_cls.__name__}")
        if (not reuse_fm and fm != doc["meta"]) or any(fm.get(k) != v for k, v in doc["meta"].items()) or any(fm.get(k) != v for k, v in meta.items()):
            out.fail(case, f"file_meta {fm} != stored header {doc['meta']}")
        try:
            t2._self_check()
        except Exception as e:  # noqa
            out.fail(case, f"_self_check of the loaded tree: {e!r}")
    if style == "short":
        return   # the model's mappers use the field names o / type / name: oracle only
    # model load of the implementation's document
    ml = ctx.driver.ask({"op": "ser.load", "doc": doc, "typed": typed, "deser": ("o" if needs_mapper else ("str" if typed else "none"))})
    if "fail" in ml:
        raise core.MachineryError(f"driver: {ml}")
    if r_load == "ok":
        if "ok" not in ml or S.model_shape(ml["ok"]) != S.tree_shape(t2, pool):
            out.disagree(case, f"model load differs: {ml.get('err') or S.model_shape(ml['ok'])} vs {S.tree_shape(t2, pool)}")
    elif "ok" in ml:
        out.disagree(case, f"model loads the document, implementation raised {r_load}")


def dictwrapper_campaign(ctx, out, n):
    """trees of `DictWrapper` nodes saved and loaded with the library's own mappers (`DictWrapper.serialize_mapper` /
    `deserialize_mapper`), with key / value maps that mention the wrapped dicts' own keys: the loaded dicts equal the saved ones,
    clone groups (one wrapper under several parents) survive, and the SOURCE tree's dicts are what they were before"""
    import copy

    from nutree.common import DictWrapper

    rng = ctx.rng
    for k in range(n):
        # plain trees only: `DictWrapper.serialize_mapper` returns the wrapped dict alone, i.e. it drops the `kind` (and an explicit
        # `data_id`) entry that save() handed to it, so with a TypedTree it is not a pair of inverse mappers in the sense of the
        # property (observed, DESIGN.md section 7)
        t = Tree("dw")
        typed = isinstance(t, TypedTree)
        wrappers = [DictWrapper({"title": f"n{i}", "type": rng.choice(["a", "b", "c"]), "n": i, "flag": bool(i % 2)}) for i in range(rng.randrange(2, 7))]
        nodes = []
        for i, w in enumerate(wrappers):
            parent = rng.choice([t] + nodes) if nodes else t
            nodes.append(parent.add(w, **({"kind": rng.choice(["x", "y"])} if typed else {})))
        for _ in range(rng.randrange(0, 3)):      # clones: the same wrapper below another parent
            w, parent = rng.choice(wrappers), rng.choice(nodes)
            try:
                nodes.append(parent.add(w, **({"kind": "y"} if typed else {})))
            except Exception:  # noqa  (sibling with the same data_id)
                pass

        def shape(tree):
            def w(n):
                return [copy.deepcopy(n.data._dict), getattr(n, "kind", None), [w(c) for c in n.children]]
            return [w(c) for c in tree.children]

        before = shape(t)
        groups = S.clone_groups(t)
        km = [True, False, {"title": "t", "type": "y", "n": "n", "flag": "f", "kind": "k"}][k % 3]
        vm = [True, False, {"type": ["a", "b", "c"], "flag": [False, True]}][(k // 3) % 3]
        case = dict(cfg="dictwrapper", typed=typed, tree=before, key_map=repr(km), value_map=repr(vm))
        out.count(("dictwrapper", k, repr(before)), len(nodes) >= 3)
        out.dist["dictwrapper"] += 1
        try:
            fp = io.StringIO()
            t.save(fp, mapper=DictWrapper.serialize_mapper, key_map=km, value_map=(dict(vm) if isinstance(vm, dict) else vm))
            if shape(t) != before:
                out.fail(case, f"save() with DictWrapper.serialize_mapper changed the data of the tree being saved: {shape(t)} (was {before})")
                continue
            fp.seek(0)
            t2 = type(t).load(fp, mapper=DictWrapper.deserialize_mapper)
            after = shape(t2)
        except Exception as e:  # noqa
            out.fail(case, f"save/load with the DictWrapper mappers raised {e!r}")
            continue
        if after != before:
            out.fail(case, f"load(save(tree)) with the DictWrapper mappers differs: {after} != {before}")
        elif S.clone_groups(t2) != groups:
            out.fail(case, f"clone groups differ after the DictWrapper round trip: {S.clone_groups(t2)} != {groups}")


FS_KEY_MAPS = {"default": True, "off": False, "custom": {"data_id": "i"}}


def fs_hook(tree, data):
    return "id:" + data.name


def fs_build(spec, ids):
    """spec: nested [name, is_dir, size, mdate, clone_of, kids]; clone_of = name of an earlier FILE entry whose data object is added
    again (a clone).  ids: 'hash' (default ids: object hashes, not preserved by a file), 'explicit' (data_id = relative path of
    the first occurrence), 'hook' (calc_data_id -> 'id:' + name)."""
    from nutree.fs import FileSystemEntry, FileSystemTree

    tree = FileSystemTree("fs", **({"calc_data_id": fs_hook} if ids == "hook" else {}))
    seen = {}

    def fill(parent, kids, prefix):
        for name, is_dir, size, mdate, clone_of, sub in kids:
            if clone_of is not None:
                e, rel = seen[clone_of]
            else:
                e = FileSystemEntry(name, is_dir=True) if is_dir else FileSystemEntry(name, size=size, mdate=mdate)
                rel = prefix + name
                seen[name] = (e, rel)
            node = parent.add(e, **({"data_id": rel} if ids == "explicit" else {}))
            fill(node, sub, prefix + name + "/")

    fill(tree, spec, "")
    return tree


def fs_shape(tree, ids):
    objs = []

    def w(n):
        e = n.data
        if not any(e is o for o in objs):
            objs.append(e)
        g = next(i for i, o in enumerate(objs) if o is e)
        return [e.name, bool(e.is_dir), e.size, e.mdate, (n.data_id if ids != "hash" else None), g, [w(c) for c in n.children]]

    return [w(c) for c in tree.children]


def fs_random_spec(rng, n):
    shape = gen.random_shape(rng, n)
    cnt = itertools.count()
    files = []

    def mk(kids, taken):
        res = []
        names_here = set()
        for sub in kids:
            i = next(cnt)
            if not sub and files and rng.random() < 0.3:
                cands = [f for f in files if f not in names_here and f not in taken]
                if cands:
                    c = rng.choice(cands)
                    names_here.add(c)
                    res.append([c, False, None, None, c, []])
                    continue
            if sub or rng.random() < 0.2:
                res.append([f"d{i}", True, None, None, None, None])
                res[-1][5] = mk(sub, set())
            else:
                name = f"f{i}-\u00fc.txt" if i % 4 == 0 else f"f{i}.txt"
                files.append(name)
                names_here.add(name)
                res.append([name, False, 0 if i % 6 == 1 else rng.randrange(0, 5000),
                            0.0 if i % 5 == 2 else rng.randrange(10 ** 9, 2 * 10 ** 9) + rng.choice([0.0, 0.5, 0.25]), None, []])   # also empty files, the epoch
        return res

    return mk(shape, set())


def fs_case(ctx, out, case, tmpdir, counter):
    from nutree.fs import FileSystemTree

    spec, ids = case["spec"], case["ids"]
    tree = fs_build(spec, ids)
    before = fs_shape(tree, ids)
    comp = eval(case["compression"], {"__builtins__": {}}, {"True": True, "False": False})
    kw = dict(key_map=FS_KEY_MAPS[case["key_map"]], value_map=S.VALUE_MAPS[case["value_map"]] if case["value_map"] != "custom" else True, meta={"scan": "x"})
    lkw = {}
    if case["explicit_mappers"]:
        kw["mapper"] = FileSystemTree.serialize_mapper
        lkw["mapper"] = FileSystemTree.deserialize_mapper
    try:
        if case["path"]:
            path = os.path.join(tmpdir, f"fs{next(counter)}.nutree")
            tree.save(path, compression=comp, **kw)
            t2 = FileSystemTree.load(path, **lkw)
        else:
            fp = io.StringIO()
            tree.save(fp, **kw)
            t2 = FileSystemTree.load(io.StringIO(fp.getvalue()), **lkw)
    except Exception as e:  # noqa
        out.fail(case, f"FileSystemTree save/load raised {type(e).__name__}: {e}")
        return
    if fs_shape(tree, ids) != before:
        out.fail(case, "save() changed the file-system tree")
    after = fs_shape(t2, ids)
    if after != before:
        out.fail(case, f"FileSystemTree: load(save(tree)) differs (name, is_dir, size, mdate, data_id, clone group, children): {after} != {before}", impl=after, expected=before)
    if type(t2) is not FileSystemTree:
        out.fail(case, f"loaded tree is a {type(t2).__name__}")
    try:
        t2._self_check()
    except Exception as e:  # noqa
        out.fail(case, f"_self_check of the loaded tree: {e!r}")


def fs_campaign(ctx, out, n, tmpdir, counter):
    """FileSystemTree built by the application (entries added by hand: default ids, explicit relative-path ids, a calc_data_id
    hook; the same file entry below several folders = clones) through save/load with rotating options."""
    rng = ctx.rng
    kms, vms = list(FS_KEY_MAPS), ["default", "off"]
    for k in range(n):
        case = dict(fs=True, spec=fs_random_spec(rng, rng.randrange(2, 11)), ids=["hash", "explicit", "hook"][k % 3], key_map=kms[(k // 3) % 3],
                    value_map=vms[(k // 9) % 2], compression=repr(S.COMPRESSIONS[k % len(S.COMPRESSIONS)] if k % 2 else False), path=bool(k % 2),
                    explicit_mappers=bool((k // 2) % 2))
        fs_case(ctx, out, case, tmpdir, counter)
        out.count(("fs", json.dumps(case, sort_keys=True)), len(json.dumps(case["spec"])) > 120)
        out.dist["cfg:filesystem-" + case["ids"]] += 1


def run(ctx):
    out = core.Outcome(
        rule="trees: plain str, objects with callback mappers, derived-class mappers, typed (str, objects, derived); clones at every relative position "
        "(incl. below a sibling of the first occurrence), clones of differing kind, explicit ids (also the same data under two ids), unicode; "
        "options: key_map x value_map in {default, off, custom}^2 x compression in {False, True, STORED, DEFLATED, BZIP2, LZMA} x path/stream = 108 "
        "combinations, all of them on a rotating subset of trees (quick) / on every tree (thorough). Oracle on the implementation: load(save(t)) has the "
        "same shape, data, data_ids, kinds, clone groups, class; file_meta == header; tree unchanged. non-trivial = >= 3 nodes with a clone; distinct = (tree, options)"
    )
    rng = ctx.rng
    tmpdir = tempfile.mkdtemp(prefix="nutree_verif_c05_")
    counter = itertools.count()
    combos = [(k, v, c, p) for k in S.KEY_MAPS for v in S.VALUE_MAPS for c in S.COMPRESSIONS for p in (True, False)]
    try:
        n_trees = 150 if ctx.thorough else 60
        ci = 0
        # corpus: clone below a sibling of its first occurrence; same data under two explicit ids; kinds differ
        corpus = [
            ("plain-str", [(0, [(6, [])]), (1, [(6, [(2, [])])]), (6, [])]),
            ("plain-str", [(0, []), (1, [(0, [])])]),
            ("plain-str", [({"a": 0, "did": 1001}, []), (1, [({"a": 0, "did": 1001}, []), ({"a": 0, "did": 1002}, [])]), (0, [])]),
            ("typed-str", [({"a": 0, "k": "a"}, [({"a": 1, "k": "b"}, [])]), ({"a": 2, "k": "a"}, [({"a": 1, "k": "a"}, []), ({"a": 0, "k": "b"}, [])])]),
            ("typed-str", [({"a": 0, "k": "a", "did": 5}, []), ({"a": 1, "k": "b"}, [({"a": 0, "k": "a", "did": 5}, [])])]),
            ("plain-obj", [(18, [(12, []), (15, [])]), (24, [(18, []), (0, [])])]),
            # explicit ids that are FALSY (0, "") in a typed tree, next to nodes with the same data under the default id
            ("typed-str", [({"a": 0, "k": "a", "did": 0}, [({"a": 1, "k": "b", "did": ""}, [])]), ({"a": 2, "k": "a"}, [({"a": 0, "k": "a"}, []), ({"a": 1, "k": "b"}, [])])]),
            ("plain-str", [({"a": 0, "did": 0}, [({"a": 1, "did": ""}, [])]), (2, [(0, []), (1, [])])]),
            # one data object under three and four kinds (x, y, z / x, y, y, z, x): every occurrence keeps ITS kind
            ("typed-str", [({"a": 0, "k": "x"}, [({"a": 1, "k": "x"}, [])]), ({"a": 2, "k": "x"}, [({"a": 0, "k": "y"}, [])]), ({"a": 3, "k": "x"}, [({"a": 0, "k": "z"}, [])])]),
            ("typed-obj", [({"a": 18, "k": "x"}, []), ({"a": 0, "k": "x"}, [({"a": 18, "k": "y"}, []), ({"a": 1, "k": "x"}, [({"a": 18, "k": "y"}, [])])]),
                           ({"a": 2, "k": "w"}, [({"a": 18, "k": "z"}, [({"a": 18, "k": "x"}, [])])])]),
        ]
        cases = []
        for cfg, spec in corpus:
            typed = cfg.startswith("typed")
            cases.append((cfg, spec, None))
        for k in range(n_trees):
            cfg = CONFIGS[k % len(CONFIGS)]
            cases.append((cfg, None, rng.randrange(3, 14)))
        for cfg, spec, n in cases:
            if spec is None:
                spec, tree, cls = make_tree(ctx, cfg, rng, n)
            else:
                typed = cfg.startswith("typed")
                cls = None
                tree = adapter.build(spec, ctx.pool, typed=typed)
            if ctx.thorough:
                todo = combos
            else:
                todo = [combos[(ci + 7 * j) % len(combos)] for j in range(18)]
                ci += 18
            for km, vm, comp, use_path in todo:
                one_case(ctx, out, cfg, spec, tree, cls, km, vm, comp, use_path, tmpdir, counter)
                out.count((repr(spec), cfg, km, vm, repr(comp), use_path), tree.count >= 3 and tree.count_unique < tree.count)
                out.dist[f"cfg:{cfg}"] += 1
                out.dist[f"compression:{comp!r}"] += 1
                out.dist[f"maps:{km}/{vm}"] += 1
            if len(out.samples) < 4:
                out.sample(dict(cfg=cfg, tree=spec))
        out.extra["option_combinations"] = len(combos)
        dictwrapper_campaign(ctx, out, 150 if ctx.thorough else 36)
        fs_campaign(ctx, out, 240 if ctx.thorough else 54, tmpdir, counter)
    finally:
        shutil.rmtree(tmpdir, ignore_errors=True)
    return out


def replay(ctx, rp):
    from props.c10 import tuplify_d

    case = rp["case"]
    out = core.Outcome()
    tmpdir = tempfile.mkdtemp(prefix="nutree_verif_c05_")
    try:
        if case.get("fs"):
            fs_case(ctx, out, case, tmpdir, itertools.count())
            return dict(failures=[f["what"] for f in out.oracle_failures[:5]], property_holds=not out.oracle_failures)
        cfg = case["cfg"]
        spec = tuplify_d(case["spec"])
        typed = cfg.startswith("typed")
        t0, cls = new_tree(cfg, ctx.pool)
        tree = adapter.build(spec, ctx.pool, typed=typed, tree=t0)
        comp = eval(case["compression"], {"__builtins__": {}}, {"True": True, "False": False})
        global _FORCE
        if case.get("reuse_file_meta"):
            # the application-owned file_meta dict holds the header of an earlier file (default maps), as it did in the run
            SHARED_FILE_META.clear()
            t_prime = Tree("earlier")
            t_prime.add("A").add("a1", data_id="id1")
            fp_ = io.StringIO()
            t_prime.save(fp_, meta={"title": "earlier"})
            Tree.load(io.StringIO(fp_.getvalue()), file_meta=SHARED_FILE_META)
        _FORCE = dict(style=case.get("mapper_style", "std"), reuse_fm=bool(case.get("reuse_file_meta")))
        try:
            one_case(ctx, out, cfg, spec, tree, cls, case["key_map"], case["value_map"], comp, case["path"], tmpdir, itertools.count())
        finally:
            _FORCE = None
    finally:
        shutil.rmtree(tmpdir, ignore_errors=True)
    return dict(failures=[f["what"] for f in out.oracle_failures[:5]], disagreements=[d["what"] for d in out.disagreements[:3]], property_holds=not out.oracle_failures)
