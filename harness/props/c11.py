"""C11 — diff() marks exactly the one-sided children and projects back to both inputs."""
from __future__ import annotations

import itertools
import json

import adapter
import core
import gen
from nutree import Tree
from nutree.diff import DiffClassification as DC

LEVEL = "proof"
TRUSTED = ["the iteration order of the `added_nodes` set is a parameter of the model; results are compared modulo the choice of which added clone of a group becomes MOVED_HERE"]
ASSUMPTIONS = ["IdFaithful: data objects are equal (==) iff their data_ids are equal (string labels with default ids)"]
LABELS = [0, 1, 2, 6]
REM = ("REMOVED", "MOVED_TO")
ADD = ("ADDED", "MOVED_HERE")


def dc_str(node):
    dc = node.get_meta("dc")
    if dc is None:
        return None
    if isinstance(dc, DC):
        return dc.name
    if isinstance(dc, tuple):
        return f"({dc[0]}, {dc[1]})"
    return repr(dc)


def shape(nodes):
    return [[n.name, dc_str(n), bool(n.get_meta("dc_renumbered")), shape(n.children)] for n in nodes]


def model_shape(f, pool):
    out = []
    for n in f:
        m = dict(n[4] or [])
        out.append([pool.attrs[n[1]]["name"], m.get("dc"), m.get("dc_renumbered") == "true", model_shape(n[5], pool)])
    return out


def canon_moved(sh):
    """replace MOVED_HERE by ADDED (which added clone is re-classified depends on set order)"""
    return [[n, ("ADDED" if d == "MOVED_HERE" else d), r, canon_moved(k)] for n, d, r, k in sh]


def undo(sh, depth=None):
    """the marks before the MOVED_HERE re-classification: top and first-level nodes of an added branch carry ADDED, deeper ones nothing"""
    out = []
    for n, d, r, k in sh:
        if depth is None:
            if d in ADD:
                out.append([n, "ADDED", r, undo(k, 1)])
            else:
                out.append([n, ("REMOVED" if d == "MOVED_TO" else d), r, undo(k, None)])
        else:
            out.append([n, ("ADDED" if depth == 1 else None), r, undo(k, depth + 1)])
    return out


def variants(base, limit=200):
    """all results of the re-classification loop over every iteration order of the added set"""
    flat = []

    def fl(s, in_added):
        for x in s:
            a = in_added or x[1] == "ADDED"
            flat.append((x, a))
            fl(x[3], a)

    import copy

    base = copy.deepcopy(base)
    fl(base, False)
    groups = {}
    for x, a in flat:
        if x[1] == "REMOVED":
            groups.setdefault(x[0], {"rem": [], "add": []})["rem"].append(x)
    for x, a in flat:
        if a and x[0] in groups:
            groups[x[0]]["add"].append(x)
    groups = {k: v for k, v in groups.items() if v["add"]}
    for v in groups.values():
        for x in v["rem"]:
            x[1] = "MOVED_TO"
    keys = sorted(groups)
    res = []
    for choice in itertools.islice(itertools.product(*[range(len(groups[k]["add"])) for k in keys]), limit):
        saved = []
        for k, c in zip(keys, choice):
            x = groups[k]["add"][c]
            saved.append((x, x[1]))
            x[1] = "MOVED_HERE"
        res.append(copy.deepcopy(base))
        for x, old in saved:
            x[1] = old
    return res


def names(nodes):
    return [[n.name, names(n.children)] for n in nodes]


def unordered(f):
    return sorted([[n, unordered(k)] for n, k in f], key=json.dumps)


def drop(sh, marks):
    return [[n, d, r, drop(k, marks)] for n, d, r, k in sh if d not in marks]


def plain(sh):
    return [[n, plain(k)] for n, _, _, k in sh]


def reduce_spec(sh):
    out = []
    for n, d, r, k in sh:
        k2 = reduce_spec(k)
        if d is not None or k2:
            out.append([n, d, r, k2])
    return out


def check_first(sh, t0_nodes, problems, where):
    """dropping added nodes gives t0's child list in order below every matched node"""
    mine = [x for x in sh if x[1] not in ADD]
    if [x[0] for x in mine] != [n.name for n in t0_nodes]:
        problems.append(f"below {where}: children without the added ones are {[x[0] for x in mine]}, first tree has {[n.name for n in t0_nodes]}")
        return
    for x, n0 in zip(mine, t0_nodes):
        if x[1] not in REM:
            check_first(x[3], n0.children, problems, where + [x[0]])


def check_marks(sh, p0, p1, ordered, problems, where):
    """marks below a matched pair of parents"""
    c0s, c1s = list(p0), list(p1)
    for x in sh:
        name, d = x[0], x[1]
        i0 = next((i for i, c in enumerate(c0s) if c.name == name), None)
        i1 = next((i for i, c in enumerate(c1s) if c.name == name), None)
        if d in REM:
            if i1 is not None or i0 is None:
                problems.append(f"{where + [name]} marked {d} but present in the second tree / absent in the first")
        elif d in ADD:
            if i0 is not None or i1 is None:
                problems.append(f"{where + [name]} marked {d} but present in the first tree / absent in the second")
        else:
            if i0 is None or i1 is None:
                problems.append(f"{where + [name]} unmarked ({d}) but one-sided")
                continue
            if d is not None:
                if not ordered or d != f"({i0}, {i1})" or i0 == i1:
                    problems.append(f"{where + [name]} order mark {d}, true indices ({i0}, {i1}), ordered={ordered}")
            elif ordered and i0 != i1:
                problems.append(f"{where + [name]} moved from index {i0} to {i1} but carries no order mark")
            check_marks(x[3], c0s[i0].children, c1s[i1].children, ordered, problems, where + [name])


def mut_pair(ctx, out, s0, s1, seed, steps=3):
    """diff – edit one input IN PLACE – diff again, on the same tree objects (nothing remembered from an earlier diff() may
    influence a later one); all choices derive from `seed`"""
    import random

    rng = random.Random(seed)
    pool = ctx.pool
    t0, t1 = adapter.build(s0, pool), adapter.build(s1, pool)
    log = []
    one_pair(ctx, out, dict(mut=dict(t0=s0, t1=s1, seed=seed, steps=0)), None, trees=(t0, t1))
    for step in range(steps):
        t = rng.choice([t1, t1, t0])
        nodes = list(t)
        what = ["sort", "set_data", "remove", "add", "move", "sort_deep"][(seed + step) % 6]
        try:
            if what == "sort" and nodes:
                (rng.choice(nodes).parent or t.system_root).sort_children(key=lambda n: str(n.data), reverse=True)
            elif what == "sort_deep":
                t.sort(reverse=True)
            elif what == "set_data" and nodes:
                rng.choice(nodes).set_data(pool.objs[rng.choice(LABELS)])
            elif what == "remove" and nodes:
                rng.choice(nodes).remove(keep_children=rng.random() < 0.5)
            elif what == "add":
                rng.choice([t] + nodes).add(pool.objs[rng.choice(LABELS)], before=rng.choice([None, True, 0]))
            elif what == "move" and len(nodes) >= 2:
                a, b = rng.sample(nodes, 2)
                if not b.is_descendant_of(a):
                    a.move_to(b, before=rng.choice([None, True]))
        except Exception as e:  # noqa  (refused: unique constraint)
            what += ":" + type(e).__name__
        log.append(what)
        one_pair(ctx, out, dict(mut=dict(t0=s0, t1=s1, seed=seed, steps=step + 1, log=list(log))), None, trees=(t0, t1))


def one_pair(ctx, out, s0, s1, trees=None):
    pool = ctx.pool
    if trees is not None:
        t0, t1 = trees
    else:
        t0 = adapter.build(s0, pool)
        t1 = adapter.build(s1, pool)
    # some input nodes carry user metadata (a diff must neither change it nor write its marks into the inputs)
    for t in (t0, t1):
        for k, n in enumerate(t):
            if k % 2 == 0:
                n.set_meta("user", k)
            if k % 3 == 0:
                n.set_meta("dc", "mine")    # a user key that happens to be the name diff uses on ITS result nodes
    n0, n1 = names(t0.children), names(t1.children)
    snap0, snap1 = full_snapshot(t0), full_snapshot(t1)
    ser0, ser1 = adapter.Serials(), adapter.Serials()
    j0, j1 = adapter.tree_json(t0, ser0, pool), adapter.tree_json(t1, ser1, pool)
    full = {}
    for ordered, reduce in itertools.product((False, True), (False, True)):
        case = dict(t0=s0, t1=s1, ordered=ordered, reduce=reduce)
        try:
            d = t0.diff(t1, ordered=ordered, reduce=reduce)
            sh = shape(d.children)
            d._self_check()
        except Exception as e:  # noqa
            out.fail(case, f"diff raised {e!r}")
            continue
        out.count((repr(s0), repr(s1), ordered, reduce), len(n0) + len(n1) >= 2 and n0 != n1)
        if names(t0.children) != n0 or names(t1.children) != n1 or full_snapshot(t0) != snap0 or full_snapshot(t1) != snap1:
            out.fail(case, "diff() modified an input tree (identity, data, data_id, metadata, parent or child lists of its nodes)")
            snap0, snap1 = full_snapshot(t0), full_snapshot(t1)
        problems = []
        if not reduce:
            full[ordered] = sh
            # projections
            p2 = unordered(plain(drop(sh, REM)))
            if p2 != unordered(n1):
                problems.append(f"dropping removed/moved-away nodes gives {p2}, second tree is {unordered(n1)}")
            check_first(sh, t0.children, problems, [])
            check_marks(sh, t0.children, t1.children, ordered, problems, [])
            # moved pairs
            flat = []

            def fl(s):
                for x in s:
                    flat.append(x)
                    fl(x[3])

            fl(sh)
            for x in flat:
                if x[1] == "MOVED_HERE" and not any(y[1] == "MOVED_TO" and y[0] == x[0] for y in flat):
                    problems.append(f"MOVED_HERE node {x[0]} without a MOVED_TO node with the same data")
                if x[1] == "MOVED_TO" and not any(y[1] == "MOVED_HERE" and y[0] == x[0] for y in flat):
                    problems.append(f"MOVED_TO node {x[0]} without a MOVED_HERE node")
        else:
            wants = [reduce_spec(v) for v in variants(undo(full.get(ordered, [])))]
            if sh not in wants:
                problems.append(f"reduce=True gives {sh}, marked nodes and their ancestors are {wants[0] if wants else None} (or another choice of the moved-here clone)")
        if problems:
            out.fail(case, f"diff(ordered={ordered}, reduce={reduce}) of {s0} vs {s1}: {problems[0]}", result=sh)
        m = ctx.driver.ask({"op": "diff", "t0": j0, "t1": j1, "ordered": ordered, "reduce": reduce})
        if "fail" in m:
            raise core.MachineryError(f"driver {m}")
        msh = model_shape(m["ok"], pool)
        if not reduce:
            if sh not in variants(undo(msh)):
                out.disagree(case, f"diff: implementation {sh}, model {msh}")
        else:
            mfull = model_shape(ctx.driver.ask({"op": "diff", "t0": j0, "t1": j1, "ordered": ordered, "reduce": False})["ok"], pool)
            if sh not in [reduce_spec(v) for v in variants(undo(mfull))] or msh not in [reduce_spec(v) for v in variants(undo(mfull))]:
                out.disagree(case, f"diff(reduce): implementation {sh}, model {msh}")
    identical_checks(out, t0, s0)


def identical_checks(out, t0, s0):
    """a tree compared with an identical copy, and with ITSELF (the same object on both sides): no marks; with reduce=True
    nothing is kept (no node is marked), without it every node is there"""
    n0 = len(_flat(shape(t0.children)))
    for who in ("copy", "self"):
        for ordered in (False, True):
            for reduce in (False, True):
                case = dict(t0=s0, t1=who, ordered=ordered, reduce=reduce)
                out.dist["identical:" + who] += 1
                try:
                    dd = t0.diff(t0.copy() if who == "copy" else t0, ordered=ordered, reduce=reduce)
                    fl = _flat(shape(dd.children))
                except Exception as e:  # noqa
                    out.fail(case, f"diff with {'an identical copy' if who == 'copy' else 'the tree itself'} (ordered={ordered}, reduce={reduce}) raised {e!r}")
                    continue
                if any(x[1] is not None for x in fl):
                    out.fail(case, f"diff with {'an identical copy' if who == 'copy' else 'the tree itself'} (ordered={ordered}, reduce={reduce}) carries marks: {shape(dd.children)}")
                elif len(fl) != (0 if reduce else n0):
                    out.fail(case, f"diff with {'an identical copy' if who == 'copy' else 'the tree itself'} (ordered={ordered}, reduce={reduce}) has {len(fl)} nodes, "
                                   f"expected {0 if reduce else n0} (no node is marked)")


def full_snapshot(tree):
    """complete observable state of an input tree (public API only)"""
    return [tree.count, tree.count_unique] + [
        [id(n), id(n.data), repr(n.data_id), json.dumps(n.meta, sort_keys=True, default=str), id(n.parent), [id(c) for c in n.children]] for n in tree]


def _flat(sh):
    out = []
    for x in sh:
        out.append(x)
        out += _flat(x[3])
    return out


def run(ctx):
    out = core.Outcome(
        rule="pairs of forests over a shared 3-4 label alphabet with clones: all pairs of labelled forests with <= 3 nodes each (exhaustive), random pairs "
        "with <= 4 / <= 12 nodes where the second tree is a mutation of the first (moves, removals, additions, reorderings); for each pair all four "
        "(ordered, reduce) settings. Oracles on the implementation: identical copy -> no marks; both projections; marks exactly on one-sided children; "
        "moved pairs; true order indices; reduce = marked nodes + ancestors; inputs unchanged. non-trivial = trees differ; distinct = (pair, setting)"
    )
    rng = ctx.rng
    n_ex = 3
    small = []
    for n in range(0, n_ex + 1):
        for sh in gen.forests(n):
            for spec in gen.labelings(sh, LABELS[:3], limit=(None if n <= 2 else (12 if ctx.thorough else 5)), rng=rng):
                small.append(spec)
    pairs = list(itertools.product(small, small))
    if not ctx.thorough:
        rng.shuffle(pairs)
        pairs = pairs[:1500]
    for s0, s1 in pairs:
        one_pair(ctx, out, s0, s1)
    out.extra["small_forests"] = len(small)
    for k in range(600 if ctx.thorough else 120):
        n = rng.randrange(3, 13 if ctx.thorough or k % 3 == 0 else 7)
        s0 = gen.random_spec(rng, n, LABELS, clone_rate=0.4)
        s1 = mutate(rng, s0)
        one_pair(ctx, out, s0, s1)
        if k % 4 == 0:
            # whole (deep) branches present on one side only: against the empty tree, and a deep chain grafted below a random node
            deep = gen.label_forest(gen.random_shape(rng, rng.randrange(4, 9), deep_bias=0.9), iter([rng.choice(LABELS[:3]) for _ in range(9)]))
            deep = dedup_siblings(deep)
            one_pair(ctx, out, [], deep)
            one_pair(ctx, out, deep, [])
            one_pair(ctx, out, s0, s0 + [d for d in deep if all(d[0] != x[0] for x in s0)])
        out.dist["random_pair"] += 1
        if k < 3:
            out.sample(dict(t0=s0, t1=s1))
        if k % 3 == 0:
            mut_pair(ctx, out, s0, s1, rng.randrange(1 << 30))
            out.dist["diff_edit_diff"] += 1
    return out


def dedup_siblings(spec):
    out, seen = [], set()
    for lab, kids in spec:
        if lab in seen:
            continue
        seen.add(lab)
        out.append((lab, dedup_siblings(kids)))
    return out


def mutate(rng, spec):
    """a second tree derived from the first by a few edits (keeps sibling uniqueness)"""
    import copy

    s = copy.deepcopy(spec)

    def lists(f, acc):
        acc.append(f)
        for _, k in f:
            lists(k, acc)
        return acc

    for _ in range(rng.randrange(1, 5)):
        ls = lists(s, [])
        l = rng.choice(ls)
        r = rng.random()
        if r < 0.3 and l:
            l.pop(rng.randrange(len(l)))
        elif r < 0.55:
            lab = rng.choice(LABELS)
            if all(x[0] != lab for x in l):
                l.insert(rng.randrange(len(l) + 1), (lab, []))
        elif r < 0.8 and len(l) >= 2:
            i, j = rng.sample(range(len(l)), 2)
            l[i], l[j] = l[j], l[i]
        elif l:
            # move a branch elsewhere
            x = l.pop(rng.randrange(len(l)))
            tgt = rng.choice(lists(s, []))
            if all(y[0] != x[0] for y in tgt):
                tgt.append(x)
    return s


def replay(ctx, rp):
    from props.c10 import tuplify_d

    case = rp["case"]
    out = core.Outcome()
    if case.get("t1") in ("copy", "self"):
        identical_checks(out, adapter.build(tuplify_d(case["t0"]), ctx.pool), case["t0"])
        return dict(failures=[f["what"] for f in out.oracle_failures[:4]], property_holds=not out.oracle_failures)
    if isinstance(case.get("t0"), dict) and "mut" in case["t0"]:
        m = case["t0"]["mut"]
        mut_pair(ctx, out, tuplify_d(m["t0"]), tuplify_d(m["t1"]), m["seed"], m["steps"])
    else:
        one_pair(ctx, out, tuplify_d(case["t0"]), tuplify_d(case["t1"]))
    return dict(failures=[f["what"] for f in out.oracle_failures[:4]], disagreements=[d["what"] for d in out.disagreements[:3]], property_holds=not out.oracle_failures)
