"""Shared driver for the history-based checks (C01, C02, C03, C04, C07, C13)."""
from __future__ import annotations

import itertools
import json

import core
import gen
import histories as H

C01_KEYS = ("parent", "owner", "ids", "registry", "removed")
TAIL_STEPS = 14      # steps on the implementation alone after a divergence (search for a failing history)
PROBE_DIVERGENCES = 6   # single-operation campaign: divergences from which every second operation is tried
PROBE_OPS = 160


def setup_runner(ctx, cfg):
    r = H.Runner(ctx, oracles=cfg.get("oracles", True))
    for _ in range(cfg.get("trees", 2)):
        r.new_tree(cfg.get("typed", False), cfg.get("hook"))
    for op in cfg.get("setup", []):
        s = r.step(dict(op))
        if s.problems:
            return r, s
    return r, None


def run_log(ctx, cfg, log, judge):
    """replay a history; returns (list of (index, failure text)), steps"""
    r, s0 = setup_runner(ctx, dict(cfg, setup=[]))
    fails = []
    steps = []
    for i, op in enumerate(log):
        s = r.step(dict(op))     # after a divergence the runner goes on with the implementation alone
        steps.append(s)
        for f in judge(s, r):
            fails.append((i, f))
        if fails:
            break
    return fails, steps


def shrink(ctx, cfg, log, judge, tag, budget=40):
    """greedy removal of operations while the same failure tag persists"""
    cur = list(log)
    tries = 0
    i = len(cur) - 2
    while i >= 0 and tries < budget:
        cand = cur[:i] + cur[i + 1:]
        tries += 1
        try:
            fails, _ = run_log(ctx, cfg, cand, judge)
        except core.MachineryError:
            fails = []
        except Exception:  # noqa
            fails = []
        if fails and fails[0][1][0] == tag:
            cur = cand[: fails[0][0] + 1]
            i = min(i, len(cur) - 1)
        i -= 1
    return cur


def history_campaign(ctx, out, judge, *, n_hist, n_steps, profiles, labels_sets, exhaustive_nodes=0, single_ops=None):
    """random structured histories; every failing one is shrunk and recorded"""
    rot = itertools.count()
    seen_tags = {}
    for h in range(n_hist):
        if ctx.time_left() < 5:
            out.notes.append("time budget reached")
            break
        # (two independent rotations: one shared counter would pair every profile with only some label sets and, for an
        # even number of profiles, skip every second profile)
        prof = profiles[h % len(profiles)]
        labels = labels_sets[(h // len(profiles) + h) % len(labels_sets)]
        cfg = dict(typed=prof.get("typed", False), hook=prof.get("hook"), trees=2)
        r, _ = setup_runner(ctx, cfg)
        log = []
        failed = None
        size_max = 0
        diverged_at = None
        div_op = None
        for i in range(n_steps + TAIL_STEPS):
            if i >= n_steps and diverged_at is None:
                break
            ti = 0 if ctx.rng.random() < 0.7 else 1
            op = H.random_op(ctx.rng, r.impl, ti, labels=labels, typed=cfg["typed"], malformed=prof.get("malformed", 0.1), ops=prof.get("ops"),
                             did_rate=prof.get("did_rate", 0.15), dids=prof.get("dids", (1001, 1002, "x", "y", 7, 0, "")))
            if diverged_at is not None and i - diverged_at <= 4 and div_op is not None:
                # the first steps after a divergence repeat the operation on which the two sides parted (at another place every
                # second time): what one such call leaves behind is often harmless, what the next one finds is not
                op = dict(div_op)
                if (i - diverged_at) % 2 == 0 and "p" in op and "t" in op:
                    try:
                        allp_ = [[]] + H.paths_of(r.impl.trees[op["t"]])
                        op["p"] = ctx.rng.choice(allp_)
                        op["before"] = None
                        op.pop("ref", None)
                        if op.get("via") in ("prepend_sibling", "append_sibling"):
                            op.pop("via")
                    except Exception:  # noqa
                        pass
            try:
                s = r.step(op)
            except RecursionError:
                if diverged_at is None:
                    raise
                break     # implementation-only continuation on a diverged (possibly corrupted, very deep) tree: this history ends here
            log.append(H.clean(op))
            size_max = max(size_max, s.n_nodes)
            out.evaluations += 1
            out.dist["op:" + op["op"] + (":" + op["via"] if op.get("via") else "")] += 1
            out.dist["res:" + s.impl_res] += 1
            fs = judge(s, r)
            if fs:
                failed = (i, fs[0], s)
                break
            if r.dead and diverged_at is None:
                # model and implementation diverged without a property failure: the history goes on for a few steps on the
                # implementation alone (oracles that need no model), as a search for a concrete failing history
                out.disagree(dict(cfg=pub(cfg), log=list(log)), f"step {i} {H.clean(op)}: {s.problems[:2]}", step=s.as_dict())
                diverged_at = i
                div_op = H.clean(op)
            if diverged_at is not None and i - diverged_at >= TAIL_STEPS:
                break
        key = core.hash_str(json.dumps(log, sort_keys=True, default=str))
        if size_max >= 3 and len(log) >= 3:
            out.keys.add(key)
        if h < 3:
            out.sample(dict(profile=prof.get("name"), ops=log[:12]))
        if failed:
            i, (tag, text, finding), s = failed
            if seen_tags.get(tag, 0) < 3:
                seen_tags[tag] = seen_tags.get(tag, 0) + 1
                small = shrink(ctx, cfg, log, judge, tag)
                fails2, steps2 = run_log(ctx, cfg, small, judge)
                last = steps2[-1].as_dict() if steps2 else s.as_dict()
                out.fail(dict(cfg=pub(cfg), log=small), f"[{tag}] after {len(small)} operations, last {small[-1] if small else None}: {text}",
                         step=last, finding=finding)
            else:
                out.fail(dict(cfg=pub(cfg), log=log), f"[{tag}] {text}", finding=finding)


# fixed histories shared by the history checks: calls ON nodes that were removed earlier (stale handles kept by a caller)
_BUILD = [{"op": "w.add", "t": 0, "p": [], "a": 0}, {"op": "w.add", "t": 0, "p": [0], "a": 6}, {"op": "w.add", "t": 0, "p": [0, 0], "a": 2},
          {"op": "w.add", "t": 0, "p": [], "a": 1}, {"op": "w.add", "t": 0, "p": [1], "a": 7}]
STALE_HANDLE_HISTORIES = []
for _rm in ({"op": "w.removechildren", "t": 0, "n": [], "tree_api": True},       # Tree.clear(): graveyard = [A, a1, C, B, a2]
            {"op": "w.removechildren", "t": 0, "n": [0], "tree_api": False},     # A.remove_children(): graveyard = [a1, C]
            {"op": "w.remove", "t": 0, "n": [0], "keep": False, "clones": False},   # A.remove(): graveyard = [A, a1, C]
            {"op": "w.del", "t": 0, "a": 0}):                                      # del tree["A"]
    for _k in (0, 1, 2):
        for _what in ("add", "move", "set_data", "remove", "remove_children"):
            STALE_HANDLE_HISTORIES.append(_BUILD + [_rm, {"op": "w.dead", "t": 0, "k": _k, "what": _what, "to": [], "a": 3},
                                                    {"op": "w.add", "t": 0, "p": [], "a": 3}, {"op": "w.add", "t": 0, "p": [], "a": 6}])


def fixed_histories(ctx, out, judge, logs, cfgs=(dict(typed=False, hook=None, trees=2),)):
    """run hand-made histories (every step judged); failures are recorded with the prefix that fails"""
    for cfg in cfgs:
        for log in logs:
            fails, steps = run_log(ctx, cfg, log, judge)
            out.evaluations += len(steps)
            for s_ in steps:
                out.dist["op:" + s_.op["op"] + (":" + s_.op["via"] if s_.op.get("via") else "")] += 1
                out.dist["res:" + s_.impl_res] += 1
            out.keys.add(core.hash_str(json.dumps([pub(cfg), log], sort_keys=True, default=str)))
            if fails:
                i, (tag, text, finding) = fails[0]
                out.fail(dict(cfg=pub(cfg), log=log[: i + 1]), f"[{tag}] fixed history, op {log[i]}: {text}", step=steps[-1].as_dict(), finding=finding)
            elif steps and any(s_.problems for s_ in steps):
                bad = next(s_ for s_ in steps if s_.problems)
                out.disagree(dict(cfg=pub(cfg), log=log), f"fixed history {log}: {bad.problems[:2]}", step=bad.as_dict())


def pub(cfg):
    return {k: v for k, v in cfg.items() if k in ("typed", "hook", "trees")}


def exhaustive_single_ops(ctx, out, judge, *, max_nodes, alphabet, typed=False, ops_of=None, label_limit=4, specs=None):
    """every forest with <= max_nodes nodes (labelings with clones sampled) x every single
    operation of `ops_of(impl, ti)`; with `specs`, those labelled forests instead"""
    count = 0
    import time as _time

    # at most half of the remaining time budget goes to the single-operation enumeration (the histories need the rest); the
    # hand-made forests (collisions at non-first positions, ==-equal siblings, nested clones) come first
    t_end = _time.time() + max(ctx.time_left() * 0.5, 5.0) if ctx.budget_s is not None else float("inf")
    if specs is None:
        c2 = exhaustive_single_ops(ctx, out, judge, max_nodes=max_nodes, alphabet=alphabet, typed=typed, ops_of=ops_of, label_limit=label_limit, specs=EQ_SIBLING_SPECS)
        out.dist["eq_sibling_single_ops"] += c2
        count += c2
    for n in ([None] if specs is not None else range(0, max_nodes + 1)):
        for shape in ([None] if specs is not None else gen.forests(n)):
            if specs is not None:
                labelings = specs
                n = 3
            else:
                labelings = list(gen.labelings(shape, alphabet, limit=(None if n <= 2 else label_limit), rng=ctx.rng))
            for spec in labelings:
                cfg = dict(typed=typed, trees=2)
                other = [(alphabet[0], [(alphabet[1], [])]), (alphabet[-1], [])]
                if typed:   # kinds other than the default, so that a copy that loses the kind shows
                    other = [((alphabet[0], "a"), [((alphabet[1], "b"), [])]), ((alphabet[-1], "b"), [])]
                if specs is not None:
                    # the source's LAST top node shares its data_id (5) with a child of the target that holds other data: a copy of the
                    # source's children collides at a non-first position, by id and not by ==
                    other = [({"a": alphabet[0], "k": "a"}, [({"a": alphabet[1], "k": "b"}, [])]), ({"a": 11, "did": 5, "k": "b"}, [])]
                setup = H.build_ops(spec, 0, typed) + H.build_ops(other, 1, typed)
                # enumerate ops on a probe world
                r0, s0 = setup_runner(ctx, dict(cfg, setup=setup, oracles=False))
                if s0 is not None:
                    out.disagree(dict(cfg=pub(cfg), log=setup), f"setup diverged: {s0.problems[:2]}")
                    continue
                ops = ops_of(r0.impl, 0)
                for op in ops:
                    if ctx.time_left() < 5 or _time.time() > t_end:
                        out.notes.append(f"time share of the single-operation enumeration used up (forests of {n} nodes not completed)")
                        return count
                    r, _ = setup_runner(ctx, dict(cfg, setup=setup, oracles=False))
                    r.oracles = True
                    s = r.step(dict(op))
                    count += 1
                    out.evaluations += 1
                    out.dist["op:" + op["op"] + (":" + op["via"] if op.get("via") else "")] += 1
                    out.dist["res:" + s.impl_res] += 1
                    if n >= 2:
                        out.keys.add(core.hash_str(json.dumps([spec, H.clean(op)], sort_keys=True, default=str)))
                    fs = judge(s, r)
                    if fs:
                        tag, text, finding = fs[0]
                        out.fail(dict(cfg=pub(cfg), log=setup + [H.clean(op)]), f"[{tag}] tree {spec}, op {H.clean(op)}: {text}", step=s.as_dict(), finding=finding)
                    elif s.problems:
                        out.disagree(dict(cfg=pub(cfg), log=setup + [H.clean(op)]), f"tree {spec}, op {H.clean(op)}: {s.problems[:2]}", step=s.as_dict())
                        # search: from the diverged state, every second operation on the implementation alone
                        if out.dist["probed_divergences"] < PROBE_DIVERGENCES:
                            out.dist["probed_divergences"] += 1
                            try:
                                ops2 = [o for o in ops_of(r.impl, 0) if o["op"] not in ("w.filter",) and not isinstance(o.get("key"), dict)]
                            except Exception:  # noqa
                                ops2 = []
                            if len(ops2) > PROBE_OPS:
                                ops2 = ctx.rng.sample(ops2, PROBE_OPS)
                            for op2 in ops2:
                                if ctx.time_left() < 5:
                                    break
                                r2, _ = setup_runner(ctx, dict(cfg, setup=setup, oracles=False))
                                r2.step(dict(op))
                                if not r2.dead:
                                    break
                                r2.oracles = True
                                try:
                                    s2 = r2.step(dict(op2))
                                    fs2 = judge(s2, r2)
                                except core.MachineryError:
                                    raise
                                except Exception:  # noqa
                                    continue
                                out.evaluations += 1
                                if fs2:
                                    tag, text, finding = fs2[0]
                                    out.fail(dict(cfg=pub(cfg), log=setup + [H.clean(op), H.clean(op2)]),
                                             f"[{tag}] tree {spec}, ops {H.clean(op)}, {H.clean(op2)}: {text}", step=s2.as_dict(), finding=finding)
                                    break
    return count


# siblings whose data compares equal (the same string, equal-but-distinct objects) under different explicit data_ids:
# positions given by `before=<node>` must be found by identity, not by ==
EQ_SIBLING_SPECS = [
    [({"a": 0, "did": 1}, []), ({"a": 0, "did": 2}, [({"a": 0, "did": 3}, []), ({"a": 0, "did": 4}, [])]), ({"a": 0, "did": 5}, [])],
    [({"a": 18, "did": 1}, []), ({"a": 19, "did": 2}, []), ({"a": 18, "did": 3}, [({"a": 19, "did": 1}, []), ({"a": 18, "did": 2}, [])])],
    # other data under the id (5) that the source tree's last top node carries
    [({"a": 1, "did": 5}, []), ({"a": 2, "did": 6}, [({"a": 1, "did": 5}, [])])],
    # collisions at a NON-first position: un-nesting X's children [u, v] next to a sibling v' (refused after u was looked at),
    # nested clones (a node directly below its clone) with a grandchild that collides one level up, clone groups with children
    [(0, [(1, []), (2, [])]), (2, [])],
    [(0, [(0, [(2, [])])]), (2, [])],
    [(0, [(1, []), (2, [(3, [])])]), (1, [(2, [])]), (3, [])],
    [(0, [(1, [(2, [])]), (2, [])]), (1, [(0, [])])],
]


def all_single_ops(impl, ti, *, labels, full=True):
    """every operation with every argument combination on tree ti (other tree = 1 - ti)"""
    t = impl.trees[ti]
    paths = H.paths_of(t)
    allp = [[]] + paths
    ops = []
    other = 1 - ti
    for p in allp:
        par = impl.node(ti, p)
        n = len(par.children)
        bs = [None, True, False, 0, 1, n, n + 2, -1] + [{"path": p + [i]} for i in range(n)]
        foreign = [q for q in paths if q[:-1] != p][:1]
        bs += [{"path": q} for q in foreign]
        for a in labels:
            for b in bs:
                ops.append({"op": "w.add", "t": ti, "p": p, "a": a, "before": b, "tree_api": False})
            for via in ("append_child", "prepend_child"):
                ops.append({"op": "w.add", "t": ti, "p": p, "a": a, "via": via})
        for sp in paths:
            if p[: len(sp)] == sp:
                deeps = [False]
            else:
                deeps = [None, True]
            for deep in deeps:
                for b in bs[:4] + bs[8:9]:
                    ops.append({"op": "w.addnode", "t": ti, "p": p, "st": ti, "sp": sp, "before": b, "deep": deep})
        for sp in H.paths_of(impl.trees[other])[:2]:
            for deep in (None, True):
                ops.append({"op": "w.addnode", "t": ti, "p": p, "st": other, "sp": sp, "before": None, "deep": deep})
            # add(node, data_id=): the source's own id / another id / falsy ids, shallow and deep
            src_id = impl.node(other, sp).data_id
            for did in ([src_id] if not (isinstance(src_id, int) and abs(src_id) >= 10**6) else []) + [0, "", 1001]:
                for deep in (None, True):
                    ops.append({"op": "w.addnode", "t": ti, "p": p, "st": other, "sp": sp, "before": None, "deep": deep, "did": did})
        for b in bs[:5] + [-1, -2, n] + bs[8:9]:
            ops.append({"op": "w.addtree", "t": ti, "p": p, "st": other, "before": b, "deep": None})
        for sp in [[]] + H.paths_of(impl.trees[other])[:1]:
            ops.append({"op": "w.copykids", "t": ti, "p": p, "st": other, "sp": sp, "deep": True, "tree_api": not sp})
    for q in paths:
        for a in labels[:2]:
            for via in ("prepend_sibling", "append_sibling"):
                ops.append({"op": "w.add", "t": ti, "p": q[:-1], "ref": q, "a": a, "via": via})
        for to in allp:
            par = impl.node(ti, to)
            sibs = [i for i in range(len(par.children)) if to + [i] != q]
            bs = [None, True, False, 0, 1, 3, -1, -2] + [{"path": to + [i]} for i in sibs[:2]] + [{"path": q}]
            for b in bs:
                ops.append({"op": "w.move", "t": ti, "n": q, "to": to, "before": b, "tree_api": False})
        ops.append({"op": "w.move", "t": ti, "n": q, "to": [], "cross": True, "ct": other})
        for keep in (False, True):
            for clones in (False, True):
                ops.append({"op": "w.remove", "t": ti, "n": q, "keep": keep, "clones": clones})
        ops.append({"op": "w.removechildren", "t": ti, "n": q})
        for a in labels[:3]:
            for wc in (None, True, False):
                ops.append({"op": "w.setdata", "t": ti, "n": q, "a": a, "clones": wc})
                ops.append({"op": "w.setdata", "t": ti, "n": q, "a": a, "did": 1001, "clones": wc})
            ops.append({"op": "w.setdata", "t": ti, "n": q, "a": a, "via": "rename", "clones": None})
        ops.append({"op": "w.setdata", "t": ti, "n": q, "a": None, "did": None, "clones": None})
        ops.append({"op": "w.setdata", "t": ti, "n": q, "a": None, "did": 1001, "clones": True})
    for p in allp:
        for rev in (False, True):
            for deep in (False, True):
                ops.append({"op": "w.sort", "t": ti, "n": p, "reverse": rev, "deep": deep, "tree_api": False})
    ops.append({"op": "w.removechildren", "t": ti, "n": [], "tree_api": True})
    ops.append({"op": "w.sort", "t": ti, "n": [], "tree_api": True})
    ops.append({"op": "w.sort", "t": ti, "n": [], "tree_api": True, "deep": False, "reverse": True})
    # `del tree[key]` with every kind of key for this tree
    for keys in H.del_keys(impl, ti, labels).values():
        for key in keys:
            ops.append(dict({"op": "w.del", "t": ti}, **key))
    # the sibling shortcuts on the system root (AttributeError: it has no parent)
    for via in ("prepend_sibling", "append_sibling"):
        ops.append({"op": "w.add", "t": ti, "p": [], "ref": [], "a": labels[0], "via": via})
    return ops


def replay(ctx, rp, judge):
    case = rp["case"]
    cfg = case["cfg"]
    fails, steps = run_log(ctx, cfg, case["log"], judge)
    return dict(steps=[s.as_dict() for s in steps[-3:]], failures=[f[1][1] for f in fails], property_holds=not fails)
