"""C07 — copies are faithful to the source and independent of it."""
from __future__ import annotations

import json

import core
import histories as H
from props import _hist
from props.c01 import LABELS

LEVEL = "proof"
TRUSTED = [
    "faithfulness is evaluated on the implementation alone (same data object by `is`, same data_id, same kind, same order, recursively for deep copies); "
    "independence = after every later operation the model (whose trees are independent values) and every real tree still agree",
]
ASSUMPTIONS = ["copying a branch below itself with deep=True is excluded (unbounded recursion in the implementation)"]
COPY_OPS = ("w.addnode", "w.addtree", "w.copy", "w.nodecopy", "w.copykids")


def same(src, cp, deep, diffs, where, top):
    if cp.data is not src.data:
        diffs.append(("data", f"{where}: copy holds another data object"))
    if cp.data_id != src.data_id:
        diffs.append(("data_id", f"{where}: data_id {cp.data_id!r} != source's {src.data_id!r}"))
    if getattr(cp, "kind", None) != getattr(src, "kind", None):
        diffs.append(("kind-top" if top else "kind", f"{where}: kind {getattr(cp, 'kind', None)!r} != source's {getattr(src, 'kind', None)!r}"))
    if deep:
        if len(cp.children) != len(src.children):
            diffs.append(("shape", f"{where}: {len(cp.children)} children, source has {len(src.children)}"))
        else:
            for i, (a, b) in enumerate(zip(src.children, cp.children)):
                same(a, b, True, diffs, where + [i], False)
    elif cp.children:
        diffs.append(("shape", f"{where}: shallow copy has children"))


def judge(s, r):
    out = []
    op = s.op
    k = op["op"]
    if k in COPY_OPS and s.impl_res == "ok" and s.src_obj is not None:
        new = {id(o) for o in s.new_objs}
        diffs = []
        if k == "w.addnode":
            deep = bool(op.get("deep"))
            tops = [c for c in s.tgt_obj.children if id(c) in new] if s.tgt_obj is not None else []
            if len(tops) != 1:
                diffs.append(("shape", f"expected one new child below the target, found {len(tops)}"))
            else:
                same(s.src_obj, tops[0], deep, diffs, [], True)
                if op.get("kind") is not None and getattr(tops[0], "kind", None) == op["kind"]:
                    diffs = [d for d in diffs if d[0] != "kind-top"]   # an explicit kind= was requested
        elif k in ("w.addtree", "w.copykids"):
            deep = op.get("deep")
            deep = (True if k == "w.addtree" or (not op["sp"] and op.get("tree_api", True)) else False) if deep is None else deep
            tops = [c for c in s.tgt_obj.children if id(c) in new] if s.tgt_obj is not None else []
            srcs = list(s.src_obj.children)
            if len(tops) != len(srcs):
                diffs.append(("shape", f"{len(tops)} new children below the target, source has {len(srcs)}"))
            else:
                for i, (a, b) in enumerate(zip(srcs, tops)):
                    same(a, b, deep, diffs, [i], True)
        elif k == "w.copy":
            nt = r.impl.trees[-1]
            if type(nt) is not type(r.impl.trees[op["st"]]):
                diffs.append(("class", f"copy is a {type(nt).__name__}, source a {type(r.impl.trees[op['st']]).__name__}"))
            srcs = list(s.src_obj.children)
            if len(nt.children) != len(srcs):
                diffs.append(("shape", "number of top nodes differs"))
            else:
                for i, (a, b) in enumerate(zip(srcs, nt.children)):
                    same(a, b, True, diffs, [i], False)
        elif k == "w.nodecopy":
            nt = r.impl.trees[-1]
            if op.get("self", True):
                if len(nt.children) != 1:
                    diffs.append(("shape", "copy has not exactly one top node"))
                else:
                    same(s.src_obj, nt.children[0], True, diffs, [], True)
            else:
                if len(nt.children) != len(s.src_obj.children):
                    diffs.append(("shape", "number of top nodes differs"))
                else:
                    for i, (a, b) in enumerate(zip(s.src_obj.children, nt.children)):
                        same(a, b, True, diffs, [i], False)
        for tag, text in diffs:
            # the known finding is add_child(<TypedNode>) without kind= (add(node), copy_to, Node.copy); add(<TypedTree>) passes the kinds on
            finding = "KF-C07-typed-copy-default-kind" if tag == "kind-top" and k != "w.addtree" else None
            out.append(("unfaithful-" + tag, f"{H.clean(op)}: {text}", finding))
            break
        # the source is left unchanged (cross-tree copies: the whole source tree)
        st = op.get("st")
        if st is not None and st != op.get("t", -1) and st < len(s.pre) and s.pre[st] != s.post[st]:
            out.append(("source-changed", f"{H.clean(op)} changed the source tree T{st}", None))
    if k in COPY_OPS and s.problems and (s.impl_res == "ok" or s.model_res == "ok"):
        out.append(("copy-effect", s.problems[0], None))
    if k not in COPY_OPS and s.problems:
        t = op.get("t")
        others = [p for p in s.problems if p.startswith("T") and not p.startswith(f"T{t} ")]
        if others:
            out.append(("not-independent", f"{H.clean(op)} on T{t} is visible in another tree: {others[0]}", None))
    return out


def copy_op(rng, impl, typed):
    nt = len(impl.trees)
    st = rng.randrange(nt)
    sp_all = H.paths_of(impl.trees[st])
    r = rng.random()
    if r < 0.12 and nt < 6:
        return {"op": "w.copy", "st": st}
    if r < 0.3 and sp_all and nt < 6:
        return {"op": "w.nodecopy", "st": st, "sp": rng.choice(sp_all), "self": rng.random() < 0.6}
    ti = rng.randrange(nt)
    allp = [[]] + H.paths_of(impl.trees[ti])
    p = rng.choice(allp)
    if r < 0.5:
        sp = rng.choice([[]] + sp_all) if sp_all else []
        if st == ti and p[: len(sp)] == sp:
            return None
        return {"op": "w.copykids", "t": ti, "p": p, "st": st, "sp": sp, "deep": rng.choice([True, False]), "tree_api": rng.random() < 0.7}
    if r < 0.6 and st != ti and impl.trees[st].children:
        op = {"op": "w.addtree", "t": ti, "p": p, "st": st, "before": rng.choice(H.befores(rng, impl, ti, p)[:9]), "deep": rng.choice([None, True, False])}
        if rng.random() < 0.4:
            H.via_shortcut(rng, impl, ti, op)      # append_child / prepend_child / prepend_sibling / append_sibling (<tree>)
        return op
    if not sp_all:
        return None
    sp = rng.choice(sp_all)
    deep = rng.choice([None, True, False])
    if st == ti and p[: len(sp)] == sp:
        deep = False
    op = {"op": "w.addnode", "t": ti, "p": p, "st": st, "sp": sp, "before": rng.choice(H.befores(rng, impl, ti, p)), "deep": deep}
    if rng.random() < 0.4:
        op["via"] = "copy_to"
        op["deep"] = bool(deep)
    elif typed and rng.random() < 0.5:
        op["kind"] = impl.node(st, sp).kind
    if op.get("via") != "copy_to" and not isinstance(op.get("before"), dict) and rng.random() < 0.3:
        H.via_shortcut(rng, impl, ti, op)
    return op


def campaign(ctx, out, n_hist, n_steps):
    seen = {}
    for h in range(n_hist):
        if ctx.time_left() < 5:
            out.notes.append("time budget reached")
            break
        typed = h % 3 == 2
        hook = [[0, "k0"], [1, "k1"], [18, "item"], [19, "item"]] if h % 5 == 4 else None
        cfg = dict(typed=typed, hook=hook, trees=2)
        r, _ = _hist.setup_runner(ctx, cfg)
        labels = LABELS[h % len(LABELS)]
        log = []
        for i in range(n_steps):
            nt = len(r.impl.trees)
            if i >= 4 and ctx.rng.random() < 0.45:
                op = copy_op(ctx.rng, r.impl, typed)
                if op is None:
                    continue
            else:
                ti = ctx.rng.randrange(nt)
                op = H.random_op(ctx.rng, r.impl, ti, labels=labels, typed=typed, malformed=0.05,
                                 ops=["add", "add", "add", "shortcut", "move", "remove", "setdata", "sort", "removechildren", "meta"])
            s = r.step(op)
            log.append(H.clean(op))
            out.evaluations += 1
            out.dist["op:" + op["op"] + (":" + op["via"] if op.get("via") else "")] += 1
            out.dist["res:" + s.impl_res] += 1
            fs = judge(s, r)
            if fs:
                tag, text, finding = fs[0]
                if seen.get(tag, 0) < 3 and finding is None:
                    seen[tag] = seen.get(tag, 0) + 1
                    small = _hist.shrink(ctx, cfg, log, judge, tag)
                else:
                    small = log
                out.fail(dict(cfg=_hist.pub(cfg), log=small), f"[{tag}] {text}", step=s.as_dict(), finding=finding)
                if finding is None:
                    break
            if r.dead:
                if not fs:
                    out.disagree(dict(cfg=_hist.pub(cfg), log=log), f"step {i} {H.clean(op)}: {s.problems[:2]}", step=s.as_dict())
                break
        if len(log) >= 4:
            out.keys.add(core.hash_str(json.dumps(log, sort_keys=True, default=str)))
        if h < 3:
            out.sample(dict(typed=typed, ops=log[:14]))


CORPUS = [
    # KF-C07-typed-copy-default-kind: typed node of kind 'a' copied with add(node) gets kind 'child'
    dict(cfg=dict(typed=True, hook=None, trees=2), log=[
        {"op": "w.add", "t": 0, "p": [], "a": 0, "kind": "a"}, {"op": "w.add", "t": 0, "p": [0], "a": 1, "kind": "b"},
        {"op": "w.add", "t": 1, "p": [], "a": 2, "kind": "a"},
        {"op": "w.addnode", "t": 1, "p": [0], "st": 0, "sp": [0], "before": None, "deep": True}]),
]


def run(ctx):
    out = core.Outcome(
        rule="random histories over up to 6 trees (plain, typed, calc_data_id hook) in which ~45% of the steps are copy operations by every route "
        "(Tree.copy, Node.copy add_self on/off, copy_to add_self on/off with every `before`, deep/shallow, Tree.copy_to, add(node), add(tree, before)) "
        "with clones and explicit ids, followed by further mutations on either side. After each copy: faithfulness oracle on the implementation and "
        "source-unchanged; after every step: all trees equal the model's (independence). non-trivial = history >= 4 ops; distinct by content"
    )
    ctx.budget_s = ctx.budget(900, 100)
    for c in CORPUS:
        fails, steps = _hist.run_log(ctx, c["cfg"], c["log"], judge)
        out.evaluations += len(c["log"])
        for i, (tag, text, finding) in fails:
            out.fail(dict(cfg=c["cfg"], log=c["log"][: i + 1]), f"[{tag}] {text}", step=steps[-1].as_dict(), finding=finding)
    # every single copy operation with every `before` on every small forest (source tree: two top nodes, one with a child)
    _hist.exhaustive_single_ops(ctx, out, judge, max_nodes=3 if ctx.thorough else 2, alphabet=[0, 1, 6],
                                ops_of=lambda impl, ti: [o for o in _hist.all_single_ops(impl, ti, labels=[0, 6]) if o["op"] in COPY_OPS],
                                label_limit=4 if ctx.thorough else 2)
    _hist.exhaustive_single_ops(ctx, out, judge, max_nodes=2, alphabet=[0, 1, 6], typed=True,
                                ops_of=lambda impl, ti: [o for o in _hist.all_single_ops(impl, ti, labels=[0, 6]) if o["op"] in COPY_OPS],
                                label_limit=2)
    campaign(ctx, out, 1200 if ctx.thorough else 140, 60 if ctx.thorough else 25)
    return out


def replay(ctx, rp):
    return _hist.replay(ctx, rp, judge)
