"""C15 — kind-aware queries of a typed tree equal filtering the child/sibling list by kind."""
from __future__ import annotations

import itertools

import adapter
import core
import gen
import nutree
from nutree.typed_tree import ANY_KIND

ANY_KINDS = [ANY_KIND] + ([nutree.ANY_KIND] if hasattr(nutree, "ANY_KIND") else [])
_ANY_ROT = [0]

LEVEL = "proof"
TRUSTED = []
ASSUMPTIONS = ["node identities are unique within a tree (C01)"]
# kind "c" is a SUPERSTRING of kind "a" (a test by `in` instead of `==` confuses them); absent kinds: unrelated, a superstring and a substring
LONG = {"a": "kind-a", "b": "kind-b", "c": "kind-a-x", "d": ""}      # the empty string is a kind like any other
KINDS = [None, "kind-a", "kind-b", "kind-a-x", "zzz", "kind-b-y", "kind", ""]



def ids_owned(thunk, ser):
    """like adapter.ids(thunk(), ser); the result list is the CALLER's: an empty one is extended in place (an application that
    accumulates results, `found = a.find_all(x); found += b.find_all(y)`) and the query is asked again - it must not show what the
    caller added (a shared empty list handed out to everybody, or the library's own list).  The addition is taken back."""
    lst = thunk()
    r = adapter.ids(lst, ser)
    if isinstance(lst, list) and not lst:
        lst.append("added by the caller")
        try:
            again = thunk()
            bad = isinstance(again, list) and "added by the caller" in again
        finally:
            lst.clear()
        if bad:
            raise ValueError("an empty result is not the caller's own list: what the caller appended to it shows up in the next result")
    return r


def long_kinds(spec):
    """kind letters of the generators -> multi-character kind names (CPython caches one-character strings, so a query
    string of length 1 is always the very object stored on the node; see k_arg)"""
    out = []
    for lab, kids in spec:
        if isinstance(lab, dict):
            lab = dict(lab, k=(None if lab.get("k") is None else LONG[lab["k"]]))
        elif isinstance(lab, tuple):
            lab = (lab[0], None if lab[1] is None else LONG[lab[1]])
        out.append((lab, long_kinds(kids)))
    return out


def g(f):
    try:
        return f()
    except Exception as e:  # noqa
        return "err:" + adapter.err_class(e)


def k_arg(k):
    # a query kind is an equal but DISTINCT string object (as one parsed from a file or typed by a user would be):
    # the property is about equality of kinds, not identity of str objects
    if k is None:
        # the any-kind marker, as the application may import it: from the module that defines it or - if the package exports one -
        # from the package (both must mean the same)
        _ANY_ROT[0] += 1
        return ANY_KINDS[_ANY_ROT[0] % len(ANY_KINDS)]
    return "".join(list(k))


def impl_child(node, k, ser):
    def i(n):
        return None if n is None else ser.of(n)

    ka = k_arg(k)
    return {
        "children": g(lambda: ids_owned(lambda: node.get_children(ka), ser)),
        "first_child": g(lambda: i(node.first_child(ka))),
        "last_child": g(lambda: i(node.last_child(ka))),
        "has_children": g(lambda: node.has_children(ka)),
    }


def impl_sib(node, ak, ser):
    def i(n):
        return None if n is None else ser.of(n)

    return {
        "siblings": g(lambda: adapter.ids(node.get_siblings(any_kind=ak), ser)),
        "siblings_self": g(lambda: adapter.ids(node.get_siblings(add_self=True, any_kind=ak), ser)),
        "first_sibling": g(lambda: i(node.first_sibling(any_kind=ak))),
        "last_sibling": g(lambda: i(node.last_sibling(any_kind=ak))),
        "prev_sibling": g(lambda: i(node.prev_sibling(any_kind=ak))),
        "next_sibling": g(lambda: i(node.next_sibling(any_kind=ak))),
        "index": g(lambda: node.get_index(any_kind=ak)),
        "is_first": g(lambda: node.is_first_sibling(any_kind=ak)),
        "is_last": g(lambda: node.is_last_sibling(any_kind=ak)),
    }


def cmp(out, case, what, impl, model, spec):
    for k, v in impl.items():
        out.dist["q:" + k] += 1
        if v != spec[k]:
            out.fail(dict(case, query=k), f"{what} {k} = {v!r}, filtering by kind gives {spec[k]!r}", impl=v, spec=spec[k], model=model[k])
        elif v != model[k]:
            out.disagree(dict(case, query=k), f"{what} {k} = {v!r}, model {model[k]!r}")


def mutate(tree, rng, pool, step):
    """one public mutation of a typed tree that was queried before (a result memoised by an earlier query must not survive it)"""
    nodes = list(tree)
    if not nodes:
        # ... and populated again
        a_ = tree.add(pool.objs[2], kind="kind-a")
        a_.add(pool.objs[3], kind="kind-b")
        tree.add(pool.objs[4], kind="kind-a-x", before=True)
        return "rebuild"
    n = rng.choice(nodes)
    kind = ["remove", "sort", "move", "add", "remove_children", "set_data", "remove_keep", "copy_node", "copy_tree", "copy_new_kind", "clear_rebuild"][step % 11]
    try:
        if kind == "remove":
            n.remove()
        elif kind == "clear_rebuild":
            # the tree is emptied (queried while it is empty by the next pass) ...
            tree.clear()
        elif kind == "remove_keep":
            # the children move up one level: kinds that their new parent never held before
            cands = [x for x in nodes if x.children]
            (rng.choice(cands) if cands else n).remove(keep_children=True)
        elif kind == "copy_node":
            # a kind that enters a child list only through a COPY of a node (clone), deep or shallow
            tgt = rng.choice(nodes)
            deep = rng.choice([None, True])
            if deep and (tgt is n or tgt.is_descendant_of(n)):
                deep = None       # a branch copied deeply below itself recurses without end (DESIGN.md section 5.4)
            tgt.add(n, kind=rng.choice([None, "kind-b", "kind-a-x"]) or n.kind, deep=deep)
        elif kind == "copy_tree":
            from nutree.typed_tree import TypedTree

            src = TypedTree("src")
            src.add(pool.objs[9], kind="kind-b-y").add(pool.objs[10], kind="kind-a-x")
            src.add(pool.objs[11], kind="kind")
            rng.choice(nodes).add(src, before=rng.choice([None, True, 0]))
        elif kind == "copy_new_kind":
            rng.choice(nodes).add(n, kind="zzz", deep=False)
        elif kind == "sort":
            (n.parent or tree.system_root).sort_children(key=lambda x: str(x.data), reverse=True)
        elif kind == "move":
            tgt = rng.choice(nodes)
            if tgt is not n and not tgt.is_descendant_of(n):
                n.move_to(tgt, before=rng.choice([None, True, 0]))
        elif kind == "add":
            n.add(pool.objs[rng.choice([2, 3, 4, 7, 8])], kind=rng.choice(["kind-a", "kind-b", "kind-a-x"]), before=rng.choice([None, True, 0]))
        elif kind == "remove_children":
            n.remove_children()
        else:
            n.set_data(pool.objs[rng.choice([2, 3, 4])])
    except Exception as e:  # noqa  (refused: unique constraint etc.)
        return kind + ":" + type(e).__name__
    return kind


def mut_case(ctx, out, spec, seed, steps, k=0):
    """query, then `steps` times (mutate, query) on one tree object; all choices derive from `seed` (replayable)"""
    import random

    rng = random.Random(seed)
    tree = adapter.build(long_kinds(spec), ctx.pool, typed=True)
    log = []
    check_tree(ctx, out, {"mut": dict(spec=spec, seed=seed, steps=0, k=k, log=[])}, "mut", tree=tree)
    for step in range(steps):
        try:
            list(tree)
            log.append(mutate(tree, rng, ctx.pool, k + step))      # (an emptied tree is populated again first)
        except Exception as e:  # noqa
            # on the unchanged library no mutation of this campaign raises out of `mutate` and a tree can always be iterated: the
            # queries before have damaged the tree
            out.fail(dict(q="mut", spec={"mut": dict(spec=spec, seed=seed, steps=step + 1, k=k, log=list(log))}),
                     f"after the kind-aware queries a mutation / traversal of the tree raised {type(e).__name__}: {e} (history {log})")
            return
        check_tree(ctx, out, {"mut": dict(spec=spec, seed=seed, steps=step + 1, k=k, log=list(log))}, "mut", tree=tree)


def check_tree(ctx, out, spec, tag, levelorder=False, tree=None):
    # levelorder: same tree, created out of document order (registry order != pre-order)
    if tree is None:
        tree = (adapter.build_levelorder if levelorder else adapter.build)(long_kinds(spec), ctx.pool, typed=True)
    ser = adapter.Serials()
    ser.by_obj[id(tree.system_root)] = 0
    ser.keep.append(tree.system_root)
    tj = adapter.tree_json(tree, ser, ctx.pool)
    resp = ctx.driver.ask({"op": "typed", "t": tj, "kinds": KINDS})
    if "fail" in resp:
        raise core.MachineryError(f"driver: {resp}")
    nodes = {ser.of(n): n for n in tree}
    kinds_present = {n.kind for n in nodes.values()}
    nontriv = len(nodes) >= 3 and len(kinds_present) >= 2
    for rec in resp["nodes"]:
        n = nodes[rec["id"]]
        for k, (m, s) in zip(KINDS, rec["child"]):
            case = dict(kind="child", spec=spec, node=rec["id"], k=k, levelorder=levelorder)
            out.count((tag, repr(spec), rec["id"], "c", k), nontriv)
            cmp(out, case, f"node {rec['id']} kind={k!r}", impl_child(n, k, ser), m, s)
        for ak, (m, s) in zip((False, True), rec["sib"]):
            case = dict(kind="sib", spec=spec, node=rec["id"], any_kind=ak, levelorder=levelorder)
            out.count((tag, repr(spec), rec["id"], "s", ak), nontriv)
            cmp(out, case, f"node {rec['id']} any_kind={ak}", impl_sib(n, ak, ser), m, s)
    for k, (m, s, it_m, it_s) in zip(KINDS, resp["tree"]):
        ka = k_arg(k)
        impl = {
            "children": g(lambda: ids_owned(lambda: tree.system_root.get_children(ka), ser)),
            "first_child": g(lambda: (lambda n: None if n is None else ser.of(n))(tree.first_child(ka))),
            "last_child": g(lambda: (lambda n: None if n is None else ser.of(n))(tree.last_child(ka))),
            "has_children": g(lambda: tree.system_root.has_children(ka)),
        }
        case = dict(kind="tree", spec=spec, k=k, levelorder=levelorder)
        out.count((tag, repr(spec), "t", k), nontriv)
        cmp(out, case, f"tree kind={k!r}", impl, m, s)
        it = g(lambda: adapter.ids(list(tree.iter_by_type(ka)), ser))
        out.dist["q:iter_by_type"] += 1
        if it != it_s:
            out.fail(dict(case, query="iter_by_type"), f"iter_by_type({k!r}) = {it}, filtering the iterator gives {it_s}", impl=it, spec=it_s, model=it_m)
        elif it != it_m:
            out.disagree(dict(case, query="iter_by_type"), f"iter_by_type({k!r}) = {it}, model {it_m}")
    if len(nodes) >= 4:
        out.sample(dict(tree=spec))


def run(ctx):
    out = core.Outcome(
        rule="exhaustive: every ordered forest with <= N nodes x every assignment of kinds {a,b,c} to its nodes (N=4 quick, 5 thorough); "
        "larger sizes sampled; per tree every node x kinds {ANY, a, b, c, absent} (4 child queries) x any_kind on/off (9 sibling queries), "
        "plus tree-level first/last_child, iter_by_type. non-trivial = >= 3 nodes and >= 2 kinds present; distinct = distinct (typed tree, node, argument)"
    )
    n_ex = 5 if ctx.thorough else 4
    for spec in CORPUS:
        check_tree(ctx, out, spec, "corpus")
        check_tree(ctx, out, spec, "corpus-lo", levelorder=True)
    for n in range(0, n_ex + 1):
        for shape in gen.forests(n):
            for ks in itertools.product("abc", repeat=n):
                labels = iter([(i, k) for i, k in enumerate(ks)])
                check_tree(ctx, out, gen.label_forest(shape, labels), "ex")
    out.exhaustive = True
    out.extra["exhaustive_scope"] = f"all ordered forests with <= {n_ex} nodes x all kind assignments over 3 kinds"
    # query - mutate - query: the same tree OBJECT is queried again after public mutations (remove, sort, move, add,
    # remove_children, set_data): every answer must follow from the child lists as they are NOW
    for k in range(120 if ctx.thorough else 30):
        n = ctx.rng.randrange(3, 9)
        shape = gen.random_shape(ctx.rng, n, deep_bias=0.3)
        cnt = itertools.count()
        spec = gen.label_forest(shape, ({"a": next(cnt) % 12, "k": ctx.rng.choice("abcabd"), "did": 8000 + next(cnt)} for _ in range(n)))
        mut_case(ctx, out, spec, ctx.rng.randrange(1 << 30), 5, k)
        out.dist["query_mutate_query"] += 1
    for _ in range(400 if ctx.thorough else 80):
        n = ctx.rng.randrange(n_ex + 1, 14)
        shape = gen.random_shape(ctx.rng, n, deep_bias=0.3)
        cnt = itertools.count()
        spec = gen.label_forest(shape, ({"a": next(cnt) % 12, "k": ctx.rng.choice("abcabd"), "did": 7000 + next(cnt)} for _ in range(n)))
        check_tree(ctx, out, spec, "rnd")
        check_tree(ctx, out, spec, "rnd-lo", levelorder=True)
        out.dist["random_tree"] += 1
    return out


CORPUS = [
    [((0, "a"), []), ((1, "d"), []), ((2, "a"), []), ((3, "d"), []), ((4, "b"), [((5, "d"), []), ((6, "a"), []), ((7, "d"), [])])],
    [((0, "a"), []), ((1, "b"), []), ((2, "a"), []), ((3, "b"), [])],
    [((0, "a"), [((1, "a"), []), ((2, "b"), []), ((3, "a"), [])])],
]


def replay(ctx, rp):
    from props.c10 import tuplify_d

    out = core.Outcome()
    sp = rp["case"]["spec"]
    if isinstance(sp, dict) and "mut" in sp:
        m = sp["mut"]
        mut_case(ctx, out, tuplify_d(m["spec"]), m["seed"], m["steps"], m.get("k", 0))
    else:
        check_tree(ctx, out, tuplify_d(sp), "replay", levelorder=bool(rp["case"].get("levelorder")))
    return dict(failures=out.oracle_failures[:8], disagreements=out.disagreements[:5], property_holds=not out.oracle_failures)
