"""C18 — snapshot operations honour the tree lock (controlled schedules on the real code)."""
from __future__ import annotations

import io
import os
import itertools
import json
import sys
import re
import threading
import time

import adapter
import core
from nutree import Tree
from nutree.typed_tree import TypedTree

LEVEL = "proof"
TRUSTED = [
    "CPython's thread switching and `threading.RLock` are not modelled: the model is a small-step interleaving semantics of a re-entrant mutual-exclusion lock; "
    "the lock structure of the snapshot methods is regenerated from the source text (translate/gen_locks.py) on every run",
    "the snapshot methods synchronise only through `tree._lock`",
    "translate/gen_locks.py: an over-approximating syntactic abstraction (any attribute access or method call on the tree object other than class constants counts as a read)",
]
ASSUMPTIONS = ["writers mutate only inside `with tree:`"]

SENTINEL = "SENTINEL-C18"
WAIT = 0.25
LONG_HOLD = 4.5


def make_tree(typed, t=None):
    t = (TypedTree if typed else Tree)("c18") if t is None else t
    kw = {"kind": "k1"} if typed else {}
    a = t.add("A", **kw)
    a.add("a1", **kw)
    a.add("a2", **({"kind": "k2"} if typed else {}))
    t.add("B", **kw).add("b1", **kw)
    return t


def snapshot_ops(tree, typed):
    """name -> callable returning a JSON-able snapshot of what the operation saw"""
    other = (TypedTree if typed else Tree)(tree.name)      # the same NAME as the source: names identify nothing

    def names_of(t):
        return [n.name for n in t]

    def save():
        fp = io.StringIO()
        tree.save(fp)
        return fp.getvalue()

    def copy():
        return names_of(tree.copy())

    def filtered():
        return names_of(tree.filtered(lambda n: True))

    def copy_to():
        tree.copy_to(other)
        return names_of(other)

    other2 = (TypedTree if typed else Tree)(tree.name)

    def copy_to_shallow():
        tree.copy_to(other2, deep=False)
        return names_of(other2)

    def to_dict_list():
        return json.dumps(tree.to_dict_list())

    def to_dotfile():
        fp = io.StringIO()
        tree.to_dotfile(fp)
        return fp.getvalue()

    def with_tree():
        with tree:
            return names_of(tree)

    return {"save": save, "copy": copy, "filtered": filtered, "copy_to": copy_to, "copy_to_shallow": copy_to_shallow, "to_dict_list": to_dict_list, "to_dotfile": to_dotfile, "with tree": with_tree}


def controlled_schedule(typed, opname, out, wait=WAIT, mode="sentinel"):
    """A holds the lock and has a sentinel node in the tree (mode `emptied`: has cleared the tree and will rebuild it
    before leaving); B starts the snapshot operation.  Returns the event order and the verdict."""
    tree = make_tree(typed)
    ops = snapshot_ops(tree, typed)
    events = []
    elock = threading.Lock()

    def ev(x):
        with elock:
            events.append(x)

    entered = threading.Event()
    b_done = threading.Event()
    res = {}

    def thread_a():
        with tree:
            ev("A.acq")
            if mode == "emptied":
                tree.clear()
                ev("A.write(clear)")
            else:
                s = tree.add(SENTINEL, **({"kind": "sentinel-kind"} if typed else {}))
                ev("A.write(add sentinel)")
            entered.set()
            res["b_finished_inside"] = b_done.wait(timeout=wait)
            if mode == "emptied":
                make_tree(typed, tree)
                ev("A.write(rebuild)")
            else:
                s.remove()
                ev("A.write(remove sentinel)")
            ev("A.rel")

    def thread_b():
        entered.wait(timeout=15)
        ev(f"B.start({opname})")
        try:
            res["snapshot"] = ops[opname]()
            res["b_err"] = None
        except Exception as e:  # noqa
            res["snapshot"] = None
            res["b_err"] = repr(e)
        ev(f"B.done({opname})")
        b_done.set()

    ta = threading.Thread(target=thread_a, daemon=True)
    tb = threading.Thread(target=thread_b, daemon=True)
    ta.start()
    tb.start()
    ta.join(timeout=wait + 12)
    tb.join(timeout=wait + 12)
    hung = ta.is_alive() or tb.is_alive()
    snap = res.get("snapshot")
    text = json.dumps(snap, default=str) if snap is not None else ""
    problems = []
    if hung:
        problems.append("threads did not terminate (deadlock)")
    if res.get("b_err"):
        problems.append(f"snapshot operation raised {res['b_err']}")
    if res.get("b_finished_inside"):
        problems.append(f"{opname} completed while another thread was inside `with tree:`")
    if SENTINEL in text or "sentinel-kind" in text:
        problems.append(f"the snapshot of {opname} contains state that only existed inside another thread's critical section (sentinel)")
    if mode == "emptied" and snap is not None and ("a2" if opname != "copy_to_shallow" else '"A"') not in text:
        problems.append(f"the snapshot of {opname} shows the emptied tree that only existed inside another thread's critical section")
    return events, problems


def reader_first_schedule(typed, opname, wait=WAIT):
    """B starts a snapshot operation whose callback pauses the walk half-way; A then enters `with tree:` and
    adds TWO sentinels (one before, one after the point the walk has reached).  A consistent snapshot holds both
    or none of them; and A must not get the lock before B's snapshot is complete."""
    tree = (TypedTree if typed else Tree)("c18r")
    kw = {"kind": "k1"} if typed else {}
    objs = [("n", i) for i in range(6)]
    for o in objs:
        tree.add(o, **kw).add(("c",) + o, **kw)
    events = []
    elock = threading.Lock()

    def ev(x):
        with elock:
            events.append(x)

    mid = threading.Event()
    a_done = threading.Event()
    calls = {"n": 0}

    def pause(*args):
        calls["n"] += 1
        if calls["n"] == 5:
            ev("B.mid-walk")
            mid.set()
            a_done.wait(timeout=wait)      # give A the chance to run its critical section now
        return None

    def pred(node):
        pause()
        return True

    res = {}

    def op():
        if opname == "save":
            fp = io.StringIO()
            tree.save(fp, mapper=lambda n, d: (pause(), dict(d, v=str(n.data)))[1])
            return fp.getvalue()
        if opname == "copy":
            return [n.name for n in tree.copy(predicate=pred)]
        if opname == "filtered":
            return [n.name for n in tree.filtered(pred)]
        if opname == "to_dict_list":
            return json.dumps(tree.to_dict_list(mapper=lambda n, d: (pause(), d)[1]))
        if opname == "to_dotfile":
            fp = io.StringIO()
            tree.to_dotfile(fp, node_mapper=lambda n, d: pause())
            return fp.getvalue()
        raise AssertionError(opname)

    def thread_b():
        ev(f"B.start({opname})")
        try:
            res["snapshot"] = op()
            res["b_err"] = None
        except Exception as e:  # noqa
            res["snapshot"] = None
            res["b_err"] = repr(e)
        ev(f"B.done({opname})")

    def thread_a():
        mid.wait(timeout=15)
        with tree:
            ev("A.acq")
            tree.add(("S", "first"), before=True, **({"kind": "sentinel-first"} if typed else {}))
            tree.add(("S", "last"), **({"kind": "sentinel-last"} if typed else {}))
            ev("A.write(2 sentinels)")
            ev("A.rel")
        a_done.set()

    tb = threading.Thread(target=thread_b, daemon=True)
    ta = threading.Thread(target=thread_a, daemon=True)
    tb.start()
    ta.start()
    tb.join(timeout=15)
    ta.join(timeout=15)
    problems = []
    if ta.is_alive() or tb.is_alive():
        problems.append("threads did not terminate (deadlock)")
    if res.get("b_err"):
        problems.append(f"snapshot operation raised {res['b_err']}")
    text = json.dumps(res.get("snapshot"), default=str)
    has_first = "first" in text
    has_last = "last" in text
    if has_first != has_last:
        problems.append(f"torn snapshot: {opname} saw {'only the last' if has_last else 'only the first'} of two nodes that another thread added in ONE critical section")
    if "A.acq" in events and f"B.done({opname})" in events and events.index("A.acq") < events.index(f"B.done({opname})") and "B.mid-walk" in events:
        problems.append(f"a writer entered `with tree:` while {opname} was walking the tree (lock not held during the walk)")
    return events, problems


def reentrant(typed, out):
    """the owning thread nests `with tree:` and calls every snapshot operation inside it"""
    tree = make_tree(typed)
    ops = snapshot_ops(tree, typed)
    done = []
    err = []

    def run():
        try:
            with tree:
                with tree:
                    for name, f in ops.items():
                        f()
                        done.append(name)
        except Exception as e:  # noqa
            err.append(repr(e))

    th = threading.Thread(target=run, daemon=True)
    th.start()
    th.join(timeout=15)
    problems = []
    if th.is_alive():
        problems.append(f"nested use by the owning thread did not terminate after {done} (deadlock)")
    if err:
        problems.append(f"nested use raised {err[0]}")
    return done, problems


def contended_reentrant(typed, opname, wait=0.25):
    """the owner is inside `with tree:` while ANOTHER thread has already started the same snapshot operation (and waits for the
    lock); the owner then calls that operation nested in its own block: it must return (re-entrant without deadlock), the
    waiting thread must finish once the owner has left"""
    tree = make_tree(typed)
    ops_a = snapshot_ops(tree, typed)
    ops_b = snapshot_ops(tree, typed)
    inside, go_b = threading.Event(), threading.Event()
    state = dict(a_nested=False, a_left=False, b_done=False, err=[])

    def thread_a():
        try:
            with tree:
                inside.set()
                go_b.wait(2)
                time.sleep(wait)          # B is now blocked somewhere inside its operation
                ops_a[opname]()
                state["a_nested"] = True
            state["a_left"] = True
        except Exception as e:  # noqa
            state["err"].append("A: " + repr(e))

    def thread_b():
        try:
            inside.wait(2)
            go_b.set()
            ops_b[opname]()
            state["b_done"] = True
        except Exception as e:  # noqa
            state["err"].append("B: " + repr(e))

    ta, tb = threading.Thread(target=thread_a, daemon=True), threading.Thread(target=thread_b, daemon=True)
    ta.start()
    tb.start()
    ta.join(timeout=15)
    tb.join(timeout=15)
    problems = []
    if not state["a_nested"] and not state["err"]:
        problems.append(f"the owner's nested {opname} did not return while another thread was waiting in {opname} (deadlock)")
    elif not state["b_done"] and not state["err"]:
        problems.append(f"the waiting thread's {opname} did not finish after the owner had left (deadlock)")
    problems += [f"raised {e}" for e in state["err"]]
    return problems


LATE_READER_SCRIPT = r"""
import io, json, sys, threading, time
sys.path.insert(0, sys.argv[1]); sys.path.insert(0, sys.argv[2])
from props import c18
out = []
for typed in (False, True):
    for opname in ["save", "copy", "filtered", "copy_to", "copy_to_shallow", "to_dict_list", "to_dotfile", "with tree"]:
        tree = c18.make_tree(typed)
        ops = c18.snapshot_ops(tree, typed)
        res = {}
        def reader():
            try:
                res["snap"] = ops[opname]()
            except Exception as e:
                res["err"] = repr(e)
        alone = threading.active_count() == 1
        with tree:                       # entered while this is the ONLY live thread of the process
            s = tree.add(c18.SENTINEL, **({"kind": "sentinel-kind"} if typed else {}))
            tb = threading.Thread(target=reader, daemon=True)
            tb.start()
            tb.join(c18.WAIT)
            inside = not tb.is_alive()
            s.remove()
        tb.join(15)
        problems = []
        if tb.is_alive():
            problems.append("the reader did not terminate (deadlock)")
        if "err" in res:
            problems.append("the snapshot operation raised " + res["err"])
        if inside:
            problems.append(opname + " completed while the other thread was inside `with tree:`")
        text = json.dumps(res.get("snap"), default=str)
        if c18.SENTINEL in text or "sentinel-kind" in text:
            problems.append("the snapshot of " + opname + " contains state that only existed inside the other thread's critical section (sentinel)")
        out.append(dict(typed=typed, op=opname, alone=alone, problems=problems))
print("RESULT " + json.dumps(out))
"""


def late_reader_schedules():
    """run in a fresh interpreter (so that the writer really is the only live thread when it enters `with tree:`)"""
    import subprocess

    here = os.path.dirname(os.path.dirname(os.path.abspath(__file__)))
    repo = os.path.dirname(os.path.dirname(os.path.abspath(sys.modules["nutree"].__file__)))
    p = subprocess.run([sys.executable, "-B", "-c", LATE_READER_SCRIPT, repo, here], stdout=subprocess.PIPE, stderr=subprocess.PIPE, text=True, timeout=600)
    for line in p.stdout.splitlines():
        if line.startswith("RESULT "):
            return json.loads(line[7:])
    raise core.MachineryError(f"late-reader subprocess failed: {p.stderr[-400:]}")


def stress(typed, n_writers, n_readers, rounds, out):
    """writers add/remove nodes in pairs inside `with tree:`; a consistent snapshot always has an even number of X-nodes"""
    tree = make_tree(typed)
    kw = {"kind": "k1"} if typed else {}
    stop = threading.Event()
    bad = []
    seen = {}
    old_interval = sys.getswitchinterval()
    sys.setswitchinterval(1e-5)      # force frequent thread switches

    def writer(k):
        for r in range(rounds):
            with tree:
                a = tree.add(f"X{k}-{r}-a", **kw)
                time.sleep(0)
                b = tree.add(f"X{k}-{r}-b", **kw)
            with tree:
                a.remove()
                time.sleep(0)
                b.remove()

    other_cls = TypedTree if typed else Tree

    def snap_copy():
        return [n.name for n in tree.copy()]

    def snap_filtered():
        return [n.name for n in tree.filtered(lambda n: True)]

    def snap_copy_to():
        o = other_cls("o")
        tree.copy_to(o)
        return [n.name for n in o]

    def snap_save():
        fp = io.StringIO()
        tree.save(fp)
        return re.findall(r'"(X[^"]*)"', fp.getvalue())

    def snap_dict():
        return re.findall(r'"(X[^"]*)"', json.dumps(tree.to_dict_list()))

    def snap_dot():
        fp = io.StringIO()
        tree.to_dotfile(fp)
        return re.findall(r'label="(X[^"]*)"', fp.getvalue())

    def snap_with():
        with tree:
            return [n.name for n in tree]

    snaps = [("copy", snap_copy), ("filtered", snap_filtered), ("copy_to", snap_copy_to), ("save", snap_save), ("to_dict_list", snap_dict),
             ("to_dotfile", snap_dot), ("with tree", snap_with)]

    def reader(k):
        i = k
        while not stop.is_set():
            name, fn = snaps[i % len(snaps)]
            i += 1
            try:
                xs = [n for n in fn() if n.startswith("X")]
                seen[name] = seen.get(name, 0) + 1
                if len(xs) % 2:
                    bad.append(f"{name}() saw an odd number of paired nodes: {xs}")
            except Exception as e:  # noqa
                bad.append(f"reader raised {e!r} in {name}")
                return

    ws = [threading.Thread(target=writer, args=(k,), daemon=True) for k in range(n_writers)]
    rs = [threading.Thread(target=reader, args=(k,), daemon=True) for k in range(n_readers)]
    for t in ws + rs:
        t.start()
    for t in ws:
        t.join(timeout=60)
    stop.set()
    for t in rs:
        t.join(timeout=20)
    sys.setswitchinterval(old_interval)
    if any(t.is_alive() for t in ws + rs):
        bad.append("stress threads did not terminate")
    for name, _ in snaps:
        out.dist["stress-snapshots:" + name] += seen.get(name, 0)
    try:
        tree._self_check()
    except Exception as e:  # noqa
        bad.append(f"_self_check after the stress run: {e!r}")
    return bad


def enter_preemptions(typed, max_points=40):
    """Systematic preemption inside `with tree:` of a FRESH tree (the first lock use): thread A is paused (sys.settrace, line
    events, no patching of the library) at each line it executes inside `Tree.__enter__` and the nutree functions that calls;
    while it is paused, thread B enters `with tree:` and stays inside its critical section until A has been resumed and either got
    inside as well (mutual exclusion broken) or stayed blocked.  Returns (number of preemption points, problems)."""
    import os

    import nutree

    pkg = os.path.dirname(os.path.abspath(nutree.__file__))

    def run_one(pause_at):
        tree = (TypedTree if typed else Tree)("c18-enter")      # never locked before: lazy initialisation would happen now
        state = {"inside": 0, "max": 0, "seen": [], "in_enter": 0}
        mu = threading.Lock()
        a_paused, a_go, b_inside, b_leave = threading.Event(), threading.Event(), threading.Event(), threading.Event()

        def crit(who, hold):
            with mu:
                state["inside"] += 1
                state["max"] = max(state["max"], state["inside"])
            hold()
            with mu:
                state["inside"] -= 1

        def local(frame, event, arg):
            if event == "line":
                state["seen"].append((frame.f_code.co_name, frame.f_lineno))
                if pause_at is not None and len(state["seen"]) - 1 == pause_at and not a_paused.is_set():
                    a_paused.set()
                    a_go.wait(3)
            return local

        def tracer(frame, event, arg):
            if event != "call":
                return None
            fn = frame.f_code.co_filename
            if frame.f_code.co_name == "__enter__" and fn.startswith(pkg):
                state["in_enter"] += 1
                return local
            if state["in_enter"] and fn.startswith(pkg) and frame.f_code.co_name != "__exit__":
                return local
            return None

        def a_body():
            sys.settrace(tracer)
            try:
                with tree:
                    sys.settrace(None)
                    crit("A", lambda: time.sleep(0.02))
            finally:
                sys.settrace(None)

        def b_body():
            with tree:
                crit("B", lambda: (b_inside.set(), b_leave.wait(0.6)))

        ta = threading.Thread(target=a_body, daemon=True)
        ta.start()
        if pause_at is None:
            ta.join(3)
            return state
        if not a_paused.wait(1.0):
            ta.join(1)
            return state
        tb = threading.Thread(target=b_body, daemon=True)
        tb.start()
        b_inside.wait(0.3)        # B is inside (A was paused before it held the lock) or blocked (A holds it)
        a_go.set()
        ta.join(0.4)              # a correct lock keeps A out while B is inside (B leaves after <= 0.6 s)
        b_leave.set()
        ta.join(3)
        tb.join(3)
        if ta.is_alive() or tb.is_alive():
            state["hang"] = True
        return state

    probe = run_one(None)
    n = min(len(probe["seen"]), max_points)
    problems = []
    for k in range(n):
        st = run_one(k)
        if st.get("hang"):
            problems.append(f"preemption at step {k} {probe['seen'][k]} of `with tree:`: a thread never got out (deadlock)")
        elif st["max"] > 1:
            problems.append(f"preemption at step {k} {probe['seen'][k]} of `with tree:` on a fresh tree: two threads were inside `with tree:` at the same time")
    return n, problems


def snapshot_preemptions(typed, opname, max_points=45, seen_points=None):
    """Systematic preemption INSIDE a snapshot operation (one preemption per run): reader B executes `opname` under a line tracer
    (sys.settrace; the library is not patched) and is paused the first time it reaches a chosen (function, line) of the nutree
    package; while it is paused, writer A tries to run ONE critical section that adds two nodes (a new kind for typed trees) —
    it gets in if B does not hold the lock at that point, otherwise it stays blocked and runs after B.  Whatever the point: B's
    snapshot must hold both new nodes or none (and must not raise).  Returns (points tried, problems)."""
    import os

    import nutree

    pkg = os.path.dirname(os.path.abspath(nutree.__file__))

    def run_one(pause_at):
        tree = (TypedTree if typed else Tree)("c18p")
        kw = {"kind": "k1"} if typed else {}
        for i in range(3):
            tree.add(("n", i), **kw).add(("c", i), **kw)
        other = (TypedTree if typed else Tree)(tree.name)      # the same NAME as the source: names identify nothing
        seen = []
        state = {"paused": False}
        b_paused, b_go = threading.Event(), threading.Event()
        res = {}

        def local(frame, event, arg):
            if event == "line":
                key = (frame.f_code.co_name, frame.f_lineno)
                if key not in seen:
                    seen.append(key)
                if pause_at is not None and key == pause_at and not state["paused"]:
                    state["paused"] = True
                    b_paused.set()
                    b_go.wait(3)
            return local

        def tracer(frame, event, arg):
            if event == "call" and frame.f_code.co_filename.startswith(pkg) and len(seen) < 400:
                return local
            return None

        def op():
            if opname == "save":
                fp = io.StringIO()
                tree.save(fp, mapper=lambda n, d: dict(d, v=str(n.data)))
                return fp.getvalue()
            if opname == "copy":
                return [n.name for n in tree.copy()]
            if opname == "filtered":
                return [n.name for n in tree.filtered(lambda n: True)]
            if opname == "copy_to":
                tree.copy_to(other)
                return [n.name for n in other]
            if opname == "to_dict_list":
                return json.dumps(tree.to_dict_list(mapper=lambda n, d: d))
            if opname == "to_dotfile":
                fp = io.StringIO()
                tree.to_dotfile(fp)
                return fp.getvalue()
            raise AssertionError(opname)

        def thread_b():
            sys.settrace(tracer)
            try:
                res["snapshot"] = op()
                res["b_err"] = None
            except Exception as e:  # noqa
                res["snapshot"] = None
                res["b_err"] = repr(e)
            finally:
                sys.settrace(None)

        def thread_a():
            with tree:
                tree.add(("S", "first"), before=True, **({"kind": "sentinel-first"} if typed else {}))
                tree.add(("S", "last"), **({"kind": "sentinel-last"} if typed else {}))

        tb = threading.Thread(target=thread_b, daemon=True)
        tb.start()
        if pause_at is None:
            tb.join(5)
            return seen, []
        if not b_paused.wait(1.5):
            tb.join(3)
            return seen, []          # the point was not reached in this run
        ta = threading.Thread(target=thread_a, daemon=True)
        ta.start()
        ta.join(0.12)                # A completes its critical section now, or is blocked by B's lock
        b_go.set()
        tb.join(5)
        ta.join(5)
        problems = []
        if ta.is_alive() or tb.is_alive():
            problems.append("threads did not terminate (deadlock)")
        if res.get("b_err"):
            problems.append(f"{opname} raised {res['b_err']}")
        text = json.dumps(res.get("snapshot"), default=str)
        if ("first" in text) != ("last" in text):
            problems.append(f"torn snapshot: {opname} saw {'only the last' if 'last' in text else 'only the first'} of two nodes that another thread added in ONE critical section")
        if typed and res.get("snapshot") is not None and ("sentinel-first" in text) != ("sentinel-last" in text):
            problems.append(f"torn snapshot: {opname} lists only one of the two kinds that another thread added in ONE critical section")
        return seen, problems

    points, _ = run_one(None)
    if seen_points is not None:
        points = [p_ for p_ in points if p_ not in seen_points]
    points = points[:max_points]
    found = []
    for pt in points:
        _, problems = run_one(pt)
        if seen_points is not None:
            seen_points.add(pt)
        for p_ in problems:
            found.append(f"preemption of {opname} at {pt[0]}:{pt[1]}: {p_}")
        if found:
            break
    return len(points), found


def run(ctx):
    out = core.Outcome(
        rule="controlled two-thread schedules on the real code: thread A enters `with tree:`, adds a sentinel node, signals B, waits until B has finished or "
        f"made no progress for {WAIT}s, removes the sentinel, leaves; B runs one snapshot operation (save, copy, filtered, copy_to, to_dict_list, to_dotfile, "
        "`with tree:`) x {Tree, TypedTree}. Violation = B finishes while A is inside, or B's snapshot contains the sentinel (also its kind in the typed "
        "value map). Plus: nested re-entrant use by the owner of every operation (no deadlock), and a stress run with paired writes (thorough: more threads/rounds). "
        "The observed event order is replayed on the Lean lock model (every step must be enabled). non-trivial: every schedule involves 2 threads and a critical section"
    )
    ops = ["save", "copy", "filtered", "copy_to", "copy_to_shallow", "to_dict_list", "to_dotfile", "with tree"]
    for r_ in late_reader_schedules():
        out.count((r_["typed"], r_["op"], "late-reader"), True)
        out.dist["late-reader:" + r_["op"]] += 1
        for p in r_["problems"]:
            out.fail(dict(kind="late-reader", typed=r_["typed"], op=r_["op"]),
                     f"[{'TypedTree' if r_['typed'] else 'Tree'}.{r_['op']}, the reader thread is started while the only other thread is inside `with tree:`] {p}")
    for typed in (False, True):
        for opname in ops:
            events, problems = controlled_schedule(typed, opname, out)
            case = dict(kind="schedule", typed=typed, op=opname, events=events)
            out.count((typed, opname), True)
            out.dist["op:" + opname] += 1
            for p in problems:
                out.fail(case, f"[{'TypedTree' if typed else 'Tree'}.{opname}] {p}; event order {events}")
            # replay the observed order on the model: A = thread 0 [acq, write, write, rel], B = thread 1 (snapshot program of the op)
            if not problems:
                a_first = [e for e in events if e.startswith("A.")]
                order = [0 if e.startswith("A.") else 1 for e in events if e.startswith("A.") or e.startswith("B.done")]
                m = ctx.driver.ask({"op": "lock.replay", "typed": typed, "method": ("copy_to" if opname == "copy_to_shallow" else opname), "order": order})
                if "fail" in m:
                    raise core.MachineryError(f"driver: {m}")
                if not m.get("ok"):
                    out.disagree(case, f"the observed event order is not an execution of the lock model: {m}")
            if len(out.samples) < 3:
                out.sample(case)
        for opname in ops:
            # the critical section empties the tree and rebuilds it: no snapshot may show (or shortcut on) the empty state
            events, problems = controlled_schedule(typed, opname, out, mode="emptied")
            case = dict(kind="schedule", typed=typed, op=opname, events=events, mode="emptied")
            out.count((typed, opname, "emptied"), True)
            out.dist["emptied:" + opname] += 1
            for p in problems:
                out.fail(case, f"[{'TypedTree' if typed else 'Tree'}.{opname}, tree emptied inside the critical section] {p}; event order {events}")
        for opname in ["save", "copy", "filtered", "to_dict_list", "to_dotfile"]:
            events, problems = reader_first_schedule(typed, opname)
            case = dict(kind="reader-first", typed=typed, op=opname, events=events)
            out.count((typed, opname, "reader-first"), True)
            out.dist["reader-first:" + opname] += 1
            for p in problems:
                out.fail(case, f"[{'TypedTree' if typed else 'Tree'}.{opname}, reader first] {p}; event order {events}")
        if ctx.thorough:
            # long critical section (thorough tier, and the search after a broken lock obligation): a lock attempt that gives up
            # after a while (acquire(timeout=...)) lets the reader in while the writer is still inside
            for opname in ("with tree", "to_dict_list"):
                events, problems = controlled_schedule(typed, opname, out, wait=LONG_HOLD)
                out.count((typed, opname, "long-hold"), True)
                out.dist["long-hold:" + opname] += 1
                for p in problems:
                    out.fail(dict(kind="schedule", typed=typed, op=opname, events=events, hold=LONG_HOLD),
                             f"[{'TypedTree' if typed else 'Tree'}.{opname}, critical section of {LONG_HOLD} s] {p}; event order {events}")
        seen_pts = set()
        for opname in ["save", "copy", "copy_to", "filtered", "to_dict_list", "to_dotfile"]:
            n_pts, problems = snapshot_preemptions(typed, opname, max_points=(120 if ctx.thorough else 18), seen_points=seen_pts)
            out.count((typed, opname, "snapshot-preemptions"), True)
            out.dist["snapshot_preemption_points"] += n_pts
            for p in problems[:2]:
                out.fail(dict(kind="snapshot-preemption", typed=typed, op=opname), f"[{'TypedTree' if typed else 'Tree'}] {p}")
        n_pts, problems = enter_preemptions(typed)
        out.count((typed, "enter-preemptions"), True)
        out.dist["enter_preemption_points"] += n_pts
        for p in problems[:2]:
            out.fail(dict(kind="enter-preemption", typed=typed), f"[{'TypedTree' if typed else 'Tree'}] {p}")
        done, problems = reentrant(typed, out)
        out.count((typed, "reentrant"), True)
        for p in problems:
            out.fail(dict(kind="reentrant", typed=typed), f"[{'TypedTree' if typed else 'Tree'}] {p}")
        for opname in ops:
            problems = contended_reentrant(typed, opname)
            out.count((typed, opname, "contended-reentrant"), True)
            out.dist["contended-reentrant:" + opname] += 1
            for p in problems:
                out.fail(dict(kind="contended-reentrant", typed=typed, op=opname), f"[{'TypedTree' if typed else 'Tree'}.{opname}, nested while another thread waits] {p}")
    deadlocked = any("deadlock" in f["what"] or "did not terminate" in f["what"] for f in out.oracle_failures)
    for typed in ((False, True) if not deadlocked else ()):
        bad = stress(typed, 4 if ctx.thorough else 2, 3 if ctx.thorough else 2, 300 if ctx.thorough else 40, out)
        out.count((typed, "stress"), True)
        out.dist["stress"] += 1
        for b in bad[:3]:
            out.fail(dict(kind="stress", typed=typed), f"[stress {'TypedTree' if typed else 'Tree'}] {b}")
    return out


def replay(ctx, rp):
    case = rp["case"]
    out = core.Outcome()
    if case.get("kind") == "schedule":
        events, problems = controlled_schedule(case["typed"], case["op"], out, mode=case.get("mode", "sentinel"), wait=case.get("hold", WAIT))
        return dict(events=events, problems=problems, property_holds=not problems)
    if case.get("kind") == "snapshot-preemption":
        n, problems = snapshot_preemptions(case["typed"], case["op"], max_points=200)
        return dict(points=n, problems=problems, property_holds=not problems)
    if case.get("kind") == "enter-preemption":
        n, problems = enter_preemptions(case["typed"])
        return dict(points=n, problems=problems, property_holds=not problems)
    if case.get("kind") == "reader-first":
        events, problems = reader_first_schedule(case["typed"], case["op"])
        return dict(events=events, problems=problems, property_holds=not problems)
    if case.get("kind") == "late-reader":
        rs = [r_ for r_ in late_reader_schedules() if r_["typed"] == case["typed"] and r_["op"] == case["op"]]
        problems = [p for r_ in rs for p in r_["problems"]]
        return dict(problems=problems, property_holds=not problems)
    if case.get("kind") == "contended-reentrant":
        problems = contended_reentrant(case["typed"], case["op"])
        return dict(problems=problems, property_holds=not problems)
    if case.get("kind") == "reentrant":
        done, problems = reentrant(case["typed"], out)
        return dict(done=done, problems=problems, property_holds=not problems)
    bad = stress(case.get("typed", False), 2, 2, 100, out)
    return dict(problems=bad, property_holds=not bad)
