"""C03 — a parent never holds two children with the same data_id."""
from __future__ import annotations

import core
import histories as H
from props import _hist
from props.c01 import LABELS

LEVEL = "proof"
TRUSTED = ["the decidable `sibUniqueB` of lean/Nutree/Spec/WF.lean is evaluated by the driver on the observed state"]
ASSUMPTIONS = ["from_dict / load routes are exercised by C14 / C05's checks (their add path is the same add_child)"]

PROFILES = [
    dict(name="collide", typed=False, malformed=0.05, ops=["add", "add", "addnode", "addnode", "addtree", "move", "move", "remove", "setdata", "setdata", "shortcut"]),
    # equal data_ids on data objects that are not == (explicit ids): collisions that only an id comparison sees
    dict(name="collide-explicit-ids", typed=False, malformed=0.05, did_rate=0.7, dids=(1001, 1002),
         ops=["add", "add", "add", "addnode", "move", "move", "move", "remove", "setdata", "shortcut"]),
    dict(name="collide-typed", typed=True, malformed=0.05, ops=["add", "add", "addnode", "addtree", "remove", "setdata", "shortcut"]),
]
SMALL = [[0, 1], [0, 1, 18, 19]]   # tiny alphabets: collisions are the norm


def judge(s, r):
    out = []
    if s.oracles.get("sib"):
        out.append(("sibling-pair", s.oracles["sib"][0], None))
    if s.model_res == "unique" and s.impl_res == "ok":
        out.append(("not-refused", f"{H.clean(s.op)} would place a second child with the same data_id; expected UniqueConstraintError, got success", None))
    return out


def keep_ops(impl, ti):
    return [o for o in _hist.all_single_ops(impl, ti, labels=[0, 1]) if o["op"] != "w.sort" and o["op"] != "w.removechildren"]


def run(ctx):
    out = core.Outcome(
        rule="collision-directed: tiny label alphabets (2-4 labels incl. equal-but-distinct objects) so that most operations would create an equal pair; "
        "every single op on every forest <= N nodes (all labelings for <= 3 nodes) and random histories over every route (add/shortcuts, node copy, "
        "copy_to, add(tree), move_to, remove(keep_children), set_data/rename with and without clones). After each step no parent may hold two children "
        "with one data_id (Lean sibUniqueB on the observed state), and whenever the specification refuses with the uniqueness error the implementation must not succeed"
    )
    ctx.budget_s = 900 if ctx.thorough else 100
    n = 4 if ctx.thorough else 3
    _hist.exhaustive_single_ops(ctx, out, judge, max_nodes=n, alphabet=[0, 1], ops_of=keep_ops, label_limit=None if not ctx.thorough else 12)
    _hist.history_campaign(ctx, out, judge, n_hist=1500 if ctx.thorough else 150, n_steps=80 if ctx.thorough else 25, profiles=PROFILES, labels_sets=SMALL)
    return out


def replay(ctx, rp):
    return _hist.replay(ctx, rp, judge)
