"""C03 — a parent never holds two children with the same data_id."""
from __future__ import annotations

import copy
import io
import json

import adapter
import core
import histories as H
import serial_h as S
from nutree import Tree
from nutree.common import UniqueConstraintError
from nutree.typed_tree import TypedTree
from props import _hist
from props import c12 as C12
from props.c01 import LABELS

LEVEL = "proof"
TRUSTED = ["the decidable `sibUniqueB` of lean/Nutree/Spec/WF.lean is evaluated by the driver on the observed state",
           "documents campaign: json.dumps/json.load are the identity on JSON values; the independent encoder of props/c12.py and the "
           "independent duplicate-sibling analysis of props/c03.py (share no code with nutree or the model)"]
ASSUMPTIONS = ["documents campaign: header values have the documented types (meta / $key_map / $value_map are objects); no floats, no `node_id` "
               "keys, kinds are strings; the data of a from_dict item without mapper is a JSON scalar (a list/dict with an explicit data_id is not modelled)"]

PROFILES = [
    dict(name="collide", typed=False, malformed=0.05, ops=["add", "add", "addnode", "addnode", "addtree", "move", "move", "remove", "setdata", "setdata", "shortcut"]),
    # equal data_ids on data objects that are not == (explicit ids): collisions that only an id comparison sees
    dict(name="collide-explicit-ids", typed=False, malformed=0.05, did_rate=0.7, dids=(1001, 1002),
         ops=["add", "add", "add", "addnode", "move", "move", "move", "remove", "setdata", "shortcut"]),
    dict(name="collide-typed", typed=True, malformed=0.05, ops=["add", "add", "addnode", "addtree", "remove", "setdata", "shortcut"]),
]
SMALL = [[0, 1], [0, 1, 18, 19]]   # tiny alphabets: collisions are the norm


def judge(s, r):
    out = []
    if s.oracles.get("sib"):
        out.append(("sibling-pair", s.oracles["sib"][0], None))
    if s.model_res == "unique" and s.impl_res == "ok":
        out.append(("not-refused", f"{H.clean(s.op)} would place a second child with the same data_id; expected UniqueConstraintError, got success", None))
    return out


def keep_ops(impl, ti):
    return [o for o in _hist.all_single_ops(impl, ti, labels=[0, 1]) if o["op"] != "w.sort" and o["op"] != "w.removechildren"]


# ====================================================================== campaign "documents"
#
# Arbitrary (externally produced, possibly malformed) documents on the routes Tree.load / TypedTree.load /
# Tree.from_dict / Tree().from_dict / node.from_dict.


class MapperRaised(Exception):
    """an exception that escaped from the harness's deserialisation mapper"""


def wrap_mapper(fn):
    def mapper(parent, data):
        try:
            return fn(parent, data)
        except Exception as e:  # noqa
            raise MapperRaised(f"{type(e).__name__}: {e}") from None

    return mapper


def scalar_code(o):
    """the model's object number of a JSON scalar used as data object (Ser.scalarAtom)"""
    if o is None:
        return 799999
    if isinstance(o, bool):
        return 800000 + 2 * (2 if o else 0) + 1
    return 800000 + 2 * (2 * (-o) - 1 if o < 0 else 2 * o)


def impl_shape(tree, pool, scalars=False):
    def code(o):
        if scalars and (o is None or isinstance(o, (bool, int))):
            return scalar_code(o)
        if scalars and isinstance(o, (list, dict)):
            return 799998           # Ser.compoundAtom
        try:
            return pool.attrs[pool.index_of(o)]["obj"]
        except KeyError:
            return repr(o)

    def w(n):
        return [code(n.data), pool.canon_did(n.data_id), getattr(n, "kind", None), [w(c) for c in n.children]]

    return [w(c) for c in tree.children]


def impl_err(e):
    if isinstance(e, MapperRaised):
        return "err:callback"
    return "err:" + adapter.err_class(e)


def tree_oracle(tree, typed):
    """C01-C03 conjuncts evaluated on the implementation alone; list of problems"""
    bad = []
    reach = []

    def walk(p, depth):
        if depth > 100:
            bad.append("depth > 100 (cycle?)")
            return
        ids = [c.data_id for c in p.children]
        if len(set(ids)) != len(ids):
            bad.append(f"parent {p!r} has two children with one data_id: {ids!r}")
        for c in p.children:
            reach.append(c)
            if c.up() is not p:
                bad.append(f"{c!r}.up() is not the node that lists it")
            if c.parent is not (None if p is tree.system_root else p):
                bad.append(f"{c!r}.parent disagrees with its position")
            if c.tree is not tree:
                bad.append(f"{c!r}.tree is another tree")
            walk(c, depth + 1)

    walk(tree.system_root, 0)
    if len({id(n) for n in reach}) != len(reach):
        bad.append("a node object is reachable twice")
    if len({n.node_id for n in reach}) != len(reach):
        bad.append("node_ids are not unique")
    if tree.count != len(reach) or len(tree) != len(reach):
        bad.append(f"count={tree.count} len={len(tree)} reachable={len(reach)}")
    for n in reach:
        if tree.find_first(node_id=n.node_id) is not n:
            bad.append(f"find_first(node_id) does not return {n!r}")
        same = [m for m in reach if m.data_id == n.data_id]
        got = tree.find_all(data_id=n.data_id)
        if len(got) != len(same) or {id(x) for x in got} != {id(x) for x in same}:
            bad.append(f"find_all(data_id={n.data_id!r}) returns {len(got)} nodes, {len(same)} carry it")
    if type(tree) is not (TypedTree if typed else Tree):
        bad.append(f"class {type(tree).__name__}")
    try:
        tree._self_check()
    except BaseException as e:  # noqa
        bad.append(f"_self_check: {e!r}")
    return bad


# ---------------------------------------------------------------- independent analysis: the first event in reading order

def decode_entry(d, km, vm):
    inv = {v: k for k, v in (km or {}).items()}
    out = {}
    for k, v in d.items():
        lk = inv.get(k, k)
        if isinstance(v, int) and not isinstance(v, bool) and vm and lk in vm and 0 <= v < len(vm[lk]):
            v = vm[lk][v]
        out[lk] = v
    return out


def hashable_id(v):
    return v is None or isinstance(v, (bool, int, str))


def dict_key(d, mode, pool):
    """canonical data_id of the node a dict describes; None = the mapper refuses it"""
    if mode == "o":
        if "o" in d:
            if not (isinstance(d["o"], int) and not isinstance(d["o"], bool) and 0 <= d["o"] < len(pool.objs)):
                return None
            h = pool.attrs[d["o"]]["hid"]
        elif isinstance(d.get("str"), str):
            h = pool.attrs[pool.index_of(d["str"])]["hid"]
        elif isinstance(d.get("data"), str):
            h = pool.attrs[pool.index_of(d["data"])]["hid"]
        else:
            return None
    else:
        if not isinstance(d.get("str"), str):
            return None
        if mode == "none" and len(d) > 2:
            return None
        if mode == "str" and not set(d) <= {"str", "kind", "data_id"}:
            return None
        h = pool.attrs[pool.index_of(d["str"])]["hid"]
    did = d.get("data_id")
    if did is None:
        return ("id", h)
    if not hashable_id(did):
        return None
    return ("id", pool.canon_did(did))


def first_event_nodes(doc, typed, mode, pool):
    """("dup", row) / ("other", row) / ("shape", row) / None for a node-list document, following the
    order in which a reader of the documented layout meets the entries; clone references are followed."""
    nodes = doc["nodes"]
    km, vm = doc["meta"].get("$key_map"), doc["meta"].get("$value_map")
    for i, e in enumerate(nodes, 1):
        if not (isinstance(e, list) and len(e) == 2):
            return ("shape", i)
    keys = {0: None}
    kids = {0: []}
    for i, (p, payload) in enumerate(nodes, 1):
        if isinstance(p, bool) or not isinstance(p, int) or p not in keys:
            return ("other", i)
        if isinstance(payload, bool):
            payload = int(payload)
        if isinstance(payload, str):
            key = ("id", pool.attrs[pool.index_of(payload)]["hid"])
        elif isinstance(payload, int):
            if payload < 1 or payload not in keys:
                return ("other", i)
            key = keys[payload]
        elif isinstance(payload, dict):
            key = dict_key(decode_entry(payload, km, vm), mode, pool)
            if key is None:
                return ("other", i)
        else:
            return ("other", i)
        if key in kids[p]:
            return ("dup", i)
        kids[p].append(key)
        keys[i] = key
        kids[i] = []
    return None


def first_event_dicts(items, mode, pool, counter=None):
    """the same for a nested dict list (pre-order)"""
    counter = counter if counter is not None else [0]
    if not isinstance(items, list):
        return ("other", counter[0])
    seen = []
    for it in items:
        counter[0] += 1
        row = counter[0]
        if not isinstance(it, dict):
            return ("other", row)
        if mode == "o":
            key = dict_key(it, "o", pool)
            if key is None:
                return ("other", row)
        else:
            if "data" not in it:
                return ("other", row)
            v = it["data"]
            did = it.get("data_id")
            if did is not None and not hashable_id(did):
                return ("other", row)
            if isinstance(v, str):
                h = pool.attrs[pool.index_of(v)]["hid"]
            elif v is None or isinstance(v, (bool, int)):
                h = pool.canon_did(hash(v))
            elif did is not None:
                h = None            # unhashable data is fine under an explicit data_id
            else:
                return ("other", row)
            key = ("id", pool.canon_did(did) if did is not None else h)
        if key in seen:
            return ("dup", row)
        seen.append(key)
        ch = it.get("children")
        if ch:
            if not isinstance(ch, list):
                return ("other", row)
            ev = first_event_dicts(ch, mode, pool, counter)
            if ev:
                return ev
    return None


# ---------------------------------------------------------------- independent encoder for the nested dict form

def desc_to_dicts(desc):
    out = []
    for payload, did, _kind, kids in desc:
        d = {"data": payload} if isinstance(payload, str) else dict(payload, data=payload["name"])
        if did is not None:
            d["data_id"] = did
        if kids:
            d["children"] = desc_to_dicts(kids)
        out.append(d)
    return out


# ---------------------------------------------------------------- mutations

def _children_of(nodes):
    ch = {}
    for i, (p, _) in enumerate(nodes, 1):
        ch.setdefault(p, []).append(i)
    return ch


def _kind_key(doc):
    return (doc["meta"].get("$key_map") or {}).get("kind", "kind")


def m_dup_entry(rng, doc, typed):
    nodes = doc["nodes"]
    j = rng.randrange(1, len(nodes) + 1)
    nodes.append([nodes[j - 1][0], copy.deepcopy(nodes[j - 1][1])])
    return True


def m_ref_to_sibling(rng, doc, typed):
    nodes = doc["nodes"]
    fams = [c for c in _children_of(nodes).values() if len(c) >= 2]
    if not fams:
        return False
    fam = rng.choice(fams)
    a, b = sorted(rng.sample(fam, 2))
    nodes[b - 1][1] = a
    return True


def m_dup_dict_id(rng, doc, typed):
    nodes = doc["nodes"]
    fams = [c for c in _children_of(nodes).values() if len(c) >= 2]
    if not fams or doc["meta"].get("$key_map") or doc["meta"].get("$value_map"):
        return False
    a, b = sorted(rng.sample(rng.choice(fams), 2))
    for i in (a, b):
        pl = nodes[i - 1][1]
        if isinstance(pl, str):
            pl = {"str": pl}
        elif isinstance(pl, int):
            pl = {"str": "A"}
            if typed:
                pl["kind"] = "a"
        pl = dict(pl)
        pl["data_id"] = 4242
        nodes[i - 1][1] = pl
    return True


def m_parent_forward(rng, doc, typed):
    nodes = doc["nodes"]
    n = len(nodes)
    if n < 2:
        return False
    j = rng.randrange(1, n)
    nodes[j - 1][0] = rng.randint(j + 1, n)
    return True


def m_parent_oor(rng, doc, typed):
    nodes = doc["nodes"]
    rng.choice(nodes)[0] = len(nodes) + rng.randint(1, 9)
    return True


def m_parent_neg(rng, doc, typed):
    nodes = doc["nodes"]
    rng.choice(nodes)[0] = -rng.randint(1, len(nodes))
    return True


def m_parent_self(rng, doc, typed):
    nodes = doc["nodes"]
    j = rng.randrange(1, len(nodes) + 1)
    nodes[j - 1][0] = j
    return True


def m_ref_forward(rng, doc, typed):
    nodes = doc["nodes"]
    n = len(nodes)
    if n < 2:
        return False
    j = rng.randrange(1, n)
    nodes[j - 1][1] = rng.randint(j + 1, n)
    return True


def m_ref_self(rng, doc, typed):
    nodes = doc["nodes"]
    j = rng.randrange(1, len(nodes) + 1)
    nodes[j - 1][1] = j
    return True


def m_ref_zero(rng, doc, typed):
    rng.choice(doc["nodes"])[1] = rng.choice([0, 0, False])
    return True


def m_ref_oor(rng, doc, typed):
    nodes = doc["nodes"]
    rng.choice(nodes)[1] = len(nodes) + rng.randint(1, 9)
    return True


def m_ref_other_kind(rng, doc, typed):
    """a reference to an earlier entry (typed: preferably one of another kind)"""
    nodes = doc["nodes"]
    n = len(nodes)
    if n < 2:
        return False
    kk = _kind_key(doc)
    for _ in range(20):
        j = rng.randrange(2, n + 1)
        i = rng.randrange(1, j)
        if typed:
            ki = nodes[i - 1][1].get(kk) if isinstance(nodes[i - 1][1], dict) else None
            kj = nodes[j - 1][1].get(kk) if isinstance(nodes[j - 1][1], dict) else None
            if ki is None or ki == kj:
                continue
        nodes[j - 1][1] = i
        return True
    return False


def m_payload_type(rng, doc, typed):
    rng.choice(doc["nodes"])[1] = copy.deepcopy(rng.choice([None, [], ["A"], True, False, None]))
    return True


def m_dict_bad(rng, doc, typed):
    opts = [{}, {"x": 1}, {"data_id": 7}]
    if typed:
        opts.append({_kind_key(doc): 0 if (doc["meta"].get("$value_map") or {}).get("kind") else "a"})
    rng.choice(doc["nodes"])[1] = copy.deepcopy(rng.choice(opts))
    return True


def m_typed_no_kind(rng, doc, typed):
    if not typed:
        return False
    kk = _kind_key(doc)
    sk = (doc["meta"].get("$key_map") or {}).get("str", "str")
    cand = [e for e in doc["nodes"] if isinstance(e[1], dict) and kk in e[1]]
    if not cand:
        return False
    e = rng.choice(cand)
    if rng.random() < 0.3 and isinstance(e[1].get(sk), str) and len(e[1]) == 2:
        e[1] = e[1][sk]          # a plain string entry in a typed document
    else:
        del e[1][kk]
    return True


def m_entry_shape(rng, doc, typed):
    nodes = doc["nodes"]
    j = rng.randrange(len(nodes))
    nodes[j] = copy.deepcopy(rng.choice([[nodes[j][0]], nodes[j] + [0], None, 5, []]))
    return True


NODE_MUTATIONS = {
    "dup_entry": m_dup_entry, "ref_to_sibling": m_ref_to_sibling, "dup_dict_id": m_dup_dict_id,
    "parent_forward": m_parent_forward, "parent_oor": m_parent_oor, "parent_neg": m_parent_neg, "parent_self": m_parent_self,
    "ref_forward": m_ref_forward, "ref_self": m_ref_self, "ref_zero": m_ref_zero, "ref_oor": m_ref_oor,
    "ref_other_kind": m_ref_other_kind, "payload_type": m_payload_type, "dict_bad": m_dict_bad,
    "typed_no_kind": m_typed_no_kind, "entry_shape": m_entry_shape,
}


def _lists(items, depth=1):
    """all (list, depth) of a nested dict list"""
    out = [(items, depth)]
    for it in items:
        if isinstance(it, dict) and isinstance(it.get("children"), list):
            out += _lists(it["children"], depth + 1)
    return out


def _items(items):
    return [it for l, _ in _lists(items) for it in l if isinstance(it, dict)]


def d_dup_depth2(rng, items, mode):
    ls = [l for l, d in _lists(items) if d >= 2 and l]
    if not ls:
        return False
    l = rng.choice(ls)
    it = copy.deepcopy(rng.choice(l))
    if rng.random() < 0.5:
        it.pop("children", None)
    l.insert(rng.randint(1, len(l)), it)
    return True


def d_dup_top(rng, items, mode):
    if not items:
        return False
    it = copy.deepcopy(rng.choice(items))
    items.insert(rng.randint(1, len(items)), it)
    return True


def d_dup_explicit_id(rng, items, mode):
    ls = [l for l, _ in _lists(items) if len(l) >= 2]
    if not ls:
        return False
    a, b = rng.sample(rng.choice(ls), 2)
    a["data_id"] = b["data_id"] = rng.choice([4242, "same"])
    return True


def d_no_data(rng, items, mode):
    it = rng.choice(_items(items))
    it.pop("data", None)
    it.pop("o", None)
    return True


def d_data_type(rng, items, mode):
    if mode != "none":
        return False
    rng.choice(_items(items))["data"] = copy.deepcopy(rng.choice([7, -1, 0, True, None, [1], {"a": 1}]))
    return True


def d_item_type(rng, items, mode):
    if mode != "none":
        return False
    l = rng.choice([l for l, _ in _lists(items) if l])
    l[rng.randrange(len(l))] = copy.deepcopy(rng.choice(["x", None, 3, ["data"], True]))
    return True


def d_children_type(rng, items, mode):
    if mode != "none":
        return False
    rng.choice(_items(items))["children"] = copy.deepcopy(rng.choice(["xy", 3, True, {"data": "B"}, "", 0, {}, None, [], False]))
    return True


def d_data_id_type(rng, items, mode):
    ls = [l for l, _ in _lists(items) if len(l) >= 2]
    r = rng.random()
    if r < 0.4 and ls:
        a, b = rng.sample(rng.choice(ls), 2)
        a["data_id"], b["data_id"] = True, 1           # True == 1, hash(True) == 1: the same id
    elif r < 0.7:
        rng.choice(_items(items))["data_id"] = copy.deepcopy(rng.choice([[1], {"a": 1}]))
    else:
        rng.choice(_items(items))["data_id"] = rng.choice([None, False, 0])
    return True


DICT_MUTATIONS = {
    "dl_dup_depth2": d_dup_depth2, "dl_dup_top": d_dup_top, "dl_dup_explicit_id": d_dup_explicit_id, "dl_no_data": d_no_data,
    "dl_data_type": d_data_type, "dl_item_type": d_item_type, "dl_children_type": d_children_type, "dl_data_id_type": d_data_id_type,
}


# ---------------------------------------------------------------- one document

def doc_case(ctx, out, case):
    """run one document on the implementation and on the model; oracles (a), (b), (c)"""
    pool = ctx.pool
    route, typed, mode, doc = case["route"], case.get("typed", False), case["mode"], case["doc"]
    m = S.Mappers(pool)
    mapper = wrap_mapper(m.deser) if mode == "o" else None
    scalars = route != "load" and mode == "none"
    existing = None
    # ---- implementation
    tree = None
    try:
        if route == "load":
            cls = TypedTree if typed else Tree
            tree = cls.load(io.StringIO(json.dumps(doc)), mapper=mapper)
        elif route == "from_dict":
            tree = Tree.from_dict(json.loads(json.dumps(doc)), mapper=mapper)
        elif route == "from_dict_inst":
            tree = Tree("other").from_dict(json.loads(json.dumps(doc)), mapper=mapper)
        else:  # node.from_dict on an existing tree
            existing = adapter.build(case["spec"], pool)
            before = impl_shape(existing, pool)
            target = adapter.node_at(existing, case["path"])
            target.from_dict(json.loads(json.dumps(doc)), mapper=mapper)
            tree = existing
        res = impl_shape(tree, pool, scalars)
    except RecursionError:
        raise
    except BaseException as e:  # noqa
        res = impl_err(e)
        tree = None
    out.dist["result:" + (res if isinstance(res, str) else "tree")] += 1
    # ---- oracle (a): the first event of the document (independent analysis)
    if route == "load":
        ev = first_event_nodes(doc, typed, mode, pool)
    else:
        ev = first_event_dicts(doc, mode, pool)
    if route == "node.from_dict" and case.get("nonleaf"):
        ev = ("other", 0)        # the documented precondition: the target has no children
    out.dist["event:" + (ev[0] if ev else "valid")] += 1
    if ev and ev[0] == "dup":
        if res != "err:unique":
            out.fail(case, f"{route}: entry #{ev[1]} of the document is a second child with the data_id of an earlier sibling; expected "
                           f"UniqueConstraintError, got {res if isinstance(res, str) else 'a tree'}; doc {json.dumps(doc)[:300]}", impl=res)
    elif ev is None and isinstance(res, str):
        out.fail(case, f"{route}: a document of the documented layout is refused with {res}; doc {json.dumps(doc)[:300]}", impl=res)
    elif ev is not None and not isinstance(res, str):
        out.fail(case, f"{route}: malformed document ({ev[0]} at entry #{ev[1]}) is accepted; doc {json.dumps(doc)[:300]}", impl="tree")
    # ---- oracle (b): a returned tree is well-formed
    if tree is not None:
        bad = tree_oracle(tree, typed)
        if bad:
            out.fail(case, f"{route}: the returned tree is not well-formed: {bad[0]}; doc {json.dumps(doc)[:300]}", problems=bad[:5])
        if case.get("want") is not None and res != case["want"]:
            out.fail(case, f"{route}: the document describes {case['want']}, loaded {res}", impl=res, spec=case["want"])
    # ---- (c): state of an existing tree after a refused node.from_dict (reported, not judged)
    if existing is not None and isinstance(res, str):
        after = impl_shape(existing, pool, scalars)
        try:
            existing._self_check()
            sc = "selfcheck-ok"
        except BaseException:  # noqa
            sc = "selfcheck-FAILS"
        bad = tree_oracle(existing, False)
        wf = "wf" if not bad else "NOT-wf"
        out.dist[f"existing-after-refusal:{'unchanged' if after == before else 'partial-insertion'}:{sc}:{wf}:{res}"] += 1
        # whatever stopped node.from_dict() (a refusal, or an exception escaping from the mapper / the id callback at some
        # invocation): the existing tree must still be well-formed (C01-C03 conjuncts; C13)
        if bad or sc != "selfcheck-ok":
            out.fail(case, f"{route} stopped with {res}; afterwards the existing tree is not well-formed: {(bad or ['_self_check() fails'])[0]}; doc {json.dumps(doc)[:300]}",
                     problems=bad[:5])
    # ---- model
    if route == "load":
        req = {"op": "ser.load", "doc": doc, "typed": typed, "deser": mode}
    elif route == "node.from_dict":
        ser = adapter.Serials()
        ex2 = adapter.build(case["spec"], pool)
        tj = adapter.tree_json(ex2, ser, pool)
        req = {"op": "ser.fromdict_at", "t": tj, "parent": ser.of(adapter.node_at(ex2, case["path"])), "next": ser.next, "doc": doc, "deser": mode}
    else:
        req = {"op": "ser.fromdict", "doc": doc, "deser": mode}
    ml = ctx.driver.ask(req)
    if "fail" in ml:
        raise core.MachineryError(f"driver: {ml} on {json.dumps(req)[:300]}")
    mres = S.model_shape(ml["ok"]) if "ok" in ml else "err:" + ml.get("err", "?")
    if mres != res:
        out.disagree(case, f"{route}: model {mres if isinstance(mres, str) else 'builds ' + json.dumps(mres)[:200]}, implementation "
                           f"{res if isinstance(res, str) else 'builds ' + json.dumps(res)[:200]}; doc {json.dumps(doc)[:300]}")
    return res, ev


def documents_campaign(ctx, out, scale=1.0):
    pool = ctx.pool
    rng = ctx.rng
    target = int((160 if ctx.thorough else 55) * scale)          # hits per mutation kind
    hits = {k: 0 for k in list(NODE_MUTATIONS) + list(DICT_MUTATIONS)}
    KM = [None, {"data_id": "i", "str": "s", "kind": "k"}, {"data_id": "i", "str": "s", "kind": "k", "type": "t", "name": "n", "o": "x"}]
    k = 0
    max_docs = int((40000 if ctx.thorough else 6000) * scale)
    while k < max_docs and (min(hits.values()) < target or k < int((3000 if ctx.thorough else 600) * scale)):
        k += 1
        nodes_route = k % 3 != 0
        objs = k % 2 == 1
        if nodes_route:
            typed = k % 4 in (1, 2)
            desc = C12.random_desc(rng, pool, rng.randrange(1, 12), typed, objs)
            km = KM[k % 3] if k % 5 == 0 else None
            vm = None
            if km is not None and k % 2 == 0:
                vm = {"type": ["int", "tuple", "Item", "EqObj"]}
                if typed:
                    vm["kind"] = ["a", "b", "child", "c", "d"]
            doc = C12.encode(desc, typed, km, vm, {"who": "c03-documents"})
            mode = "o" if objs else ("str" if typed else "none")
            base = dict(campaign="documents", route="load", typed=typed, mode=mode, doc=doc, mutations=[],
                        want=C12.desc_shape(desc, pool, typed))
            muts = NODE_MUTATIONS
            kind = "nodes:" + ("typed" if typed else "plain") + ("-obj" if objs else "-str") + ("-maps" if km else "")
        else:
            desc = C12.random_desc(rng, pool, rng.randrange(1, 12), False, objs)
            doc = desc_to_dicts(desc)
            mode = "o" if objs else "none"
            route = ["from_dict", "from_dict_inst", "node.from_dict"][(k // 3) % 3]
            base = dict(campaign="documents", route=route, typed=False, mode=mode, doc=doc, mutations=[])
            want = C12.desc_shape(desc, pool, False)
            if route == "node.from_dict":
                spec = S.random_label_spec(rng, rng.randrange(1, 7), S.STRS[2:], False, explicit=0.0, clone_rate=0.2)
                t0 = adapter.build(spec, pool)
                allp = []

                def paths(n, pre):
                    for i, c in enumerate(n.children):
                        allp.append((pre + [i], bool(c.children)))
                        paths(c, pre + [i])
                paths(t0, [])
                leafs = [p for p, nl in allp if not nl]
                nonleafs = [p for p, nl in allp if nl]
                if nonleafs and rng.random() < 0.15:
                    base.update(spec=spec, path=rng.choice(nonleafs), nonleaf=True)
                else:
                    base.update(spec=spec, path=rng.choice(leafs))
            else:
                base["want"] = want
            muts = DICT_MUTATIONS
            kind = "dicts:" + route + ("-obj" if objs else "-str")
        # the valid document
        out.dist["doc:" + kind] += 1
        doc_case(ctx, out, base)
        out.count(("doc", json.dumps(base["doc"], sort_keys=True), base["route"], base.get("typed"), json.dumps(base.get("path"))),
                  (len(doc["nodes"]) if nodes_route else len(_items(doc))) >= 3)
        # one mutant of it (the kind with the fewest hits that applies), sometimes two mutations
        order = sorted(muts, key=lambda n: (hits[n], rng.random()))
        case = copy.deepcopy(base)
        case.pop("want", None)
        applied = []
        for name in order:
            if (muts[name](rng, case["doc"], case["typed"]) if nodes_route else muts[name](rng, case["doc"], case["mode"])):
                applied.append(name)
                break
        if applied and rng.random() < 0.25:
            name2 = rng.choice(list(muts))
            try:
                ok2 = muts[name2](rng, case["doc"], case["typed"]) if nodes_route else muts[name2](rng, case["doc"], case["mode"])
            except (TypeError, AttributeError, IndexError, KeyError, ValueError):
                ok2 = False          # the first mutation destroyed the structure the second one looks at
            if ok2:
                applied.append(name2)
        if not applied:
            continue
        case["mutations"] = applied
        for name in applied:
            hits[name] += 1
            out.dist["mut:" + name] += 1
        out.dist["doc:" + kind + ":mutated"] += 1
        res, ev = doc_case(ctx, out, case)
        out.count(("mut", json.dumps(case["doc"], sort_keys=True, default=str), case["route"], case.get("typed")), True)
        if len(out.samples) < 6 and k % 7 == 0:
            out.sample(dict(route=case["route"], mutations=applied, doc=case["doc"], result=res if isinstance(res, str) else "tree"))
    out.extra["documents_mutation_hits"] = dict(hits)
    low = {n: h for n, h in hits.items() if h < (50 if not ctx.thorough else 150)}
    if low:
        out.notes.append(f"documents campaign: mutation kinds below the target: {low}")


def run(ctx):
    out = core.Outcome(
        rule="collision-directed: tiny label alphabets (2-4 labels incl. equal-but-distinct objects) so that most operations would create an equal pair; "
        "every single op on every forest <= N nodes (all labelings for <= 3 nodes) and random histories over every route (add/shortcuts, node copy, "
        "copy_to, add(tree), move_to, remove(keep_children), set_data/rename with and without clones). After each step no parent may hold two children "
        "with one data_id (Lean sibUniqueB on the observed state), and whenever the specification refuses with the uniqueness error the implementation must not succeed"
    )
    ctx.budget_s = ctx.budget(900, 100)
    n = 4 if ctx.thorough else 3
    _hist.exhaustive_single_ops(ctx, out, judge, max_nodes=n, alphabet=[0, 1], ops_of=keep_ops, label_limit=None if not ctx.thorough else 12)
    _hist.history_campaign(ctx, out, judge, n_hist=1500 if ctx.thorough else 150, n_steps=80 if ctx.thorough else 25, profiles=PROFILES, labels_sets=SMALL)
    out.rule += (
        ". Campaign `documents`: node-list documents (plain/typed, string and object payloads, with/without key/value maps) and nested dict lists "
        "written by an independent encoder from random described trees, each also with one or two mutations (duplicate entry, clone reference to a "
        "sibling, equal explicit ids, parent index forward/out of range/negative/self, clone reference forward/self/0/out of range/other kind, payload "
        "of a wrong JSON type, dict without str/data, typed dict without kind, entry that is not a pair; dict lists: duplicate siblings at depth >= 2 "
        "and at the top, equal explicit ids, missing data, data/item/children/data_id of a wrong type) on Tree.load / TypedTree.load / Tree.from_dict / "
        "Tree().from_dict / node.from_dict(existing tree). Oracle on the implementation: the first event of the document in reading order (independent "
        "analysis following clone references) is a duplicate sibling => UniqueConstraintError; a valid document loads as described; a malformed one is "
        "not accepted; every returned tree satisfies sibling uniqueness, parent/owner/count/id/index conjuncts and _self_check(); model and "
        "implementation agree on the error class or on the tree"
    )
    documents_campaign(ctx, out)
    return out


def replay(ctx, rp):
    case = rp.get("case") or {}
    if case.get("campaign") == "documents":
        out = core.Outcome()
        if "spec" in case:
            from props.c10 import tuplify_d

            case["spec"] = tuplify_d(case["spec"])
        res, ev = doc_case(ctx, out, case)
        return dict(result=res if isinstance(res, str) else "tree", first_event=ev, failures=[f["what"] for f in out.oracle_failures[:4]],
                    disagreements=[d["what"] for d in out.disagreements[:3]], property_holds=not out.oracle_failures)
    return _hist.replay(ctx, rp, judge)
