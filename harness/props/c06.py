"""C06 — traversals: order, exactly-once, control signals.  Correspondence + oracle."""
from __future__ import annotations

import collections
import itertools
import warnings

import adapter
import gen
from nutree import IterMethod, Tree
from nutree.common import SkipBranch, StopTraversal

LEVEL = "proof"
TRUSTED = ["callbacks are modelled as functions of the node (each node is visited at most once, so a stateful callback is one such function per run)"]
ASSUMPTIONS = ["RANDOM_ORDER / UNORDERED are compared as multisets"]

METHODS = ["pre", "post", "level", "level_rtl", "zigzag", "zigzag_rtl", "random", "unordered"]
SKIPS = ["retSkipCls", "retSkipInst", "raiseSkip", "retSkipSelfInst", "raiseSkipSelf"]
# the model's traversal signals have one "instance of SkipBranch" spelling (`isinstance(res, SkipBranch)`, whatever `and_self` is)
MODEL_TAG = {"retSkipSelfInst": "retSkipInst", "raiseSkipSelf": "raiseSkip"}
STOPS = [("retStopCls", None), ("retStopInst", 5), ("retStopInst", None), ("raiseStop", 7), ("raiseStop", None),
         ("retFalse", None), ("retStopIterCls", None), ("retStopIterInst", 3), ("raiseStopIter", 4), ("raiseStopIter", None)]
OTHERS = [("retOther", None), ("raiseOther", None)]


from booms import CbBoom as CbError, boom  # noqa: E402


def method_of(name):
    return IterMethod(name)


def model_cb(cb):
    return {k: [MODEL_TAG.get(v[0], v[0])] + list(v[1:]) for k, v in cb.items()}


_CUR = {"table": {}, "ser": None, "calls": None}


def make_cb(table, ser, calls):
    """ONE callback function object serves all visits of a check run (an application passes the same function again and
    again; nothing the library remembers about a callback object may change what a later traversal does): the verdict
    table, the numbering and the call log of the current visit are switched underneath it"""
    _CUR.update(table=table, ser=ser, calls=calls)
    return _shared_cb


def _shared_cb(node, memo):
    if True:
        table, ser, calls = _CUR["table"], _CUR["ser"], _CUR["calls"]
        s = ser.of(node)
        calls.append(s)
        tag, v = table.get(s, ("retNone", None))
        if tag == "retNone":
            return None
        if tag == "retOther":
            return True
        if tag == "retFalse":
            return False
        if tag == "retSkipCls":
            return SkipBranch
        if tag == "retSkipInst":
            return SkipBranch()
        if tag == "raiseSkip":
            raise SkipBranch
        if tag == "retSkipSelfInst":
            return SkipBranch(and_self=False)     # `and_self` matters to filters only: a traversal skips the descendants all the same
        if tag == "raiseSkipSelf":
            raise SkipBranch(and_self=False)
        if tag == "retStopCls":
            return StopTraversal
        if tag == "retStopInst":
            return StopTraversal(v)
        if tag == "raiseStop":
            raise StopTraversal(v)
        if tag == "retStopIterCls":
            return StopIteration
        if tag == "retStopIterInst":
            return StopIteration(v) if v is not None else StopIteration()
        if tag == "raiseStopIter":
            raise (StopIteration(v) if v is not None else StopIteration())
        if tag == "raiseOther":
            raise boom("boom")
        raise AssertionError(tag)


_ITER_CALLS = [0]
_REFUSED = [0]
LAST_REFUSED = False
_ITER_KEYED = {}


def impl_iter(tree, ser, path, m, add_self, inter=None):
    """`inter`: two iterators of the same kind on the same tree, consumed in turns (two consumers alive at once: nested
    loops, a zip of two traversals); both must deliver what one alone delivers.  None = every second call."""
    if inter is None:
        _ITER_CALLS[0] += 1
        inter = _ITER_CALLS[0] % 2 == 0
    try:
        def mk():
            if not path and not add_self:
                return iter(tree.iterator(method_of(m)))
            return iter(adapter.node_at(tree, path).iterator(method_of(m), add_self=add_self))

        if not inter:
            nodes = list(mk())
        else:
            # the second traversal starts while the first one is under way (a nested loop)
            na, nb = [], []
            a = mk()
            live = [(a, na)]
            try:
                na.append(next(a))
            except StopIteration:
                live = []
            b = mk()
            live.append((b, nb))
            while live:
                for it, acc in list(live):
                    try:
                        acc.append(next(it))
                    except StopIteration:
                        live.remove((it, acc))
            ia, ib = [ser.of(n) for n in na], [ser.of(n) for n in nb]
            same = (sorted(ia) == sorted(ib) and len(set(ia)) == len(ia)) if m in ("random", "unordered") else ia == ib
            if not same:
                return {"err": f"two {m} iterators consumed in turns deliver {ia} and {ib}"}
            nodes = na
        return {"ok": [ser.of(n) for n in nodes]}
    except Exception as e:  # noqa
        return {"err": adapter.err_class(e)}


def impl_visit(tree, ser, path, m, add_self, table):
    calls = []
    cb = make_cb(table, ser, calls)
    try:
        with warnings.catch_warnings():
            warnings.simplefilter("ignore")
            if not path and not add_self:
                r = tree.visit(cb, method=method_of(m))
            else:
                r = adapter.node_at(tree, path).visit(cb, add_self=add_self, method=method_of(m))
        out = ["ret", r]
    except CbError:
        out = ["err", "callback"]
    except Exception as e:  # noqa
        out = ["err", adapter.err_class(e)]
    return {"calls": calls, "out": out}


def setup_tree(ctx, spec, typed=False, refused=None):
    tree = adapter.build(spec, ctx.pool, typed=typed)
    _REFUSED[0] += 1
    global LAST_REFUSED
    LAST_REFUSED = (_REFUSED[0] % 4 == 0) if refused is None else bool(refused)
    if LAST_REFUSED:
        # a call that the tree refuses precedes the traversals (the application caught the error): the tree is as it was
        nodes = list(tree)
        pair = next(((a, b) for a in nodes for b in nodes if b is not a and b.parent is not a), None)
        if pair:
            before_n = len(nodes)
            try:
                pair[0].add("refused-data", before=pair[1], **({"kind": "zz"} if typed else {}))
                ok = True
            except Exception:  # noqa
                ok = False
            if ok or len(list(tree)) != before_n:
                for n in list(tree):
                    if n.data == "refused-data":
                        n.remove()
    ser = adapter.Serials()
    ser.by_obj[id(tree.system_root)] = 0
    ser.keep.append(tree.system_root)
    tj = adapter.tree_json(tree, ser, ctx.pool)
    return tree, ser, tj


def check_iter(ctx, out, tree, ser, tj, spec, path, m, add_self):
    req = {"op": "iter", "t": tj, "path": list(path), "m": m, "self": add_self}
    key = (m, bool(path), add_self)
    _ITER_KEYED[key] = _ITER_KEYED.get(key, 0) + 1
    inter = _ITER_KEYED[key] % 2 == 0          # per kind of call: a shared counter runs in step with the enumeration
    impl = impl_iter(tree, ser, path, m, add_self, inter)
    case = dict(kind="iter", spec=spec, path=list(path), m=m, self=add_self, inter=inter, refused=LAST_REFUSED)
    if m in ("random", "unordered") and not path and not add_self:
        # Tree.iterator: any permutation of all nodes
        want = sorted(adapter.ids(list(tree.iterator()), ser))
        got = sorted(impl.get("ok", [-1]))
        if got != want or len(set(got)) != len(got):
            out.fail(case, f"Tree.iterator({m}) is not a permutation of the nodes: {impl}", impl=impl)
        return None
    return req, impl, case


def judge(out, case, impl, resp, what):
    model, spec = resp.get("model"), resp.get("spec")
    if "fail" in resp:
        raise RuntimeError(f"driver: {resp}")
    if impl != spec:
        out.fail(case, f"{what}: implementation {impl} != specification {spec}", impl=impl, spec=spec, model=model)
    elif impl != model:
        out.disagree(case, f"{what}: implementation {impl} != model {model} (spec agrees with implementation)", impl=impl, model=model)


def run(ctx):
    out = collections.namedtuple  # placeholder to keep linters calm
    import core

    out = core.Outcome(
        rule="exhaustive: every ordered forest with <= N nodes x every start node (tree or node) x 8 methods x add_self; "
        "visit: additionally every choice of (skip node | none) x (stop node | none) with the spelling of each signal chosen round-robin, "
        "plus ValueError/other-exception callbacks; then random larger trees. "
        "non-trivial = the started branch has >= 3 nodes; distinct = distinct (shape, start, method, add_self, callback table)"
    )
    n_max = 6 if ctx.thorough else 5
    alphabet = list(range(0, 12))
    spell = itertools.count()
    reqs, pend = [], []

    def flush():
        if not reqs:
            return
        resps = ctx.driver.ask_many(reqs)
        for (case, impl, what), resp in zip(pend, resps):
            judge(out, case, impl, resp, what)
        reqs.clear()
        pend.clear()

    def do_tree(spec, visits=True, full_pairs=True, typed=False):
        tree, ser, tj = setup_tree(ctx, spec, typed)
        size = gen.spec_size(spec)
        paths = [()] + list(gen.all_paths(spec))
        for path in paths:
            sub = adapter.node_at(tree, path)
            branch_ids = [ser.of(n) for n in sub.iterator()]
            nontriv = len(branch_ids) >= 3
            for m in METHODS:
                for add_self in (False, True):
                    r = check_iter(ctx, out, tree, ser, tj, spec, path, m, add_self)
                    if r and typed:
                        r[2]["typed"] = True
                    out.count(("i", typed, repr(spec), path, m, add_self), nontriv)
                    out.dist["iter:" + m] += 1
                    if r:
                        req, impl, case = r
                        reqs.append(req)
                        pend.append((case, impl, f"iterator({m}, add_self={add_self}) at {list(path)}"))
            if not visits:
                continue
            cand = branch_ids + ([ser.of(sub)] if True else [])
            choices = [None] + cand
            for m in ("pre", "post", "level", "zigzag"):
                for add_self in (False, True):
                    if m == "zigzag":
                        pairs = [(None, None)]
                    elif full_pairs:
                        pairs = [(a, b) for a in choices for b in choices if a is None or a != b]
                    else:
                        pairs = [(ctx.rng.choice(choices), ctx.rng.choice(choices)) for _ in range(6)]
                        pairs = [(a, b) for a, b in pairs if a is None or a != b]
                    for sk, st in pairs:
                        table = {}
                        if sk is not None:
                            table[sk] = (SKIPS[next(spell) % len(SKIPS)], None)
                        if st is not None:
                            k = next(spell)
                            table[st] = STOPS[k % len(STOPS)] if k % 13 else OTHERS[k % 2]
                        impl = impl_visit(tree, ser, path, m, add_self, table)
                        case = dict(kind="visit", spec=spec, path=list(path), m=m, self=add_self, cb={str(k): list(v) for k, v in table.items()}, typed=typed)
                        reqs.append({"op": "visit", "t": tj, "path": list(path), "m": m, "self": add_self, "cb": model_cb(case["cb"])})
                        pend.append((case, impl, f"visit({m}, add_self={add_self}) at {list(path)} cb={case['cb']}"))
                        out.count(("v", typed, repr(spec), path, m, add_self, repr(sorted(table.items()))), nontriv)
                        for tag, _ in table.values():
                            out.dist["sig:" + tag] += 1
                        out.dist["visit:" + m] += 1
            if len(reqs) > 2000:
                flush()
        if size >= 4:
            out.sample(dict(tree=spec, example=pend[-1][0] if pend else None))
        flush()

    # corpus first
    for spec in CORPUS:
        do_tree(spec)
    # exhaustive small scope
    for n in range(0, n_max + 1):
        for shape in gen.forests(n):
            spec = gen.distinct_labeling(shape, alphabet)
            do_tree(spec, full_pairs=(n <= 4 or ctx.thorough))
    out.exhaustive = True
    out.extra["exhaustive_scope"] = f"all ordered forests with <= {n_max} nodes"
    # the same traversals on typed trees (TypedNode overrides iterator(); the kind plays no role in a traversal)
    for n in range(0, (5 if ctx.thorough else 4) + 1):
        for shape in gen.forests(n):
            # siblings of DIFFERENT kinds (a traversal is about the child lists, whatever the kinds are)
            kinds_ = itertools.cycle("abacb")
            do_tree([((lab, next(kinds_)), k_) for lab, k_ in _with_kinds(gen.distinct_labeling(shape, alphabet), kinds_)], full_pairs=False, typed=True)
            out.dist["typed_tree"] += 1
    # random larger trees
    n_rand = 150 if ctx.thorough else 25
    for _ in range(n_rand):
        n = ctx.rng.randrange(7, 30 if ctx.thorough else 16)
        shape = gen.random_shape(ctx.rng, n)
        spec = gen.label_forest(shape, itertools.cycle(alphabet))
        # labels need not be sibling-unique for plain adds -> make them unique per node
        spec = relabel_unique(spec)
        do_tree(spec, full_pairs=False)
        out.dist["random_tree"] += 1
    # trees with clones (several nodes per data_id): count != count_unique matters to Tree.iterator(UNORDERED/RANDOM_ORDER)
    for _ in range(60 if ctx.thorough else 12):
        spec = gen.random_spec(ctx.rng, ctx.rng.randrange(4, 12), alphabet, clone_rate=0.6)
        do_tree(spec, full_pairs=False)
        out.dist["clone_tree"] += 1
    return out


def _with_kinds(spec, kinds_):
    """(label, kids) -> ((label, kind), kids) below the top level; the top level is done by the caller"""
    return [(lab, [((l2, next(kinds_)), k2) for l2, k2 in _with_kinds(kids, kinds_)]) for lab, kids in spec]


def relabel_unique(spec):
    """labels 0..11 cycle; make siblings unique by using distinct explicit ids."""
    cnt = itertools.count(1)

    def go(s):
        return [({"a": lab if isinstance(lab, int) else lab["a"], "did": 1000 + next(cnt)}, go(k)) for lab, k in s]

    return go(spec)


CORPUS = [
    # clones: 'B' three times, 'A' twice (count 7, count_unique 4)
    [(0, [(1, []), (2, [(1, [])])]), (3, [(0, [(1, [])])])],
    [(0, [(1, [(2, [])]), (3, [])]), (4, [(5, [])])],
    [(0, [(1, []), (2, [(3, [(4, [])])])])],
]


def replay(ctx, rp):
    import core

    case = rp["case"]
    spec = tuplify(case["spec"])
    tree, ser, tj = setup_tree(ctx, spec, bool(case.get("typed")), refused=bool(case.get("refused")))
    out = core.Outcome()
    path = tuple(case["path"])
    if case["kind"] == "iter":
        impl = impl_iter(tree, ser, path, case["m"], case["self"], bool(case.get("inter")))
        resp = ctx.driver.ask({"op": "iter", "t": tj, "path": list(path), "m": case["m"], "self": case["self"]})
    else:
        table = {int(k): tuple(v) for k, v in case["cb"].items()}
        impl = impl_visit(tree, ser, path, case["m"], case["self"], table)
        resp = ctx.driver.ask({"op": "visit", "t": tj, "path": list(path), "m": case["m"], "self": case["self"], "cb": model_cb(case["cb"])})
    judge(out, case, impl, resp, "replay")
    return dict(tree=tree.format(repr="{node.data}"), implementation=impl, model=resp.get("model"), specification=resp.get("spec"),
                property_holds=not out.oracle_failures)


def tuplify(spec):
    return [((lab if not isinstance(lab, list) else tuple(lab)), tuplify(k)) for lab, k in spec]
