"""C12 — the native file format follows its documented layout, both ways."""
from __future__ import annotations

import io
import itertools
import json
import os
import pathlib
import shutil
import tempfile

import adapter
import core
import gen
import serial_h as S
from nutree import Tree
from nutree.typed_tree import TypedTree

LEVEL = "proof"
TRUSTED = [
    "json.dump/json.load are the identity on JSON values",
    "the independent encoder of the harness (written from docs/sphinx/ug_serialize.rst, sharing no code with nutree or the model)",
]
ASSUMPTIONS = ["ValidMaps as C05"]


# ---------------------------------------------------------------- writing side: layout oracle on the saved document

def check_layout(doc, tree, pool, ekm, evm, meta, mapper_fields):
    """returns a list of layout violations of `doc` (the parsed output of save) for `tree`"""
    bad = []
    if not isinstance(doc, dict) or set(doc) != {"meta", "nodes"}:
        return ["top level is not {meta, nodes}"]
    hdr = doc["meta"]
    import nutree

    if hdr.get("$generator") != f"nutree/{nutree.__version__}":
        bad.append(f"$generator = {hdr.get('$generator')!r}")
    if hdr.get("$format_version") != "1.0":
        bad.append(f"$format_version = {hdr.get('$format_version')!r}")
    if (("$key_map" in hdr) != bool(ekm)) or (ekm and hdr.get("$key_map") != ekm):
        bad.append(f"$key_map = {hdr.get('$key_map')!r}, in use {ekm!r}")
    if (("$value_map" in hdr) != bool(evm)) or (evm and hdr.get("$value_map") != evm):
        bad.append(f"$value_map = {hdr.get('$value_map')!r}, in use {evm!r}")
    for k, v in meta.items():
        if hdr.get(k) != v:
            bad.append(f"user meta {k} missing")
    nodes = list(tree)
    rows = doc["nodes"]
    if len(rows) != len(nodes):
        return bad + [f"{len(rows)} entries for {len(nodes)} nodes"]
    pos = {id(n): i + 1 for i, n in enumerate(nodes)}
    first = {}
    typed = isinstance(tree, TypedTree)
    for i, (n, row) in enumerate(zip(nodes, rows), 1):
        if not (isinstance(row, list) and len(row) == 2):
            bad.append(f"entry {i} is not a pair")
            continue
        pidx, payload = row
        want_p = 0 if n.parent is None else pos[id(n.parent)]
        if pidx != want_p or not (0 <= pidx < i):
            bad.append(f"entry {i}: parent index {pidx}, the parent's entry is {want_p}")
        key = (repr(n.data_id), getattr(n, "kind", None))
        by_id = [j for (d, k), j in first.items() if d == repr(n.data_id)]
        if key in first:
            if payload != first[key]:
                bad.append(f"entry {i}: repeated occurrence (same data_id, same kind) must be stored as {first[key]}, got {payload!r}")
            continue
        if isinstance(payload, int):
            bad.append(f"entry {i}: stored as reference {payload} but no earlier entry has the same data_id and kind")
            continue
        if not by_id:
            first[key] = i
        # expected long-form entry
        custom = n.data_id != hash(n.data)
        if isinstance(n.data, str) and not custom and not typed:
            want = n.data
        else:
            want = {}
            if isinstance(n.data, str):
                want["str"] = n.data
            if custom:
                want["data_id"] = n.data_id
            if typed:
                want["kind"] = n.kind
            want.update(mapper_fields.get(id(n), {}))
            short = {}
            for k, v in want.items():
                if k in evm:
                    v = evm[k].index(v)
                short[ekm.get(k, k)] = v
            want = short
        if payload != want:
            bad.append(f"entry {i}: {payload!r}, documented layout {want!r}")
    return bad


# ---------------------------------------------------------------- reading side: independent encoder

def encode(desc, typed, key_map=None, value_map=None, meta=None):
    """desc: nested [(fields-or-str, data_id|None, kind|None, children)] -> document"""
    nodes = []
    first = {}

    def walk(items, pidx):
        for payload, did, kind, kids in items:
            idx = len(nodes) + 1
            key = (json.dumps(payload, sort_keys=True), repr(did), kind)
            if key in first:
                nodes.append([pidx, first[key]])
            else:
                first[key] = idx
                if isinstance(payload, str) and did is None and not typed:
                    nodes.append([pidx, payload])
                else:
                    d = {"str": payload} if isinstance(payload, str) else dict(payload)
                    if did is not None:
                        d["data_id"] = did
                    if typed and kind is not None:
                        d["kind"] = kind
                    out = {}
                    for k, v in d.items():
                        if value_map and k in value_map:
                            v = value_map[k].index(v)
                        out[(key_map or {}).get(k, k)] = v
                    nodes.append([pidx, out])
            walk(kids, idx)

    walk(desc, 0)
    hdr = {"$generator": "nutree/9.9.9-independent", "$format_version": "1.0"}
    if key_map:
        hdr["$key_map"] = key_map
    if value_map:
        hdr["$value_map"] = value_map
    hdr.update(meta or {})
    return {"meta": hdr, "nodes": nodes}


def desc_shape(desc, pool, typed):
    out = []
    for payload, did, kind, kids in desc:
        if isinstance(payload, str):
            a = pool.attrs[pool.index_of(payload)]["obj"]
            d = pool.canon_did(did if did is not None else hash(payload))
        else:
            o = pool.objs[payload["o"]]
            a = pool.attrs[payload["o"]]["obj"]
            d = pool.canon_did(did if did is not None else hash(o))
        out.append([a, d, (kind or "child") if typed else None, desc_shape(kids, pool, typed)])
    return out


def random_desc(rng, pool, n, typed, objs):
    labels = S.STRS[:4] + (S.OBJ[:4] if objs else [])
    spec = S.random_label_spec(rng, n, labels, typed, explicit=0.3)
    m = S.Mappers(pool)

    def conv(s):
        out = []
        for lab, kids in s:
            o = pool.objs[lab["a"]]
            payload = o if isinstance(o, str) else {"o": pool.attrs[lab["a"]]["obj"], "type": S.flavour(o), "name": str(o)}
            out.append((payload, lab.get("did"), lab.get("k"), conv(kids)))
        return out

    return conv(spec)


GUIDE_1 = {"meta": {"$generator": "nutree/0.5.1", "$format_version": "1.0", "foo": "bar"},
           "nodes": [[0, "A"], [1, "a1"], [2, "a11"], [2, "a12"], [1, "a2"], [0, "B"], [6, 3], [6, "b1"], [8, "b11"]]}
GUIDE_1_SHAPE = [["A", [["a1", [["a11", []], ["a12", []]]], ["a2", []]]], ["B", [["a11", []], ["b1", [["b11", []]]]]]]
BAD_DOCS = [[], {"nodes": []}, {"meta": {"$generator": "nutree/1"}}, {"meta": {}, "nodes": []}, {"meta": {"$generator": "other/1.0"}, "nodes": []},
            "text", 5, {"meta": {"$format_version": "1.0"}, "nodes": [[0, "A"]]},
            # "meta" of another JSON type (the membership test / subscript on it may raise TypeError instead of RuntimeError)
            None, True, {"meta": None, "nodes": []}, {"meta": 5, "nodes": []}, {"meta": True, "nodes": [[0, "A"]]}, {"meta": [], "nodes": []},
            {"meta": ["$generator"], "nodes": []}, {"meta": ["nutree/1"], "nodes": []}, {"meta": "abc", "nodes": []},
            {"meta": "x$generator: nutree/1", "nodes": []}, {"meta": {"$generator": None}, "nodes": []}, {"meta": {"$generator": 5}, "nodes": []},
            {"meta": {"$generator": "nutree"}, "nodes": []}, {"meta": None}, {"nodes": None}]
# the header is accepted, "nodes" is not a list: what the first loop over it does
ODD_NODES = [None, 5, True, "", "ab", {}, {"ab": 1}, {"abc": 1}, {"ab": 1, "c": 2}]


def names(tree):
    def w(n):
        return [n.name, [w(c) for c in n.children]]

    return [w(c) for c in tree.children]


def run(ctx):
    tmpdir = tempfile.mkdtemp(prefix="nutree_verif_c12_")
    try:
        return run_in(ctx, tmpdir)
    finally:
        shutil.rmtree(tmpdir, ignore_errors=True)


def run_in(ctx, tmpdir):
    out = core.Outcome(
        rule="writing side: trees and options as C05 (rotating subset) - the parsed output of save() must satisfy the documented layout (header, pre-order, "
        "1-based parent index < own index, repeated occurrence with equal kind stored as the first occurrence's index and nothing else, keys/values "
        "shortened exactly as the header's maps say) and equal the model's document. reading side: documents produced by an independent encoder of the "
        "layout (random described trees, plain/typed, with/without maps), the user guide's literal example, and malformed headers are loaded by "
        "Tree.load/TypedTree.load and by the model; result must be the described tree resp. RuntimeError. non-trivial = >= 3 entries incl. a reference"
    )
    pool = ctx.pool
    rng = ctx.rng
    m = S.Mappers(pool)
    counter = itertools.count()
    tgt_rot = itertools.count()
    # ---- writing side
    n_trees = 600 if ctx.thorough else 120
    combos = [(k, v) for k in S.KEY_MAPS for v in S.VALUE_MAPS]
    corpus = [
        ("plain-str", [(0, [(6, [(2, [])])]), (1, [(6, [(2, [])]), (7, [])]), (6, [(2, [])])]),      # later clone occurrences that have children
        ("typed-str", [({"a": 0, "k": "a"}, [({"a": 6, "k": "b"}, [({"a": 2, "k": "a"}, [])])]), ({"a": 1, "k": "a"}, [({"a": 6, "k": "b"}, [({"a": 2, "k": "a"}, [])]), ({"a": 7, "k": "a"}, [({"a": 6, "k": "a"}, [])])])]),
    ]
    for k in range(n_trees + len(corpus)):
        cfg = ["plain-str", "plain-obj", "typed-str", "typed-obj"][k % 4]
        typed = cfg.startswith("typed")
        labels = S.STRS if cfg.endswith("str") else S.STRS[:3] + S.OBJ
        if k >= n_trees:
            cfg, spec = corpus[k - n_trees]
            typed = cfg.startswith("typed")
        else:
            spec = S.random_label_spec(rng, rng.randrange(3, 14), labels, typed)
        # every fifth tree of strings has a calc_data_id hook that re-keys plain strings ("H:" + data): such an id is a custom id
        hooked = cfg.endswith("str") and k % 5 == 4
        tree = build_write_tree(pool, spec, typed, hooked)
        for km_name, vm_name in (combos if ctx.thorough else [combos[(k + j * 4) % 9] for j in range(3)]):
            key_map, value_map = S.KEY_MAPS[km_name], S.VALUE_MAPS[vm_name]
            maps_before = (json.dumps(S.KEY_MAPS["custom"], sort_keys=True), json.dumps(S.VALUE_MAPS["custom"], sort_keys=True))
            # ONE caller-owned metadata dict for all saves (see props/c05.py): nothing of an earlier call may stick to it
            from props.c05 import SHARED_META

            SHARED_META.update({"foo": "bar", "n": next(counter)})
            meta = dict(SHARED_META)
            ekm, evm = S.effective_maps(tree, key_map, value_map if not isinstance(value_map, dict) else dict(value_map))
            fp = io.StringIO()
            kw = {}
            if not cfg.endswith("str"):
                # every other serialisation mapper returns a NEW dict (what the mapper returns is what gets written)
                kw["mapper"] = m.ser if next(tgt_rot) % 2 else (lambda n, d: dict(m.ser(n, dict(d)) or d))
            case = dict(side="write", cfg=cfg, spec=spec, key_map=km_name, value_map=vm_name, hook=hooked, fresh_dict_mapper=bool(kw) and kw["mapper"] is not m.ser)
            doc = None
            # target kind rotates: open stream, str path, pathlib.Path, compressed path (the layout is the same for all)
            target = ["stream", "path", "zip", "pathlib", "path"][next(tgt_rot) % 5]    # 5 targets against 3 / 9 option combinations: all pairs occur
            case["target"] = target
            out.dist["target:" + target] += 1
            try:
                if target == "stream":
                    tree.save(fp, meta=SHARED_META, key_map=key_map, value_map=value_map, **kw)
                    doc = json.loads(fp.getvalue())
                else:
                    from props.c05 import read_doc

                    fpath = os.path.join(tmpdir, f"w{next(counter)}.nutree")
                    tree.save(pathlib.Path(fpath) if target == "pathlib" else fpath, meta=SHARED_META, key_map=key_map, value_map=value_map,
                              **({"compression": True} if target == "zip" else {}), **kw)
                    doc = read_doc(fpath, True)
                    os.unlink(fpath)
            except Exception as e:  # noqa
                dirty = S.custom_maps_dirty()
                out.fail(case, f"save raised {e!r}" + (f" (the caller's custom maps, re-used for every save, had been written into by an earlier save(): {dirty})" if dirty else ""))
                S.reset_custom_maps()
                continue
            if (json.dumps(S.KEY_MAPS["custom"], sort_keys=True), json.dumps(S.VALUE_MAPS["custom"], sort_keys=True)) != maps_before:
                out.dist["save_wrote_into_the_callers_map"] += 1
            if SHARED_META != meta:
                out.fail(case, f"save() changed the caller's metadata dict: {SHARED_META} (was {meta})")
                SHARED_META.clear()
            mf = {}
            for n in tree:
                if not isinstance(n.data, str) and kw:
                    i = pool.index_of(n.data)
                    mf[id(n)] = {"o": pool.attrs[i]["obj"], "type": S.flavour(n.data), "name": str(n.data)}
            bad = check_layout(doc, tree, pool, ekm, evm, meta, mf)
            out.count((repr(spec), cfg, km_name, vm_name), tree.count >= 3 and any(isinstance(r[1], int) for r in doc["nodes"]))
            out.dist["write:" + cfg + ("-hook" if hooked else "")] += 1
            if bad:
                out.fail(case, f"saved document violates the layout: {bad[0]} (doc {json.dumps(doc)[:300]})", doc=doc)
                continue
            ser = adapter.Serials()
            tj = adapter.tree_json(tree, ser, pool)
            md = ctx.driver.ask({"op": "ser.save", "t": tj, "typed": typed, "key_map": ekm, "value_map": evm, "meta": meta,
                                 "ser": (m.ser_table(tree, ser) if kw else {})})
            if md.get("ok") != doc:
                out.disagree(case, f"document differs from the model's: {json.dumps(doc)[:200]} vs {json.dumps(md.get('ok'))[:200]}")
        if k < 2 and doc is not None:
            out.sample(dict(side="write", tree=spec, doc=doc))
    # ---- reading side
    n_docs = 3000 if ctx.thorough else 400
    for k in range(n_docs):
        typed = k % 3 == 2
        objs = k % 2 == 1
        desc = random_desc(rng, pool, rng.randrange(1, 12), typed, objs)
        # (independent rotations: with `k % 3` for both, typed documents always had the third key map)
        km = [None, {"data_id": "i", "str": "s", "kind": "k"}, {"data_id": "i", "str": "s", "kind": "k", "type": "t", "name": "n", "o": "x"}, {"data_id": "i"}][(k // 6) % 4]
        vm = None
        if (k // 2) % 4 == 3 or (k // 24) % 2 == 1:
            vm = {"type": ["int", "tuple", "Item", "EqObj"]}
            if typed:
                vm["kind"] = ["a", "b", "child", "c", "d"]
        doc = encode(desc, typed, km, vm, {"who": "independent"})
        if km is None and objs:
            # a document WITHOUT a key map whose object entries have application fields called like the short keys of the
            # default maps (i, s, k): nothing may be renamed or re-interpreted on load
            for j_, row in enumerate(doc["nodes"]):
                if isinstance(row[1], dict) and "o" in row[1]:
                    row[1].update({"i": 7000 + j_, "s": "app-field", "k": j_})
        cls = TypedTree if typed else Tree
        case = dict(side="read", typed=typed, doc=doc, want=json.loads(json.dumps(desc_shape(desc, pool, typed))), via_path=k % 5 in (2, 4))
        from props.c05 import SHARED_FILE_META

        # every other load hands over ONE caller-owned `file_meta` dict that still holds the header of the previous document
        fm = SHARED_FILE_META if k % 2 else {}
        try:
            from props.c05 import consuming

            # every other reader mapper EMPTIES the entry dict it was given (the loader must have read what it needs before)
            rd = (consuming(m.deser) if k % 4 >= 2 else m.deser) if objs else None
            if k % 5 in (2, 4):
                # the document is a FILE that the application names by its path (str / pathlib.Path), not an open stream
                fpath_ = os.path.join(tmpdir, f"r{k}.nutree")
                with open(fpath_, "w", encoding="utf8") as fp_:
                    json.dump(doc, fp_)
                t2 = cls.load(fpath_ if k % 5 == 2 else pathlib.Path(fpath_), mapper=rd, file_meta=fm)
                os.unlink(fpath_)
                out.dist["read_target:path"] += 1
            else:
                t2 = cls.load(io.StringIO(json.dumps(doc)), mapper=rd, file_meta=fm)
            res = S.tree_shape(t2, pool)
        except Exception as e:  # noqa
            res = "err:" + adapter.err_class(e)
        want = desc_shape(desc, pool, typed)
        out.count(json.dumps(doc, sort_keys=True), len(doc["nodes"]) >= 3 and any(isinstance(r[1], int) for r in doc["nodes"]))
        out.dist["read:" + ("typed" if typed else "plain") + ("-obj" if objs else "-str")] += 1
        if res != want:
            out.fail(case, f"document written to the documented layout loads as {res}, it describes {want}; doc {json.dumps(doc)[:300]}", impl=res, spec=want)
        elif (fm != doc["meta"]) if not (k % 2) else any(fm.get(k_) != v_ for k_, v_ in doc["meta"].items()):
            out.fail(case, f"file_meta {fm} != header {doc['meta']}")
        ml = ctx.driver.ask({"op": "ser.load", "doc": doc, "typed": typed, "deser": ("o" if objs else ("str" if typed else "none"))})
        mres = S.model_shape(ml["ok"]) if "ok" in ml else "err:" + ml.get("err", "?")
        if mres != res:
            out.disagree(case, f"model loads {mres}, implementation {res}")
        if k < 2:
            out.sample(dict(side="read", doc=doc))
    empty_documents(out)
    # user guide literal
    try:
        t = Tree.load(io.StringIO(json.dumps(GUIDE_1)))
        got = names(t)
    except Exception as e:  # noqa
        got = "err:" + adapter.err_class(e) + ":" + type(e).__name__
    if got != GUIDE_1_SHAPE:
        out.fail(dict(side="guide", doc=GUIDE_1), f"the user guide's example document loads as {got}")
    out.evaluations += 1
    # malformed headers: rejected (RuntimeError, or the TypeError that the test on a non-object "meta" raises); model: same class
    for bad in BAD_DOCS:
        out.evaluations += 1
        out.dist["bad_header"] += 1
        rs = []
        for cls in (Tree, TypedTree):
            try:
                cls.load(io.StringIO(json.dumps(bad)))
                r = "ok"
            except Exception as e:  # noqa
                r = adapter.err_class(e)
            rs.append(r)
            if r == "ok":
                out.fail(dict(side="bad", doc=bad, cls=cls.__name__), f"{cls.__name__}.load of a document without nutree header was accepted; doc {bad!r}")
        ml = ctx.driver.ask({"op": "ser.load", "doc": bad, "typed": False, "deser": "none"})
        if "ok" not in rs and ml.get("err") != rs[0]:
            out.disagree(dict(side="bad", doc=bad), f"document without header: implementation raises {rs}, model: {ml}")
    for nd in ODD_NODES:
        doc = {"meta": {"$generator": "nutree/1.0"}, "nodes": nd}
        out.evaluations += 1
        out.dist["odd_nodes"] += 1
        for typed, cls in ((False, Tree), (True, TypedTree)):
            try:
                t = cls.load(io.StringIO(json.dumps(doc)))
                r = "ok" if t.count == 0 else f"ok:{t.count}"
            except Exception as e:  # noqa
                r = adapter.err_class(e)
            ml = ctx.driver.ask({"op": "ser.load", "doc": doc, "typed": typed, "deser": "none"})
            mr = ("ok" if not ml["ok"] else f"ok:{len(ml['ok'])}") if "ok" in ml else ml.get("err")
            if r != mr:
                out.disagree(dict(side="odd", doc=doc, cls=cls.__name__), f'"nodes" = {nd!r}: implementation {r}, model {mr}')
    return out


def build_write_tree(pool, spec, typed, hooked):
    t0 = None
    if hooked:
        from props.c05 import new_tree

        t0, _ = new_tree("typed-hook-str" if typed else "plain-hook-str", pool)
    return adapter.build(spec, pool, typed=typed, tree=t0)


def empty_documents(out):
    """a document with an empty node list is a document of the layout: it describes the empty tree (also the file of a new tree)"""
    for typed, cls in ((False, Tree), (True, TypedTree)):
        for how in ("independent", "saved"):
            if how == "independent":
                doc = encode([], typed, None, None, {"who": "independent"})
            else:
                fp = io.StringIO()
                cls("empty").save(fp)
                doc = json.loads(fp.getvalue())
            case = dict(side="empty", typed=typed, doc=doc, how=how)
            out.evaluations += 1
            out.dist["empty_document"] += 1
            fm = {}
            try:
                t2 = cls.load(io.StringIO(json.dumps(doc)), file_meta=fm)
                res = [t2.count, type(t2).__name__]
            except Exception as e:  # noqa
                res = "err:" + adapter.err_class(e) + ":" + type(e).__name__
            if res != [0, cls.__name__]:
                out.fail(case, f"a document with an empty node list ({how}) loads as {res}, it describes the empty {cls.__name__}; doc {json.dumps(doc)[:200]}")
            elif fm != doc["meta"]:
                out.fail(case, f"file_meta {fm} != header {doc['meta']}")


def replay(ctx, rp):
    case = rp["case"]
    pool = ctx.pool
    m = S.Mappers(pool)
    out = core.Outcome()
    side = case.get("side")
    if side == "empty":
        empty_documents(out)
    elif side == "read":
        doc, typed = case["doc"], case["typed"]
        objs = any(isinstance(r[1], dict) and ("o" in r[1] or "x" in r[1]) for r in doc["nodes"])
        try:
            if case.get("via_path"):
                fd_, fpath_ = tempfile.mkstemp(prefix="nutree_verif_c12_", suffix=".nutree")
                os.close(fd_)
                try:
                    with open(fpath_, "w", encoding="utf8") as fp_:
                        json.dump(doc, fp_)
                    t2 = (TypedTree if typed else Tree).load(fpath_, mapper=m.deser if objs else None)
                finally:
                    os.unlink(fpath_)
            else:
                t2 = (TypedTree if typed else Tree).load(io.StringIO(json.dumps(doc)), mapper=m.deser if objs else None)
            res = S.tree_shape(t2, pool)
        except Exception as e:  # noqa
            res = "err:" + adapter.err_class(e)
        if "want" in case and json.loads(json.dumps(res)) != case["want"]:
            out.fail(case, f"document loads as {res}, it describes {case['want']}")
    elif side == "write":
        from props.c10 import tuplify_d

        typed = case["cfg"].startswith("typed")
        tree = build_write_tree(pool, tuplify_d(case["spec"]), typed, bool(case.get("hook")))
        key_map, value_map = S.KEY_MAPS[case["key_map"]], S.VALUE_MAPS[case["value_map"]]
        ekm, evm = S.effective_maps(tree, key_map, value_map if not isinstance(value_map, dict) else dict(value_map))
        kw = {}
        if not case["cfg"].endswith("str"):
            kw["mapper"] = (lambda n, d: dict(m.ser(n, dict(d)) or d)) if case.get("fresh_dict_mapper") else m.ser
        meta = {"foo": "bar"}
        fp = io.StringIO()
        try:
            tree.save(fp, meta=dict(meta), key_map=key_map, value_map=value_map, **kw)
            doc = json.loads(fp.getvalue())
            mf = {}
            for n in tree:
                if not isinstance(n.data, str) and kw:
                    i = pool.index_of(n.data)
                    mf[id(n)] = {"o": pool.attrs[i]["obj"], "type": S.flavour(n.data), "name": str(n.data)}
            bad = check_layout(doc, tree, pool, ekm, evm, meta, mf)
            if bad:
                out.fail(case, f"saved document violates the layout: {bad[0]}")
        except Exception as e:  # noqa
            out.fail(case, f"save raised {e!r}")
        S.reset_custom_maps()
    elif side == "bad":
        for cls in (Tree, TypedTree):
            try:
                cls.load(io.StringIO(json.dumps(case["doc"])))
                out.fail(case, f"{cls.__name__}.load of a document without nutree header was accepted")
            except Exception:  # noqa
                pass
    elif side == "guide":
        try:
            got = names(Tree.load(io.StringIO(json.dumps(GUIDE_1))))
        except Exception as e:  # noqa
            got = "err:" + adapter.err_class(e) + ":" + type(e).__name__
        if got != GUIDE_1_SHAPE:
            out.fail(case, f"the user guide's example document loads as {got}")
    else:
        return dict(note="a disagreement between model and implementation (no oracle failure): re-run ./check C12", case=case, property_holds=True)
    return dict(failures=[f["what"] for f in out.oracle_failures[:5]], property_holds=not out.oracle_failures)
