"""C14 — the nested list-of-dicts form round-trips and mirrors the tree."""
from __future__ import annotations

import itertools
import json

import adapter
import core
import gen
import serial_h as S
from nutree import Tree

LEVEL = "proof"
TRUSTED = ["json.dumps/json.loads are the identity on the structure (ids are ints or strs)", "user mappers are parameters (a pair of inverse mappers over value-equality objects)"]
ASSUMPTIONS = ["mapper pairs that rename keys (style renamed-id) are checked by the property's oracle on the implementation only; the model's mappers add fields"]


def mirror(node, pool, mapper_on):
    """the documented dict of a node, built independently"""
    d = {"data": str(node.data)}
    if node.data_id != hash(node.data):
        d["data_id"] = node.data_id
    if mapper_on and not isinstance(node.data, str):
        i = pool.index_of(node.data)
        d.update({"o": pool.attrs[i]["obj"], "type": S.flavour(node.data), "name": str(node.data)})
    if node.children:
        d["children"] = [mirror(c, pool, mapper_on) for c in node.children]
    return d


def rename_id(d):
    d = dict(d)
    if "data_id" in d:
        d["guid"] = d.pop("data_id")
    if "children" in d:
        d["children"] = [rename_id(c) for c in d["children"]]
    return d


_LATE = 0


def build_shared_late(spec, pool):
    """explicit ids are unique at first ("tmp-k") and are then changed, node by node, to the (shared) ids of the description:
    the tree is the one described, reached by set_data instead of add(data, data_id=)"""
    cnt = itertools.count()
    want = []

    def rel(sp):
        res = []
        for lab, kids in sp:
            if isinstance(lab, dict) and "did" in lab:
                want.append(lab["did"])
                lab = dict(lab, did=f"tmp-{next(cnt)}")
            else:
                want.append(None)
            res.append((lab, rel(kids)))
        return res

    tree = adapter.build(rel(spec), pool)
    for n, d in zip(list(tree), want):
        if d is not None:
            n.set_data(n.data, data_id=d, with_clones=False)
    return tree


def one_tree(ctx, out, spec, objs, via_json, style="inplace", shared_late=False):
    """style of the mapper pair: `inplace` (edits the dict it is given, returns it or None), `fresh` (returns a NEW dict),
    `renamed-id` (fresh, and stores the data_id under its own key `guid`; the inverse mapper writes item['data_id'] back —
    "mapper may add item['data_id']", Node.from_dict)"""
    pool = ctx.pool
    m = S.Mappers(pool)
    tree = build_shared_late(spec, pool) if shared_late else adapter.build(spec, pool)
    case = dict(spec=spec, objs=objs, via_json=via_json, style=style, shared_late=shared_late)
    global _LATE
    _LATE += 1
    if _LATE % 3 == 0:
        # custom ids that are given LATER (set_data(None, data_id=...) on a node that was created with its default id): they
        # are custom ids like those passed to add()
        for k_, n_ in enumerate(list(tree)):
            if k_ % 2 == 0 and n_.data_id == tree.calc_data_id(n_.data) and not n_.is_clone():
                try:
                    n_.set_data(None, data_id=f"late-{_LATE}-{k_}")
                except Exception:  # noqa
                    pass
        case["late_ids"] = _LATE
    before = S.tree_shape(tree, pool)

    def ser_fresh(node, data):
        d = {k: data[k] for k in ("data", "data_id") if k in data}   # built from the documented keys only
        r = m.ser(node, d) if objs else None
        d = dict(r if r is not None else d)
        if style == "renamed-id" and "data_id" in d:
            d["guid"] = d.pop("data_id")
        return d

    def deser_item(parent, item):
        if "guid" in item:
            item["data_id"] = item["guid"]
        return m.deser(parent, item)

    use_mapper = objs or style != "inplace"
    kw = {"mapper": (m.ser if style == "inplace" else ser_fresh)} if use_mapper else {}
    try:
        dl = tree.to_dict_list(**kw)
    except Exception as e:  # noqa
        out.fail(case, f"to_dict_list() raised {e!r} for tree {spec}")
        return
    want = [mirror(c, pool, objs) for c in tree.children]
    if style == "renamed-id":
        want = [rename_id(c) for c in want]
    try:
        dl_text = json.dumps(dl)
    except Exception as e:  # noqa
        out.fail(case, f"to_dict_list() returns a structure that cannot be dumped as JSON ({type(e).__name__}: {e}); tree {spec}")
        return
    if dl != want:
        out.fail(case, f"to_dict_list() = {dl_text[:300]}, documented mirror {json.dumps(want)[:300]}", impl=dl, spec=want)
    if S.tree_shape(tree, pool) != before:
        out.fail(case, "to_dict_list() changed the tree")
    ser = adapter.Serials()
    tj = adapter.tree_json(tree, ser, pool)
    md = ctx.driver.ask({"op": "ser.todict", "t": tj, "ser": (m.ser_table(tree, ser) if objs else {})})
    if style != "renamed-id" and md.get("ok") != dl:
        out.disagree(case, f"model to_dict_list differs: {json.dumps(md.get('ok'))[:300]} vs {json.dumps(dl)[:300]}")
    obj = json.loads(json.dumps(dl)) if via_json else dl
    parents = []

    def watch(fn):
        def mapper(parent, item):
            parents.append(parent)     # the node below which this item is about to be created
            return fn(parent, item)

        return mapper

    try:
        t2 = Tree.from_dict(obj, **({"mapper": watch(m.deser if style == "inplace" else deser_item)} if use_mapper else {}))
        after = S.tree_shape(t2, pool)
        groups = S.clone_groups(t2)
        if use_mapper:
            made = list(t2)
            if len(parents) != len(made):
                out.fail(case, f"from_dict() called the mapper {len(parents)} times for {len(made)} nodes")
            else:
                for k_, (p_, n_) in enumerate(zip(parents, made)):
                    if p_ is not (n_.parent if n_.parent is not None else t2.system_root):
                        out.fail(case, f"from_dict(): the mapper call for node #{k_} ({n_!r}) got parent {p_!r}, the node was created below {n_.parent!r}")
                        break
    except Exception as e:  # noqa
        after = "err:" + adapter.err_class(e) + ":" + type(e).__name__
        groups = None
    if after != before:
        out.fail(case, f"from_dict(to_dict_list(tree)) = {after}, tree is {before}", impl=after, spec=before)
    elif groups != S.clone_groups(tree):
        out.fail(case, f"clone groups differ: {groups} vs {S.clone_groups(tree)}")
    if style == "renamed-id":
        return    # the model's mappers cannot rename keys: oracle only
    ml = ctx.driver.ask({"op": "ser.fromdict", "doc": obj, "deser": ("o" if use_mapper else "none")})
    mres = S.model_shape(ml["ok"]) if "ok" in ml else "err:" + ml.get("err", "?")
    if isinstance(after, list) and mres != after:
        out.disagree(case, f"model from_dict {mres} vs implementation {after}")


def run(ctx):
    out = core.Outcome(
        rule="every ordered forest with <= N nodes (distinct labels) + random forests with clones and explicit ids (int and str), string data without mapper "
        "and value-equality objects with a pair of inverse mappers, directly and through json.dumps/loads; emptied trees (clear / remove of the last node). "
        "Oracles on the implementation: to_dict_list() == independently built mirror; from_dict(to_dict_list(t)) has the same shape, order, data, ids, clone groups. "
        "non-trivial = >= 3 nodes; distinct = (tree, mapper, json)"
    )
    pool = ctx.pool
    rng = ctx.rng
    n_ex = 6 if ctx.thorough else 5
    for n in range(0, n_ex + 1):
        for shape in gen.forests(n):
            spec = gen.distinct_labeling(shape, S.STRS)
            one_tree(ctx, out, spec, False, n % 2 == 0)
            out.count((repr(spec), False), n >= 3)
    for k in range(4000 if ctx.thorough else 500):
        objs = k % 2 == 1
        labels = S.STRS[:4] + (S.OBJ if objs else [])
        spec = S.random_label_spec(rng, rng.randrange(2, 14), labels, False, explicit=0.3)
        style = ("inplace", "fresh", "renamed-id", "inplace")[(k // 2) % 4]
        one_tree(ctx, out, spec, objs, k % 3 != 0, style)
        out.count((repr(spec), objs, k % 3 != 0, style), gen.spec_size(spec) >= 3)
        out.dist["objs" if objs else "strs"] += 1
        out.dist["mapper_style:" + style] += 1
        if k < 3:
            out.sample(dict(tree=spec, objs=objs))
    # distinct sibling objects that have the SAME str() (and default ids): only the mapper can tell them apart
    for k, spec in enumerate([[(27, []), (33, [])], [(0, [(27, [(33, [])]), (33, [])]), (27, [])], [(33, [(27, []), (28, [])]), (27, [(33, [])])]]):
        for style in ("inplace", "fresh"):
            one_tree(ctx, out, spec, True, k % 2 == 0, style)
            out.count((repr(spec), True, style), True)
            out.dist["same_str_siblings"] += 1
    # ONE explicit data_id on nodes that hold DIFFERENT data objects (below different parents): the dict form carries every
    # node's own data, so - unlike the native file format, which stores such occurrences as references - it reproduces each
    for k, spec in enumerate([
        [({"a": 0, "did": "X"}, [({"a": 1, "did": "Y"}, [])]), ({"a": 3, "did": "W"}, [({"a": 2, "did": "X"}, [])])],
        [({"a": 0, "did": 77}, [({"a": 1, "did": 77}, [({"a": 2, "did": 77}, [])])]), ({"a": 3, "did": 5}, [({"a": 0, "did": 77}, [])])],
        [({"a": 12, "did": "X"}, [({"a": 0, "did": "Y"}, [])]), ({"a": 0, "did": "Z"}, [({"a": 18, "did": "X"}, []), ({"a": 13, "did": "Y"}, [])])],
        [(0, [({"a": 1, "did": "same"}, [])]), (2, [({"a": 3, "did": "same"}, [])]), (4, [({"a": 1, "did": "same"}, [])])],
    ]):
        objs = k == 2
        for via_json in (False, True):
            for style in ("inplace", "fresh"):
                for late in (False, True):
                    one_tree(ctx, out, spec, objs, via_json, style, shared_late=late)
                    out.count((repr(spec), objs, via_json, style, late), True)
                    out.dist["one_id_several_data_objects"] += 1
    emptied_trees(out)
    return out


def emptied_trees(out, only=None):
    for how in ("clear", "remove"):
        if only and how != only:
            continue
        t = Tree("e")
        a = t.add("A")
        if how == "clear":
            t.clear()
        else:
            a.remove()
        out.evaluations += 1
        out.dist["emptied:" + how] += 1
        try:
            r = t.to_dict_list()
        except Exception as e:  # noqa
            r = "err:" + type(e).__name__
        if r != []:
            out.fail(dict(kind="emptied", how=how), f"to_dict_list() of a tree emptied by {how} = {r!r}, expected []")


def replay(ctx, rp):
    from props.c10 import tuplify_d

    case = rp["case"]
    out = core.Outcome()
    if case.get("kind") == "emptied":
        emptied_trees(out, case["how"])
        return dict(note="tree emptied by " + case["how"], failures=[f["what"] for f in out.oracle_failures], property_holds=not out.oracle_failures)
    one_tree(ctx, out, tuplify_d(case["spec"]), case["objs"], case["via_json"], case.get("style", "inplace"), shared_late=bool(case.get("shared_late")))
    return dict(failures=[f["what"] for f in out.oracle_failures[:4]], property_holds=not out.oracle_failures)
