import Driver.Codec
import Nutree.Model.World
import Nutree.Spec.WF
open Lean Nutree
namespace Driver
open Nutree.Flt

def errJson (e : Err) : Json := Json.mkObj [("err", .str e.toString)]

def getTree (st : St) (j : Json) (k : String := "t") : E (Nat × Tree) := do
  let i ← (← field j k).getNat?
  match st.w.trees[i]? with
  | some t => return (i, t)
  | none => throw s!"no tree {i}"

def nodeAt (t : Tree) (j : Json) (k : String) : E T := do
  let path ← natList (← field j k)
  match t.root.sub path with
  | some n => return n
  | none => throw s!"bad path {k}"

def beforeOfJson (t : Tree) : Json → E Before
  | .null => .ok .none
  | .bool true => .ok .bTrue
  | .bool false => .ok .bFalse
  | .num n => .ok (.idx n.mantissa)
  | j => do
    let path ← natList (← field j "path")
    let foreign ← (fieldD j "foreign" (.bool false)).getBool?
    if foreign then return .node 999999999
    match t.root.sub path with
    | some n => return .node n.id
    | none => throw "before path"

def didsJson (l : List (DataId × List NodeId)) : Json :=
  .arr (l.map fun (d, ns) => Json.arr #[didToJson d, natsJson ns]).toArray

def treeObs (t : Tree) : Json := Json.mkObj [
  ("tree", forestToJson t.root.kids), ("byId", natsJson t.byId), ("byData", didsJson t.byData),
  ("typed", .bool t.typed), ("wf", .bool (wfB t))]

def worldObs (st : St) : Json := .arr (st.w.trees.map treeObs).toArray

def resJson : Option Err → Json
  | none => .str "ok"
  | some e => .str e.toString

def reply (st : St) (r : Option Err) (extra : List (String × Json) := []) : St × Json :=
  (st, Json.mkObj ([("res", resJson r), ("obs", worldObs st)] ++ extra))

/-- run one model operation. -/
def exec (st : St) (op : Op) (extra : List (String × Json) := []) : St × Json :=
  let (w', r) := st.w.step op
  reply { st with w := w' } r extra

def optDidJ : Json → E (Option DataId)
  | .null => .ok none
  | j => do return some (← didOfJson j)

def hookOfJson : Json → E (Option (List (Nat × Option DataId)))
  | .null => .ok none
  | j => do
    let l ← (← j.getArr?).toList.mapM fun e => do
      let a ← e.getArr?
      let o ← a[0]!.getNat?
      let d ← optDidJ a[1]!
      return (o, d)
    return some l

def optBoolJ : Json → E (Option Bool)
  | .null => .ok none
  | j => do return some (← j.getBool?)

def keyOfJsonW : Json → E KeyFn
  | .str "name" => .ok (fun t => some t.name)
  | j => do
    let obj ← j.getObj?
    let tbl ← obj.toList.mapM fun (k, v) => do
      let some id := k.toNat? | throw "key table"
      match v with
      | .null => return (id, none)
      | .str s => return (id, some s)
      | _ => throw "key value"
    return fun t => match tbl.lookup t.id with
      | some r => r
      | none => some ""

def rawPOfString : String → E RawP
  | "retTrue" => .ok .retTrue | "retFalse" => .ok .retFalse | "retNone" => .ok .retNone
  | "retSkipInst" => .ok .retSkipInst | "retSkipSelfInst" => .ok .retSkipSelfInst
  | "retSelectInst" => .ok .retSelectInst | "retStopInst" => .ok .retStopInst
  | "retSkipCls" => .ok .retSkipCls | "retSelectCls" => .ok .retSelectCls | "retStopCls" => .ok .retStopCls
  | "raiseSkip" => .ok .raiseSkip | "raiseSkipSelf" => .ok .raiseSkipSelf | "raiseSelect" => .ok .raiseSelect
  | "raiseStop" => .ok .raiseStop | "raiseStopIter" => .ok .raiseStopIter
  | "retOther" => .ok .retOther | "raiseOther" => .ok .raiseOther
  | s => .error s!"rawP {s}"

/-- verdict table `{ "<node id>": tag }`, default `retFalse`. -/
def verdictOfJson (j : Json) : E (T → Verdict) := do
  let obj ← j.getObj?
  let tbl ← obj.toList.mapM fun (k, v) => do
    let some id := k.toNat? | throw "verdict key"
    return (id, callPredicate (← rawPOfString (← v.getStr?)))
  return fun t => (tbl.lookup t.id).getD .reject

def optAtomJ (st : St) : Json → E (Option Atom)
  | .null => .ok none
  | x => do
    let ai ← x.getNat?
    let some a := st.pool[ai]? | throw "atom"
    return some a

/-- `"via"` of `w.add`: `none` = the general `add_child` / `add`. -/
def viaOfJson : Json → E (Option Via)
  | .null | .str "add" | .str "add_child" => .ok none
  | .str "append_child" => .ok (some .appendChild)
  | .str "prepend_child" => .ok (some .prependChild)
  | .str "prepend_sibling" => .ok (some .prependSibling)
  | .str "append_sibling" => .ok (some .appendSibling)
  | j => .error s!"via {j.compress}"

/-- the call goes through the `Tree` API (`tree.clear()`, `tree.sort()`): the path is empty and
`"tree_api"` is not false. -/
def isTreeApi (j : Json) (k : String) : E Bool := do
  let path ← natList (← field j k)
  let api ← (fieldD j "tree_api" (.bool true)).getBool?
  return path.isEmpty && api

/-
  Wire operations whose meaning is resolved by the MODEL (`World.step`), not here:
  * `w.add` with `"via"`: `"append_child"` / `"prepend_child"` are called on the node at path `"p"`,
    `"prepend_sibling"` / `"append_sibling"` on the node at path `"ref"` (`"p"` and `"before"` are then
    ignored); → `Op.addVia`.  `"kind"` is the `kind=` the caller passes (ignored by the sibling forms).
  * `w.del` (new): `{"op": "w.del", "t": i, "a": <pool index | null>, "did": <data_id | null>}` =
    `del tree[key]`; `"a"` = the key as a pool data object, `"did"` = the key as an int/str data_id
    (hash values canonicalised like every data_id on the wire); both null = the key is a `Node`; → `Op.delItem`.
  * `w.meta` with `"kind"` `"set"` (`"k"`, `"v"` = JSON text), `"clear"` (`"k"` or null), `"update"`
    (`"vals"`, `"replace"`); → `Op.metaSet` / `Op.metaClear` / `Op.metaUpdate`.
  * `w.removechildren` / `w.sort` with an empty path `"n"` and `"tree_api"` not false are `Tree.clear()` /
    `Tree.sort()`; → `Op.clear` / `Op.sortTree` (`"deep"` absent or null = the default of `Tree.sort`).
-/
def handleWorld (st : St) (op : String) (j : Json) : Option (E (St × Json)) :=
  match op with
  | "w.reset" => some (pure ({ st with w := {} }, Json.mkObj [("res", .str "ok")]))
  | "w.new" => some do
    let typed ← (fieldD j "typed" (.bool false)).getBool?
    let hook ← hookOfJson (fieldD j "hook" .null)
    let (st', r) := exec st (.newTree typed hook)
    return (st', r.setObjVal! "tree" (.num (JsonNumber.fromNat st.w.trees.length)))
  | "w.obs" => some (pure (reply st none))
  | "w.add" => some do
    let (i, t) ← getTree st j
    let p ← nodeAt t j "p"
    let ai ← (← field j "a").getNat?
    let some a := st.pool[ai]? | throw "atom"
    let did ← optDidJ (fieldD j "did" .null)
    let kind ← optStr (fieldD j "kind" .null)
    match ← viaOfJson (fieldD j "via" .null) with
    | none =>
      let before ← beforeOfJson t (fieldD j "before" .null)
      return exec st (.add i p.id a before did kind)
    | some via =>
      let ref ← if via == .prependSibling || via == .appendSibling then nodeAt t j "ref" else pure p
      return exec st (.addVia i ref.id a via did kind)
  | "w.addnode" => some do
    let (i, t) ← getTree st j
    let p ← nodeAt t j "p"
    let (si, s) ← getTree st j "st"
    let src ← nodeAt s j "sp"
    let before ← beforeOfJson t (fieldD j "before" .null)
    let deep ← optBoolJ (fieldD j "deep" .null)
    let did ← optDidJ (fieldD j "did" .null)
    let kind ← optStr (fieldD j "kind" .null)
    return exec st (.addNode i p.id si src.id before deep did kind)
  | "w.addtree" => some do
    let (i, t) ← getTree st j
    let p ← nodeAt t j "p"
    let (si, _) ← getTree st j "st"
    let before ← beforeOfJson t (fieldD j "before" .null)
    let deep ← optBoolJ (fieldD j "deep" .null)
    return exec st (.addTree i p.id si before deep)
  | "w.copykids" => some do
    let (i, t) ← getTree st j
    let p ← nodeAt t j "p"
    let (si, s) ← getTree st j "st"
    let src ← nodeAt s j "sp"
    let deep ← (fieldD j "deep" (.bool false)).getBool?
    return exec st (.copyKids i p.id si src.id deep)
  | "w.copy" => some do
    let (si, _) ← getTree st j "st"
    return exec st (.copyAll si)
  | "w.nodecopy" => some do
    let (si, s) ← getTree st j "st"
    let src ← nodeAt s j "sp"
    let addSelf ← (fieldD j "self" (.bool true)).getBool?
    return exec st (.copyBranch si src.id addSelf)
  | "w.move" => some do
    let (i, t) ← getTree st j
    let n ← nodeAt t j "n"
    let cross ← (fieldD j "cross" (.bool false)).getBool?
    if cross then return exec st (.moveCross i n.id)
    let to ← nodeAt t j "to"
    let before ← beforeOfJson t (fieldD j "before" .null)
    return exec st (.move i n.id to.id before)
  | "w.remove" => some do
    let (i, t) ← getTree st j
    let n ← nodeAt t j "n"
    let keep ← (fieldD j "keep" (.bool false)).getBool?
    let clones ← (fieldD j "clones" (.bool false)).getBool?
    return exec st (.remove i n.id keep clones)
  | "w.removechildren" => some do
    let (i, t) ← getTree st j
    let n ← nodeAt t j "n"
    if ← isTreeApi j "n" then return exec st (.clear i)
    return exec st (.removeChildren i n.id)
  | "w.sort" => some do
    let (i, t) ← getTree st j
    let n ← nodeAt t j "n"
    let key ← keyOfJsonW (fieldD j "key" (.str "name"))
    let rev ← (fieldD j "reverse" (.bool false)).getBool?
    if ← isTreeApi j "n" then
      return exec st (.sortTree i key rev (← optBoolJ (fieldD j "deep" .null)))
    let deep ← (fieldD j "deep" (.bool false)).getBool?
    return exec st (.sort i n.id key rev deep)
  | "w.setdata" => some do
    let (i, t) ← getTree st j
    let n ← nodeAt t j "n"
    let a ← optAtomJ st (fieldD j "a" .null)
    let did ← optDidJ (fieldD j "did" .null)
    let wc ← optBoolJ (fieldD j "clones" .null)
    let isRename := (fieldD j "via" .null) == Json.str "rename"
    return exec st (.setData i n.id a did wc isRename)
  | "w.meta" => some do
    let (i, t) ← getTree st j
    let n ← nodeAt t j "n"
    let kind ← (← field j "kind").getStr?
    match kind with
    | "set" => return exec st (.metaSet i n.id (← (← field j "k").getStr?) (← (← field j "v").getStr?))
    | "clear" => return exec st (.metaClear i n.id (← optStr (fieldD j "k" .null)))
    | "update" =>
      let vals ← metaOfJson (← field j "vals")
      return exec st (.metaUpdate i n.id (vals.getD []) (← (fieldD j "replace" (.bool false)).getBool?))
    | s => throw s!"meta kind {s}"
  | "w.del" => some do
    let (i, _) ← getTree st j
    let a ← optAtomJ st (fieldD j "a" .null)
    let asId ← optDidJ (fieldD j "did" .null)
    return exec st (.delItem i a asId)
  | "w.filter" => some do
    let (i, t) ← getTree st j
    let n ← nodeAt t j "n"
    let v ← verdictOfJson (← field j "v")
    return exec st (.filter i n.id v) [("spec", forestToJson (Spec.filterSpec v n.kids))]
  | "w.filtered" => some do
    let (si, s) ← getTree st j "st"
    let v ← verdictOfJson (← field j "v")
    match fieldD j "sp" .null with
    | .null => return exec st (.filtered si none v) [("spec", forestToJson (Spec.filterSpec v s.root.kids))]
    | _ =>
      let src ← nodeAt s j "sp"
      return exec st (.filtered si (some src.id) v) [("spec", forestToJson [T.node src.info (Spec.filterSpec v src.kids)])]
  | "w.chk" => some do
    -- evaluate the decidable well-formedness conjuncts on a state observed from the implementation
    let tops ← forestOfJson st.pool (← field j "tree")
    let byId ← natList (← field j "byId")
    let byData ← (← (← field j "byData").getArr?).toList.mapM fun e => do
      let a ← e.getArr?
      return ((← didOfJson a[0]!), (← natList a[1]!))
    let t : Tree := { root := mkRoot tops, byId := byId, byData := byData }
    return (st, Json.mkObj [("ids", .bool (idsNodupB t)), ("registry", .bool (registryExactB t)),
                            ("index", .bool (indexExactB t)), ("sib", .bool (sibUniqueB t))])
  | _ => none

end Driver
