import Driver.Codec
import Nutree.Model.Ops
import Nutree.Spec.WF
open Lean Nutree
namespace Driver

def errJson (e : Err) : Json := Json.mkObj [("err", .str e.toString)]

def getTree (st : St) (j : Json) (k : String := "t") : E (Nat × Tree) := do
  let i ← (← field j k).getNat?
  match st.trees[i]? with
  | some t => return (i, t)
  | none => throw s!"no tree {i}"

def nodeAt (t : Tree) (j : Json) (k : String) : E T := do
  let path ← natList (← field j k)
  match t.root.sub path with
  | some n => return n
  | none => throw s!"bad path {k}"

def beforeOfJson (t : Tree) : Json → E Before
  | .null => .ok .none
  | .bool true => .ok .bTrue
  | .bool false => .ok .bFalse
  | .num n => .ok (.idx n.mantissa)
  | j => do
    -- {"t": i, "path": [...]} a node (possibly of another tree: then the id is made unknown to this tree)
    let path ← natList (← field j "path")
    let foreign ← (fieldD j "foreign" (.bool false)).getBool?
    if foreign then return .node 999999999
    match t.root.sub path with
    | some n => return .node n.id
    | none => throw "before path"

def didsJson (l : List (DataId × List NodeId)) : Json :=
  .arr (l.map fun (d, ns) => Json.arr #[didToJson d, natsJson ns]).toArray

def treeObs (t : Tree) : Json := Json.mkObj [
  ("tree", forestToJson t.root.kids), ("byId", natsJson t.byId), ("byData", didsJson t.byData),
  ("typed", .bool t.typed), ("wf", .bool (wfB t))]

def worldObs (st : St) : Json := .arr (st.trees.toList.map treeObs).toArray

def reply (st : St) (r : Option Err) (extra : List (String × Json) := []) : St × Json :=
  (st, Json.mkObj ([("res", match r with | none => Json.str "ok" | some e => .str e.toString), ("obs", worldObs st)] ++ extra))

def setTree (st : St) (i : Nat) (t : Tree) : St := { st with trees := st.trees.set! i t }

def hookOfJson : Json → E (Option (List (Nat × Option DataId)))
  | .null => .ok none
  | j => do
    let l ← (← j.getArr?).toList.mapM fun e => do
      let a ← e.getArr?
      let o ← a[0]!.getNat?
      let d ← optDidW a[1]!
      return (o, d)
    return some l
where optDidW : Json → E (Option DataId)
  | .null => .ok none
  | j => do return some (← didOfJson j)

def optDidJ : Json → E (Option DataId)
  | .null => .ok none
  | j => do return some (← didOfJson j)

def optBoolJ : Json → E (Option Bool)
  | .null => .ok none
  | j => do return some (← j.getBool?)

def keyOfJsonW : Json → E KeyFn
  | .str "name" => .ok (fun t => some t.name)
  | j => do
    let obj ← j.getObj?
    let tbl ← obj.toList.mapM fun (k, v) => do
      let some id := k.toNat? | throw "key table"
      match v with
      | .null => return (id, none)
      | .str s => return (id, some s)
      | _ => throw "key value"
    return fun t => match tbl.lookup t.id with
      | some r => r
      | none => some ""

def handleWorld (st : St) (op : String) (j : Json) : Option (E (St × Json)) :=
  match op with
  | "w.reset" => some (pure ({ st with trees := #[], next := 1 }, Json.mkObj [("res", .str "ok")]))
  | "w.new" => some do
    let typed ← (fieldD j "typed" (.bool false)).getBool?
    let hook ← hookOfJson (fieldD j "hook" .null)
    let t : Tree := { typed := typed, hook := hook }
    let st' := { st with trees := st.trees.push t }
    return (st', Json.mkObj [("res", .str "ok"), ("tree", .num (JsonNumber.fromNat st.trees.size))])
  | "w.obs" => some (pure (reply st none))
  | "w.add" => some do
    let (i, t) ← getTree st j
    let p ← nodeAt t j "p"
    let ai ← (← field j "a").getNat?
    let some a := st.pool[ai]? | throw "atom"
    let before ← beforeOfJson t (fieldD j "before" .null)
    let did ← optDidJ (fieldD j "did" .null)
    let kind ← optStr (fieldD j "kind" .null)
    match t.addData st.next p.id a before did kind with
    | .ok t1 => return reply { setTree st i t1 with next := st.next + 1 } none [("new", .num (JsonNumber.fromNat st.next))]
    | .error e => return reply st (some e)
  | "w.addnode" => some do
    let (i, t) ← getTree st j
    let p ← nodeAt t j "p"
    let (si, s) ← getTree st j "st"
    let src ← nodeAt s j "sp"
    let before ← beforeOfJson t (fieldD j "before" .null)
    let deep ← optBoolJ (fieldD j "deep" .null)
    let did ← optDidJ (fieldD j "did" .null)
    let kind ← optStr (fieldD j "kind" .null)
    let srcParent := if si == i then t.parentId src.id else none
    let (t1, n1, r) := t.addNode st.next p.id src (si == i) srcParent before deep did kind
    return reply { setTree st i t1 with next := n1 } r
  | "w.addtree" => some do
    let (i, t) ← getTree st j
    let p ← nodeAt t j "p"
    let (_, s) ← getTree st j "st"
    let before ← beforeOfJson t (fieldD j "before" .null)
    let deep ← optBoolJ (fieldD j "deep" .null)
    let (t1, n1, r) := t.addTree st.next p.id s.root.kids before deep
    return reply { setTree st i t1 with next := n1 } r
  | "w.copykids" => some do
    let (i, t) ← getTree st j
    let p ← nodeAt t j "p"
    let (_, s) ← getTree st j "st"
    let src ← nodeAt s j "sp"
    let deep ← (fieldD j "deep" (.bool false)).getBool?
    let (t1, n1, r) := t.copyKids st.next p.id src.kids deep
    return reply { setTree st i t1 with next := n1 } r
  | "w.copy" => some do
    let (_, s) ← getTree st j "st"
    let (t1, n1, r) := s.copyAll st.next
    if r.isSome then return reply st r
    return reply { st with trees := st.trees.push t1, next := n1 } r
  | "w.nodecopy" => some do
    let (_, s) ← getTree st j "st"
    let src ← nodeAt s j "sp"
    let addSelf ← (fieldD j "self" (.bool true)).getBool?
    let (t1, n1, r) := s.copyBranch st.next src addSelf
    if r.isSome then return reply st r
    return reply { st with trees := st.trees.push t1, next := n1 } r
  | "w.move" => some do
    let (i, t) ← getTree st j
    let n ← nodeAt t j "n"
    let cross ← (fieldD j "cross" (.bool false)).getBool?
    if cross then return reply st (some .notImplemented)
    let to ← nodeAt t j "to"
    let before ← beforeOfJson t (fieldD j "before" .null)
    match t.moveTo n.id to.id before with
    | .ok t1 => return reply (setTree st i t1) none
    | .error e => return reply st (some e)
  | "w.remove" => some do
    let (i, t) ← getTree st j
    let n ← nodeAt t j "n"
    let keep ← (fieldD j "keep" (.bool false)).getBool?
    let clones ← (fieldD j "clones" (.bool false)).getBool?
    let (t1, r) := t.remove n.id keep clones
    return reply (setTree st i t1) r
  | "w.removechildren" => some do
    let (i, t) ← getTree st j
    let n ← nodeAt t j "n"
    return reply (setTree st i (t.removeChildren n.id)) none
  | "w.sort" => some do
    let (i, t) ← getTree st j
    let n ← nodeAt t j "n"
    let key ← keyOfJsonW (fieldD j "key" (.str "name"))
    let rev ← (fieldD j "reverse" (.bool false)).getBool?
    let deep ← (fieldD j "deep" (.bool false)).getBool?
    let (t1, r) := t.sort n.id key rev deep
    return reply (setTree st i t1) r
  | "w.setdata" => some do
    let (i, t) ← getTree st j
    let n ← nodeAt t j "n"
    let a ← match fieldD j "a" .null with
      | .null => pure none
      | x => do
        let ai ← x.getNat?
        let some a := st.pool[ai]? | throw "atom"
        pure (some a)
    let did ← optDidJ (fieldD j "did" .null)
    let wc ← optBoolJ (fieldD j "clones" .null)
    let isRename := (fieldD j "via" .null) == Json.str "rename"
    -- `rename`: only for plain string nodes, then `set_data(new_name)`
    if isRename && !n.data.isStr then return reply st (some .value)
    match t.setData n.id a did wc with
    | .ok t1 => return reply (setTree st i t1) none
    | .error e => return reply st (some e)
  | "w.meta" => some do
    let (i, t) ← getTree st j
    let n ← nodeAt t j "n"
    let kind ← (← field j "kind").getStr?
    let upd : Option (List (String × String)) → E (Option (List (String × String))) := fun m => do
      match kind with
      | "set" => return metaSet m (← (← field j "k").getStr?) (← (← field j "v").getStr?)
      | "clear" => return metaClear m (← optStr (fieldD j "k" .null))
      | "update" =>
        let vals ← metaOfJson (← field j "vals")
        return metaUpdate m (vals.getD []) (← (fieldD j "replace" (.bool false)).getBool?)
      | s => throw s!"meta kind {s}"
    let m' ← upd n.info.nmeta
    let t1 := { t with root := setInfoT n.id (fun i => { i with nmeta := m' }) t.root }
    return reply (setTree st i t1) none
  | "w.chk" => some do
    -- evaluate the decidable well-formedness conjuncts on a state observed from the implementation
    let tops ← forestOfJson st.pool (← field j "tree")
    let byId ← natList (← field j "byId")
    let byData ← (← (← field j "byData").getArr?).toList.mapM fun e => do
      let a ← e.getArr?
      return ((← didOfJson a[0]!), (← natList a[1]!))
    let t : Tree := { root := mkRoot tops, byId := byId, byData := byData }
    return (st, Json.mkObj [("ids", .bool (idsNodupB t)), ("registry", .bool (registryExactB t)),
                            ("index", .bool (indexExactB t)), ("sib", .bool (sibUniqueB t))])
  | _ => none

end Driver
