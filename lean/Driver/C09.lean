import Driver.Codec
import Driver.C10
import Nutree.Model.Search
open Lean Nutree
namespace Driver
open Nutree.Search

def boolTable (j : Json) : E (T → Bool) := do
  let obj ← j.getObj?
  let tbl ← obj.toList.mapM fun (k, v) => do
    let some id := k.toNat? | throw "table key"
    return (id, ← v.getBool?)
  return fun t => (tbl.lookup t.id).getD false

def optNat : Json → E (Option Nat)
  | .null => .ok none
  | j => do return some (← j.getNat?)

def nodeMap (root : T) : List (Nat × T) := (T.flat root).map fun n => (n.id, n)

def indexOfJson (root : T) (j : Json) : E Index := do
  let nm := nodeMap root
  (← j.getArr?).toList.mapM fun e => do
    let a ← e.getArr?
    let d ← didOfJson a[0]!
    let ids ← natList a[1]!
    let ns ← ids.mapM fun i => match nm.lookup i with
      | some n => pure n
      | none => throw s!"index: unknown node {i}"
    return (d, ns)

def byIdOfJson (root : T) (j : Json) : E (List (Int × T)) := do
  let nm := nodeMap root
  (← j.getArr?).toList.mapM fun e => do
    let a ← e.getArr?
    let nid ← a[0]!.getInt?
    let i ← a[1]!.getNat?
    match nm.lookup i with
    | some n => return (nid, n)
    | none => throw s!"byId: unknown node {i}"

def optDid : Json → E (Option DataId)
  | .null => .ok none
  | j => do return some (← didOfJson j)

def keyOfJson (j : Json) : E Key := do
  match ← (← field j "k").getStr? with
  | "node" => return .node
  | _ =>
    let isInt ← (fieldD j "isInt" (.bool false)).getBool?
    let asId ← optDid (fieldD j "asId" .null)
    let cid ← didOfJson (← field j "calc")
    return .obj isInt asId cid

def getResJson : GetRes → Json
  | .ok n => Json.mkObj [("ok", nat n.id)]
  | .valueError => Json.mkObj [("err", .str "value")]
  | .keyError => Json.mkObj [("err", .str "key")]
  | .ambiguous => Json.mkObj [("err", .str "ambiguous")]

def handleC09 (st : St) (op : String) (j : Json) : Option (E Json) :=
  match op with
  | "search" => some do
    let tops ← forestOfJson st.pool (← field j "t")
    let root := mkRoot tops
    let path ← natList (fieldD j "path" (.arr #[]))
    let some start := root.sub path | throw "bad path"
    let q ← (← field j "q").getStr?
    let ms (a b : Json) := Json.mkObj [("model", a), ("spec", b)]
    match q with
    | "nodeMatch" =>
      let m ← boolTable (← field j "m")
      let k ← optNat (fieldD j "k" .null)
      let addSelf ← (fieldD j "self" (.bool false)).getBool?
      return ms (idsJson (nodeFindAllMatch m k addSelf start)) (idsJson (Spec.findAll m k addSelf start))
    | "nodeFirst" =>
      let m ← boolTable (← field j "m")
      return ms (oid (nodeFindFirstMatch m start)) (oid (Spec.findFirst m start))
    | "nodeId" =>
      let d ← didOfJson (← field j "did")
      let addSelf ← (fieldD j "self" (.bool false)).getBool?
      return ms (Json.arr #[idsJson (nodeFindAllId d addSelf start), oid (nodeFindFirstId d start)])
                (Json.arr #[idsJson (Spec.matching (fun n => n.did == d) addSelf start), oid (Spec.matching (fun n => n.did == d) false start).head?])
    | "treeId" =>
      let idx ← indexOfJson root (← field j "byData")
      let d ← didOfJson (← field j "did")
      let k ← optNat (fieldD j "k" .null)
      return ms (Json.arr #[idsJson (treeFindAllId idx d k), oid (treeFindFirstId idx d), .bool (contains idx d)])
                (Json.arr #[idsJson (Spec.limit k (Spec.clones idx d)), oid (Spec.clones idx d).head?, .bool (!(Spec.clones idx d).isEmpty)])
    | "getitem" =>
      let idx ← indexOfJson root (← field j "byData")
      let byId ← byIdOfJson root (← field j "byId")
      let key ← keyOfJson (← field j "key")
      return ms (getResJson (getItem byId idx key)) (getResJson (Spec.getItem byId idx key))
    | s => throw s!"search q {s}"
  | _ => none

end Driver
