import Driver.Codec
import Nutree.Model.Lock
open Lean Nutree
namespace Driver
open Nutree.Lock

def progOfMethod (typed : Bool) (m : String) : Prog :=
  let key := match m with
    | "save" => if typed then "TypedTree.save" else "Tree.save"
    | "copy" => "Tree.copy" | "filtered" => "Tree.filtered" | "copy_to" => "Tree.copy_to"
    | "to_dict_list" => "Tree.to_dict_list" | "to_dotfile" => "tree_to_dotfile"
    | _ => ""
  match snapshotProgs.lookup key with
  | some p => p
  | none => [.acq, .read, .rel]      -- `with tree:` itself

def handleC18 (_st : St) (op : String) (j : Json) : Option (E Json) :=
  match op with
  | "lock.replay" => some do
    -- thread 0: a writer with two writes; thread 1: the snapshot program. `order` lists, per observed
    -- event, which thread moved; the events of thread 1 are executed as one block at its position.
    let typed ← (fieldD j "typed" (.bool false)).getBool?
    let m ← (← field j "method").getStr?
    let order ← natList (← field j "order")
    let pb := progOfMethod typed m
    let c0 := Cfg.init [writer 2, pb]
    let sched := order.flatMap fun i => if i == 0 then [0] else List.replicate pb.length 1
    let ok := (sched.foldl (fun (acc : Cfg × Bool) i => (step Generated.lockReentrant acc.1 i, acc.2 && enabled Generated.lockReentrant acc.1 i)) (c0, true))
    return Json.mkObj [("ok", .bool (ok.2 && finished ok.1)), ("guarded", .bool (guardedFrom 0 pb)),
                       ("left", .arr (ok.1.progs.map fun p => Json.num (JsonNumber.fromNat p.length)).toArray)]
  | _ => none

end Driver
