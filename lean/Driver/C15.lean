import Driver.Codec
import Driver.C10
import Nutree.Model.Typed
open Lean Nutree
namespace Driver
open Nutree.Typed

def kindOfJson : Json → E (Option String)
  | .null => .ok none
  | .str s => .ok (some s)
  | j => .error s!"kind {j.compress}"

def typedChildQ (self : T) (k : Option String) : Json × Json :=
  (Json.mkObj [("children", idsJson (getChildren self k)), ("first_child", oid (firstChild self k)),
               ("last_child", oid (lastChild self k)), ("has_children", .bool (hasChildren self k))],
   Json.mkObj [("children", idsJson (Spec.children self k)), ("first_child", oid (Spec.firstChild self k)),
               ("last_child", oid (Spec.lastChild self k)), ("has_children", .bool (Spec.hasChildren self k))])

def typedSibQ (root self : T) (pc : List T) (ak : Bool) : Json × Json :=
  (Json.mkObj [("siblings", idsJson (Typed.getSiblings root self false ak)),
               ("siblings_self", idsJson (Typed.getSiblings root self true ak)),
               ("first_sibling", oid (Typed.firstSibling root self ak)), ("last_sibling", oid (Typed.lastSibling root self ak)),
               ("prev_sibling", oid (Typed.prevSibling root self ak)), ("next_sibling", oid (Typed.nextSibling root self ak)),
               ("index", onat (Typed.getIndex root self ak)),
               ("is_first", .bool (Typed.isFirstSibling root self ak)), ("is_last", .bool (Typed.isLastSibling root self ak))],
   Json.mkObj [("siblings", idsJson (Spec.siblings pc self false ak)),
               ("siblings_self", idsJson (Spec.siblings pc self true ak)),
               ("first_sibling", oid (Spec.first pc self ak)), ("last_sibling", oid (Spec.last pc self ak)),
               ("prev_sibling", oid (Spec.prev pc self ak)), ("next_sibling", oid (Spec.next pc self ak)),
               ("index", onat (Spec.index pc self ak)),
               ("is_first", .bool (Spec.isFirst pc self ak)), ("is_last", .bool (Spec.isLast pc self ak))])

def handleC15 (st : St) (op : String) (j : Json) : Option (E Json) :=
  match op with
  | "typed" => some do
    let tops ← forestOfJson st.pool (← field j "t")
    let kinds ← (← (← field j "kinds").getArr?).toList.mapM kindOfJson
    let root := mkRoot tops
    let nodes := allPaths root []
    let per := nodes.map fun (p, n) =>
      let pc := SpecRel.siblingsAll root p
      let ch := kinds.map fun k => let (m, s) := typedChildQ n k; Json.arr #[m, s]
      let sb := [false, true].map fun ak => let (m, s) := typedSibQ root n pc ak; Json.arr #[m, s]
      Json.mkObj [("id", nat n.id), ("child", .arr ch.toArray), ("sib", .arr sb.toArray)]
    let treeQ := kinds.map fun k =>
      let (m, s) := typedChildQ root k
      Json.arr #[m, s, idsJson (iterByType root k), idsJson (Spec.iterByType root k)]
    return Json.mkObj [("nodes", .arr per.toArray), ("tree", .arr treeQ.toArray)]
  | _ => none

end Driver
