import Driver.Codec
import Nutree.Model.Iter
import Nutree.Spec.Iter
open Lean Nutree
namespace Driver

def methodOfString : String → E Method
  | "pre" => .ok .pre | "post" => .ok .post | "level" => .ok .level
  | "level_rtl" => .ok .levelRtl | "zigzag" => .ok .zigzag | "zigzag_rtl" => .ok .zigzagRtl
  | "random" => .ok .random | "unordered" => .ok .unordered
  | s => .error s!"method {s}"

def rawOfJson (j : Json) : E Raw := do
  let a ← j.getArr?
  let tag ← a[0]!.getStr?
  let v ← optIntOfJson (a[1]?.getD .null)
  match tag with
  | "retNone" => return .retNone
  | "retOther" => return .retOther
  | "retFalse" => return .retFalse
  | "retSkipCls" => return .retSkipCls
  | "retSkipInst" => return .retSkipInst
  | "raiseSkip" => return .raiseSkip
  | "retStopCls" => return .retStopCls
  | "retStopInst" => return .retStopInst v
  | "raiseStop" => return .raiseStop v
  | "retStopIterCls" => return .retStopIterCls
  | "retStopIterInst" => return .retStopIterInst v
  | "raiseStopIter" => return .raiseStopIter v
  | "raiseOther" => return .raiseOther
  | s => throw s!"raw {s}"

def voutJson : VOut → Json
  | .ret v => .arr #[.str "ret", optIntJson v]
  | .valueError => .arr #[.str "err", .str "value"]
  | .otherError => .arr #[.str "err", .str "callback"]
  | .notImplemented => .arr #[.str "err", .str "notimpl"]

/-- callback table: object `{ "<node id>": raw }`, default retNone. -/
def cbOfJson (j : Json) : E (NodeId → Sig) := do
  let obj ← j.getObj?
  let tbl ← obj.toList.mapM fun (k, v) => do
    let some id := k.toNat? | throw "cb key"
    return (id, ← rawOfJson v)
  return fun i => match tbl.lookup i with
    | some r => callTraversalCb r
    | none => .cont

def handleC06 (st : St) (op : String) (j : Json) : Option (E Json) :=
  match op with
  | "iter" => some do
    let n ← startNode st j
    let m ← methodOfString (← (← field j "m").getStr?)
    let addSelf ← (fieldD j "self" (.bool false)).getBool?
    let enc : Option (List T) → Json
      | some xs => Json.mkObj [("ok", idsJson xs)]
      | none => Json.mkObj [("err", .str "notimpl")]
    return Json.mkObj [("model", enc (iterator m addSelf n)), ("spec", enc (specIterator m addSelf n))]
  | "visit" => some do
    let n ← startNode st j
    let m ← methodOfString (← (← field j "m").getStr?)
    let addSelf ← (fieldD j "self" (.bool false)).getBool?
    let cb ← cbOfJson (fieldD j "cb" (Json.mkObj []))
    let r := visit (fun t => cb t.id) m addSelf n
    let s := specVisit cb m addSelf n
    return Json.mkObj [("model", Json.mkObj [("calls", idsJson r.1), ("out", voutJson r.2)]),
                       ("spec", Json.mkObj [("calls", natsJson s.1), ("out", voutJson s.2)])]
  | _ => none

end Driver
