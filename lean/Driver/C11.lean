import Driver.Codec
import Nutree.Model.Diff
open Lean Nutree
namespace Driver

def handleC11 (st : St) (op : String) (j : Json) : Option (E Json) :=
  match op with
  | "diff" => some do
    let t0 ← forestOfJson st.pool (← field j "t0")
    let t1 ← forestOfJson st.pool (← field j "t1")
    let ordered ← (fieldD j "ordered" (.bool false)).getBool?
    let reduce ← (fieldD j "reduce" (.bool false)).getBool?
    return Json.mkObj [("ok", forestToJson (Diff.diffTree ordered reduce t0 t1 none))]
  | _ => none

end Driver
