import Driver.Codec
import Nutree.Model.Serial
open Lean Nutree
namespace Driver
open Nutree.Ser

partial def jvalOfJson : Json → E JVal
  | .null => .ok .null
  | .bool b => .ok (.bool b)
  | .num n => if n.exponent == 0 then .ok (.num n.mantissa) else .error "float in document"
  | .str s => .ok (.str s)
  | .arr a => do return .arr (← a.toList.mapM jvalOfJson)
  | .obj o => do return .obj (← o.toList.mapM fun (k, v) => do return (k, ← jvalOfJson v))

partial def jvalToJson : JVal → Json
  | .null => .null
  | .bool b => .bool b
  | .num i => .num (JsonNumber.fromInt i)
  | .str s => .str s
  | .arr l => .arr (l.map jvalToJson).toArray
  | .obj l => Json.mkObj (l.map fun (k, v) => (k, jvalToJson v))

def fieldsOfJson (j : Json) : E Fields := do
  match ← jvalOfJson j with
  | .obj l => return l
  | _ => throw "fields: not an object"

def optsOfJson (j : Json) : E Opts := do
  let km ← (fieldsOfJson (fieldD j "key_map" (Json.mkObj [])))
  let km ← km.mapM fun (k, v) => match v with | .str s => pure (k, s) | _ => throw "key_map value"
  let vm ← (fieldsOfJson (fieldD j "value_map" (Json.mkObj [])))
  let vm ← vm.mapM fun (k, v) => match v with | .arr a => pure (k, a) | _ => throw "value_map value"
  let fm ← fieldsOfJson (fieldD j "meta" (Json.mkObj []))
  return { keyMap := km, valueMap := vm, fileMeta := fm }

/-- serialisation mapper table `{ "<node id>": {fields to add} }`; a node without entry: mapper returns None. -/
def serOfJson (j : Json) : E (T → Fields → Option Fields) := do
  let obj ← j.getObj?
  let tbl ← obj.toList.mapM fun (k, v) => do
    let some id := k.toNat? | throw "ser key"
    return (id, ← fieldsOfJson v)
  return fun n d => (tbl.lookup n.id).map fun add => updateFields d add

def strAtomOf (st : St) (s : String) : Atom :=
  match st.pool.toList.find? (fun a => a.isStr && a.name == s) with
  | some a => a
  | none => { obj := 900000 + s.length, eqc := 900000 + s.length, hid := .str ("#" ++ s), truthy := s != "", isStr := true, name := s }

/-- deserialisation mapper: "o" = the user mapper of the harness (field "o" holds the pool index),
"str" = TypedTree.deserialize_mapper, "none" = Tree.deserialize_mapper (NotImplementedError). -/
def deserOf (st : St) (mode : String) : Fields → DRes := fun d =>
  match mode with
  | "o" => match lookupF d "o" with
    | some (.num i) => (match st.pool[i.toNat]? with | some a => .atom a | none => .error)
    | _ => (match lookupF d "str" with
      | some (.str s) => .atom (strAtomOf st s)
      | _ => (match lookupF d "data" with | some (.str s) => .atom (strAtomOf st s) | _ => .error))
  | _ => (match lookupF d "str" with       -- Tree.deserialize_mapper / TypedTree.deserialize_mapper
    | some (.str s) =>
      if mode == "str" then (if d.all (fun e => e.1 == "str" || e.1 == "kind" || e.1 == "data_id") then .atom (strAtomOf st s) else .notImplemented)
      else (if d.length ≤ 2 then .atom (strAtomOf st s) else .notImplemented)
    | _ => .notImplemented)

def handleSer (st : St) (op : String) (j : Json) : Option (E Json) :=
  match op with
  | "ser.save" => some do
    let tops ← forestOfJson st.pool (← field j "t")
    let typed ← (fieldD j "typed" (.bool false)).getBool?
    let o ← optsOfJson j
    let ser ← serOfJson (fieldD j "ser" (Json.mkObj []))
    match saveJ typed o ser tops with
    | some d => return Json.mkObj [("ok", jvalToJson d)]
    | none => return Json.mkObj [("err", .str "key")]
  | "ser.load" => some do
    let doc ← jvalOfJson (← field j "doc")
    let typed ← (fieldD j "typed" (.bool false)).getBool?
    let mode ← (fieldD j "deser" (.str "none")).getStr?
    match loadJ typed (strAtomOf st) (deserOf st mode) doc with
    | .ok (t, hdr) => return Json.mkObj [("ok", forestToJson t.root.kids), ("meta", jvalToJson (.obj hdr)),
        ("byData", .arr (t.byData.map fun (d, ns) => Json.arr #[didToJson d, natsJson ns]).toArray)]
    | .error e => return Json.mkObj [("err", .str e.toString)]
  | "ser.todict" => some do
    let tops ← forestOfJson st.pool (← field j "t")
    let ser ← serOfJson (fieldD j "ser" (Json.mkObj []))
    return Json.mkObj [("ok", jvalToJson (.arr (toDictL ser tops)))]
  | "ser.fromdict" => some do
    let doc ← jvalOfJson (← field j "doc")
    let mode ← (fieldD j "deser" (.str "none")).getStr?
    let items := match doc with | .arr l => l | _ => []
    let deser := if mode == "none" then none else some (deserOf st mode)
    match fromDictL (strAtomOf st) deser 1000 items {} 0 1 with
    | .ok (t, _) => return Json.mkObj [("ok", forestToJson t.root.kids)]
    | .error e => return Json.mkObj [("err", .str e.toString)]
  | "ser.fromdict_at" => some do
    -- `node.from_dict(doc)` on the node `parent` of the existing tree `t` (fresh ids from `next`)
    let tops ← forestOfJson st.pool (← field j "t")
    let parent ← (← field j "parent").getNat?
    let next ← (← field j "next").getNat?
    let doc ← jvalOfJson (← field j "doc")
    let mode ← (fieldD j "deser" (.str "none")).getStr?
    let items := match doc with | .arr l => l | _ => []
    let deser := if mode == "none" then none else some (deserOf st mode)
    -- the registries of the existing tree, rebuilt from the forest (pre-order registration)
    let nodes := T.flatL tops
    let byData : List (DataId × List NodeId) := nodes.foldl (fun acc n =>
      if acc.any (·.1 == n.did) then acc.map fun e => if e.1 == n.did then (e.1, e.2 ++ [n.id]) else e
      else acc ++ [(n.did, [n.id])]) []
    let t0 : Tree := { root := mkRoot tops, byId := nodes.map T.id, byData := byData }
    match fromDict (strAtomOf st) deser 1000 items t0 parent next with
    | .ok (t, _) => return Json.mkObj [("ok", forestToJson t.root.kids)]
    | .error e => return Json.mkObj [("err", .str e.toString)]
  | _ => none

end Driver
