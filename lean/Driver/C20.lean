import Driver.Codec
import Nutree.Model.Generator
open Lean Nutree
namespace Driver
open Nutree.Gen

/-! Wire format of op `gen.build`
  request  {"op":"gen.build","typed":bool,"fuel":n?,"types":[[name,spec]…],
            "relations":[[ptype,[[ntype,spec]…]]…],"draws":[draw…]}
  spec  = [[key, sval]…]            sval = {"c":val} | {"r":rspec}
  val   = null | {"i":int} | {"s":str} | {"b":bool} | {"f":[num,den]} | {"d":ordinal}
  rspec = {"k":"rangeInt","min":int,"max":int,"p":[n,d],"nv":val}
        | {"k":"rangeFlt","min":val,"max":val,"p":[n,d],"nv":val}
        | {"k":"date","min":int,"delta":int,"stamp":bool,"p":[n,d]}
        | {"k":"value","v":val,"p":[n,d]} | {"k":"sparse","p":[n,d]}
        | {"k":"sample","vals":[val…],"counts":null|[nat…],"p":[n,d]} | {"k":"text","p":[n,d]}
  draw  = ["rand",n,d] | ["randrange",lo,hi,r] | ["uniform",val,val,val]
        | ["sample",[val…],null|[nat…],i] | ["text",s] | ["other",name]
  reply {"ok":[node…],"unused":n} | {"err":msg};  node = [type, kind|null, [[key,val]…], [node…]] -/

def gvalOfJson (j : Json) : E Val :=
  match j with
  | .null => .ok .none
  | _ =>
    match j.getObjVal? "i" with
    | .ok x => do return .int (← x.getInt?)
    | .error _ =>
    match j.getObjVal? "s" with
    | .ok x => do return .str (← x.getStr?)
    | .error _ =>
    match j.getObjVal? "b" with
    | .ok x => do return .bool (← x.getBool?)
    | .error _ =>
    match j.getObjVal? "f" with
    | .ok x => do
      let a ← x.getArr?
      if a.size != 2 then throw "val f: arity"
      return .flt (← a[0]!.getInt?) (← a[1]!.getNat?)
    | .error _ =>
    match j.getObjVal? "d" with
    | .ok x => do return .date (← x.getInt?)
    | .error _ => .error s!"val: {j.compress}"

def gvalToJson : Val → Json
  | .none => .null
  | .int i => Json.mkObj [("i", .num (JsonNumber.fromInt i))]
  | .str s => Json.mkObj [("s", .str s)]
  | .bool b => Json.mkObj [("b", .bool b)]
  | .flt n d => Json.mkObj [("f", .arr #[.num (JsonNumber.fromInt n), .num (JsonNumber.fromNat d)])]
  | .date o => Json.mkObj [("d", .num (JsonNumber.fromInt o))]

def probOfJson (j : Json) : E Prob := do
  let a ← j.getArr?
  if a.size != 2 then throw "prob: arity"
  return ⟨← a[0]!.getNat?, ← a[1]!.getNat?⟩

def gvalsOfJson (j : Json) : E (List Val) := do (← j.getArr?).toList.mapM gvalOfJson

def countsOfJson : Json → E (Option (List Nat))
  | .null => .ok none
  | j => do return some (← natList j)

def rspecOfJson (j : Json) : E RSpec := do
  let k ← (← field j "k").getStr?
  let p ← probOfJson (← field j "p")
  match k with
  | "rangeInt" => return .rangeInt (← (← field j "min").getInt?) (← (← field j "max").getInt?) p (← gvalOfJson (fieldD j "nv" .null))
  | "rangeFlt" => return .rangeFlt (← gvalOfJson (← field j "min")) (← gvalOfJson (← field j "max")) p (← gvalOfJson (fieldD j "nv" .null))
  | "date" => return .dateRange (← (← field j "min").getInt?) (← (← field j "delta").getInt?) (← (← field j "stamp").getBool?) p
  | "value" => return .value (← gvalOfJson (fieldD j "v" .null)) p
  | "sparse" => return .sparseBool p
  | "sample" => return .sample (← gvalsOfJson (← field j "vals")) (← countsOfJson (fieldD j "counts" .null)) p
  | "text" => return .text p
  | _ => throw s!"rspec kind {k}"

def svalOfJson (j : Json) : E SVal :=
  match j.getObjVal? "r" with
  | .ok r => do return .rnd (← rspecOfJson r)
  | .error _ => do return .const (← gvalOfJson (fieldD j "c" .null))

def pairsOfJson {α} (f : Json → E α) (j : Json) : E (List (String × α)) := do
  (← j.getArr?).toList.mapM fun p => do
    let q ← p.getArr?
    if q.size != 2 then throw "pair: arity"
    return (← q[0]!.getStr?, ← f q[1]!)

def specOfJson : Json → E Spec := pairsOfJson svalOfJson

def drawOfJson (j : Json) : E Draw := do
  let a ← j.getArr?
  let some h := a[0]? | throw "draw: empty"
  match ← h.getStr? with
  | "rand" =>
    if a.size != 3 then throw "draw rand: arity"
    return .rand ⟨← a[1]!.getNat?, ← a[2]!.getNat?⟩
  | "randrange" =>
    if a.size != 4 then throw "draw randrange: arity"
    return .randrange (← a[1]!.getInt?) (← a[2]!.getInt?) (← a[3]!.getInt?)
  | "uniform" =>
    if a.size != 4 then throw "draw uniform: arity"
    return .uniform (← gvalOfJson a[1]!) (← gvalOfJson a[2]!) (← gvalOfJson a[3]!)
  | "sample" =>
    if a.size != 4 then throw "draw sample: arity"
    return .sampleIdx (← gvalsOfJson a[1]!) (← countsOfJson a[2]!) (← a[3]!.getNat?)
  | "text" =>
    if a.size != 2 then throw "draw text: arity"
    return .text (← a[1]!.getStr?)
  | "other" =>
    if a.size != 2 then throw "draw other: arity"
    return .other (← a[1]!.getStr?)
  | k => throw s!"draw kind {k}"

partial def gnodeToJson : GNode → Json
  | .mk ty kind attrs kids =>
    .arr #[.str ty, (match kind with | none => .null | some k => .str k),
           .arr (attrs.map fun (k, v) => Json.arr #[.str k, gvalToJson v]).toArray,
           .arr (kids.map gnodeToJson).toArray]

def handleC20 (_st : St) (op : String) (j : Json) : Option (E Json) :=
  match op with
  | "gen.build" => some do
    let typed ← (fieldD j "typed" (.bool false)).getBool?
    let types ← pairsOfJson specOfJson (fieldD j "types" (.arr #[]))
    let relations ← pairsOfJson (pairsOfJson specOfJson) (← field j "relations")
    let draws ← (← (← field j "draws").getArr?).toList.mapM drawOfJson
    let fuel ← match fieldD j "fuel" .null with
      | .null => pure (relations.length + 2)
      | f => f.getNat?
    let d : Def := { types, relations }
    match build d typed fuel draws with
    | none => return Json.mkObj [("err", .str "model: no tree (unknown root / draw stream does not fit / format error / fuel)")]
    | some (forest, rest) =>
      return Json.mkObj [("ok", .arr (forest.map gnodeToJson).toArray),
                         ("unused", .num (JsonNumber.fromNat rest.length))]
  | _ => none

end Driver
