import Driver.Codec
import Nutree.Model.Rel
import Nutree.Spec.Rel
open Lean Nutree
namespace Driver

def oid : Option T → Json
  | some t => .num (JsonNumber.fromNat t.id)
  | none => .null

def onat : Option Nat → Json
  | some n => .num (JsonNumber.fromNat n)
  | none => .null

partial def allPaths (t : T) (pre : List Nat) : List (List Nat × T) :=
  (t.kids.zipIdx).flatMap fun (c, i) => (pre ++ [i], c) :: allPaths c (pre ++ [i])

def nat (n : Nat) : Json := .num (JsonNumber.fromNat n)

def relModel (root self : T) : Json := Json.mkObj [
  ("parent", oid (parentOf root self)),
  ("up1", oid (up root self 1)), ("up2", oid (up root self 2)), ("up3", oid (up root self 3)),
  ("up0", oid (up root self 0)), ("up99", oid (up root self 99)),
  ("children", idsJson self.kids),
  ("first_child", oid self.kids.head?), ("last_child", oid self.kids.getLast?),
  ("siblings", idsJson (getSiblings root self false)),
  ("siblings_self", idsJson (getSiblings root self true)),
  ("first_sibling", oid (firstSibling root self)), ("last_sibling", oid (lastSibling root self)),
  ("prev_sibling", oid (prevSibling root self)), ("next_sibling", oid (nextSibling root self)),
  ("index", onat (getIndex root self)),
  ("depth", nat (calcDepth root self)), ("height", nat (calcHeight self)),
  ("top", oid (getTop root self)),
  ("plist", idsJson (getParentList root self false false)),
  ("plist_self", idsJson (getParentList root self true false)),
  ("plist_up", idsJson (getParentList root self false true)),
  ("plist_self_up", idsJson (getParentList root self true true)),
  ("path", .str (getPath root self true)), ("path_noself", .str (getPath root self false)),
  ("count", nat (countDescendants self false)), ("count_leaves", nat (countDescendants self true)),
  ("is_top", .bool (isTop root self)), ("is_leaf", .bool self.kids.isEmpty),
  ("is_first", .bool (isFirstSibling root self)), ("is_last", .bool (isLastSibling root self)),
  ("has_children", .bool (!self.kids.isEmpty))]

def relSpec (root : T) (p : List Nat) (self : T) : Json := Json.mkObj [
  ("parent", oid (SpecRel.parent root p)),
  ("up1", oid (SpecRel.up root p 1)), ("up2", oid (SpecRel.up root p 2)), ("up3", oid (SpecRel.up root p 3)),
  ("up0", oid (SpecRel.up root p 0)), ("up99", oid (SpecRel.up root p 99)),
  ("children", idsJson self.kids),
  ("first_child", oid self.kids.head?), ("last_child", oid self.kids.getLast?),
  ("siblings", idsJson (SpecRel.siblings root p false)),
  ("siblings_self", idsJson (SpecRel.siblings root p true)),
  ("first_sibling", oid (SpecRel.siblingsAll root p).head?), ("last_sibling", oid (SpecRel.siblingsAll root p).getLast?),
  ("prev_sibling", oid (SpecRel.prev root p)), ("next_sibling", oid (SpecRel.next root p)),
  ("index", onat (SpecRel.index p)),
  ("depth", nat (SpecRel.depth p)), ("height", nat self.height),
  ("top", oid (SpecRel.top root p)),
  ("plist", idsJson (SpecRel.parentList root p false)),
  ("plist_self", idsJson (SpecRel.parentList root p true)),
  ("plist_up", idsJson (SpecRel.parentList root p false).reverse),
  ("plist_self_up", idsJson (SpecRel.parentList root p true).reverse),
  ("path", .str (SpecRel.path root p true)), ("path_noself", .str (SpecRel.path root p false)),
  ("count", nat (SpecRel.countDescendants self false)), ("count_leaves", nat (SpecRel.countDescendants self true)),
  ("is_top", .bool (SpecRel.isTop p)), ("is_leaf", .bool self.kids.isEmpty),
  ("is_first", .bool (SpecRel.isFirst p)), ("is_last", .bool (SpecRel.isLast root p)),
  ("has_children", .bool (!self.kids.isEmpty))]

def handleC10 (st : St) (op : String) (j : Json) : Option (E Json) :=
  match op with
  | "rel" => some do
    let tops ← forestOfJson st.pool (← field j "t")
    let root := mkRoot tops
    let nodes := allPaths root []
    let per := nodes.map fun (p, n) =>
      Json.mkObj [("id", nat n.id), ("model", relModel root n), ("spec", relSpec root p n)]
    let pairs := nodes.flatMap fun (p, a) => nodes.map fun (q, b) =>
      Json.arr #[nat a.id, nat b.id,
        Json.arr #[.bool (isDescendantOf root a b), .bool (isAncestorOf root a b), oid (getCommonAncestor root a b)],
        Json.arr #[.bool (SpecRel.isDescendantOf p q), .bool (SpecRel.isDescendantOf q p), oid (SpecRel.lca root p q)]]
    return Json.mkObj [("nodes", .arr per.toArray), ("pairs", .arr pairs.toArray),
                       ("tree_height", nat (calcHeight root)), ("tree_height_spec", nat root.height)]
  | _ => none

end Driver
