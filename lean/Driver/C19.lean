import Driver.Codec
import Nutree.Model.Fs
open Lean Nutree
namespace Driver
open Nutree.Fs

/-- `[name, isDir, size, mtime, [entries…]]` (listing order); a directory ignores size/mtime. -/
partial def dirOfJson (j : Json) : E Dir := do
  let a ← j.getArr?
  if a.size != 5 then throw "fs entry: arity"
  let name ← a[0]!.getStr?
  let isDir ← a[1]!.getBool?
  if isDir then
    let es ← (← a[4]!.getArr?).toList.mapM dirOfJson
    return .dir name es
  else
    let size ← a[2]!.getNat?
    let mtime ← a[3]!.getInt?
    return .file name size mtime

partial def fnodeToJson : FNode → Json
  | .node n d s m ks =>
    .arr #[.str n, .bool d, .num (JsonNumber.fromNat s), optIntJson m, .arr (ks.map fnodeToJson).toArray]

/-- a node without children: `[name, isDir, size, mtime]` -/
def fnodeOfJson (j : Json) : E FNode := do
  let a ← j.getArr?
  if a.size < 4 then throw "fs node: arity"
  let mt ← (match a[3]! with | .null => pure none | x => do return some (← x.getInt?) : E (Option Int))
  return .node (← a[0]!.getStr?) (← a[1]!.getBool?) (← a[2]!.getNat?) mt []

/-- values travel tagged: `["s", str] | ["n", nat] | ["i", int] | ["b", bool] | null`
(Python `int` ↦ n, `float` ↦ i (surrogate), so that the typing is decided on the Python side). -/
def valOfJson : Json → E Val
  | .null => .ok .null
  | .arr #[.str "s", .str s] => .ok (.str s)
  | .arr #[.str "n", x] => do return .nat (← x.getNat?)
  | .arr #[.str "i", x] => do return .int (← x.getInt?)
  | .arr #[.str "b", .bool b] => .ok (.bool b)
  | j => .error s!"fs val {j.compress}"

def valToJson : Val → Json
  | .str s => .arr #[.str "s", .str s]
  | .nat n => .arr #[.str "n", .num (JsonNumber.fromNat n)]
  | .int i => .arr #[.str "i", .num (JsonNumber.fromInt i)]
  | .bool b => .arr #[.str "b", .bool b]
  | .null => .null

def recToJson (r : Rec) : Json := .arr (r.map fun (k, v) => Json.arr #[.str k, valToJson v]).toArray

def recOfJson (j : Json) : E Rec := do
  (← j.getArr?).toList.mapM fun p => do
    let q ← p.getArr?
    if q.size != 2 then throw "fs rec pair"
    return ((← q[0]!.getStr?), (← valOfJson q[1]!))

def entryToJson : Option Entry → Json
  | none => .null
  | some e => .arr #[.str e.name, .bool e.isDir, .num (JsonNumber.fromNat e.size), optIntJson e.mtime]

def handleC19 (_st : St) (op : String) (j : Json) : Option (E Json) :=
  match op with
  | "fs.scan" => some do
    let es ← (← (← field j "dir").getArr?).toList.mapM dirOfJson
    let sort ← (fieldD j "sort" (.bool true)).getBool?
    return Json.mkObj [("ok", .arr ((scan sort es).map fnodeToJson).toArray),
                       ("literal", .arr ((visit sort es).map fnodeToJson).toArray)]
  | "fs.ser" => some do
    let n ← fnodeOfJson (← field j "node")
    return Json.mkObj [("rec", recToJson (serFS n)), ("deser", entryToJson (deserFS (serFS n)))]
  | "fs.deser" => some do
    let r ← recOfJson (← field j "rec")
    return Json.mkObj [("deser", entryToJson (deserFS r))]
  | _ => none

end Driver
