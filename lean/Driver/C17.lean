import Driver.Codec
import Nutree.Model.Graph
import Nutree.Spec.Graph
open Lean Nutree
namespace Driver
open Nutree.Graph

def keyToJson : Key → Json
  | .did d => didToJson d
  | .nid i => .num (JsonNumber.fromNat i)

def optStrJson : Option String → Json
  | none => .null
  | some s => .str s

def subjToJson : Subj → Json
  | .sysRoot => .null
  | .lit d => didToJson d

def tripleToJson : Triple → Json
  | .hasChild p c => .arr #[.str "has_child", subjToJson p, didToJson c]
  | .name s v => .arr #[.str "name", subjToJson s, .str v]
  | .kind d k => .arr #[.str "kind", didToJson d, .str k]
  | .index d i => .arr #[.str "index", didToJson d, .num (JsonNumber.fromNat i)]

def natJson (n : Nat) : Json := .num (JsonNumber.fromNat n)

def specNodesJson (l : List (Key × String)) : Json :=
  .arr (l.map fun (k, nm) => Json.arr #[keyToJson k, .str nm]).toArray

def specEdgesJson (l : List Spec.Edge) : Json :=
  .arr (l.map fun e => Json.arr #[keyToJson e.parent, keyToJson e.child, optStrJson e.kind, .str e.name]).toArray

/-- op "graph": request `t` (forest), `name` (tree name), `typed`, `path` (start node), `fmt`
(dot|mermaid|rdf), `unique`, `addSelf`, `tree` (rdf: `Tree.to_rdf_graph()`). -/
def handleC17 (st : St) (op : String) (j : Json) : Option (E Json) :=
  match op with
  | "graph" => some do
    let tops ← forestOfJson st.pool (← field j "t")
    let treeName ← (fieldD j "name" (.str "t")).getStr?
    let root : T := .node { rootInfo with data := { rootAtom with name := treeName } } tops
    let path ← natList (fieldD j "path" (.arr #[]))
    let some start := root.sub path | throw "bad path"
    let typed ← (fieldD j "typed" (.bool false)).getBool?
    let unique ← (fieldD j "unique" (.bool true)).getBool?
    let addSelf ← (fieldD j "addSelf" (.bool true)).getBool?
    let fmt ← (← field j "fmt").getStr?
    let hasParent := !path.isEmpty
    let spec := Json.mkObj [
      ("nodes", specNodesJson (Spec.nodesSpec unique addSelf start)),
      ("edges", specEdgesJson ((Spec.edgesSpec unique addSelf start).map fun e =>
          { e with kind := if typed then e.kind else none }))]
    match fmt with
    | "dot" =>
      let ns := dotNodes treeName unique addSelf hasParent start
      let es := dotEdges unique addSelf typed start
      return Json.mkObj [
        ("model", Json.mkObj [
          ("nodes", .arr (ns.map fun (k, l) => Json.arr #[keyToJson k, optStrJson l]).toArray),
          ("edges", .arr (es.map fun (p, c, l) => Json.arr #[keyToJson p, keyToJson c, optStrJson l]).toArray)]),
        ("spec", spec)]
    | "mermaid" =>
      let ns := mermaidNodes unique addSelf start
      let es := mermaidEdges unique addSelf start
      return Json.mkObj [
        ("model", Json.mkObj [
          ("nodes", .arr (ns.map fun (i, nm) => Json.arr #[natJson i, .str nm]).toArray),
          ("edges", match es with
            | none => Json.mkObj [("err", .str "key")]
            | some es => .arr (es.map fun (p, c, l) => Json.arr #[natJson p, natJson c, optStrJson l]).toArray)]),
        ("spec", spec)]
    | "rdf" =>
      let isTree ← (fieldD j "tree" (.bool (path.isEmpty && addSelf))).getBool?
      let m := rdfTriples treeName isTree addSelf start
      let s := Spec.rdfSpec treeName isTree addSelf start
      return Json.mkObj [
        ("model", Json.mkObj [("triples", .arr (m.map tripleToJson).toArray)]),
        ("spec", Json.mkObj [("triples", .arr (s.map tripleToJson).toArray)])]
    | f => throw s!"unknown fmt {f}"
  | _ => none

end Driver
