import Driver.World
import Nutree.Model.Filter
open Lean Nutree
namespace Driver
open Nutree.Flt

def handleC08 (st : St) (op : String) (j : Json) : Option (E (St × Json)) :=
  match op with
  | "flt.inplace" => some do
    let tops ← forestOfJson st.pool (← field j "t")
    let typed ← (fieldD j "typed" (.bool false)).getBool?
    let t : Tree := { typed := typed, root := mkRoot tops }
    let path ← natList (fieldD j "path" (.arr #[]))
    let some start := t.root.sub path | throw "bad path"
    let v ← verdictOfJson (← field j "v")
    let (t1, r) := filterInPlace t start.id v
    let some start1 := t1.root.sub path | throw "start vanished"
    return (st, Json.mkObj [("model", forestToJson start1.kids), ("whole", forestToJson t1.root.kids),
                            ("spec", forestToJson (Spec.filterSpec v start.kids)),
                            ("res", match r with | none => Json.str "ok" | some e => .str e.toString)])
  | "flt.copy" => some do
    let tops ← forestOfJson st.pool (← field j "t")
    let typed ← (fieldD j "typed" (.bool false)).getBool?
    let s : Tree := { typed := typed, root := mkRoot tops }
    let v ← verdictOfJson (← field j "v")
    let fresh := 1000000
    match fieldD j "path" .null with
    | .null =>
      let (t1, _, r) := treeFiltered s fresh v
      let w := Spec.effective v s.root.kids
      return (st, Json.mkObj [("model", forestToJson t1.root.kids), ("spec", forestToJson (Spec.filterSpec v s.root.kids)),
                              ("stripped", forestToJson (Spec.stripDupL w s.root.kids t1.root.kids)),
                              ("res", match r with | none => Json.str "ok" | some e => .str e.toString)])
    | pj =>
      let path ← natList pj
      let some src := s.root.sub path | throw "bad path"
      let (t1, _, r) := nodeFiltered s fresh src v
      let w := Spec.effective v src.kids
      let stripped := match t1.root.kids with
        | [c] => [T.node c.info (Spec.stripDupL w src.kids c.kids)]
        | l => l
      return (st, Json.mkObj [("model", forestToJson t1.root.kids),
                              ("spec", forestToJson [T.node src.info (Spec.filterSpec v src.kids)]),
                              ("stripped", forestToJson stripped),
                              ("res", match r with | none => Json.str "ok" | some e => .str e.toString)])
  | "flt.strip" => some do
    -- remove the known duplicates from a copy observed on the implementation
    let src ← forestOfJson st.pool (← field j "src")
    let cp ← forestOfJson st.pool (← field j "copy")
    let v ← verdictOfJson (← field j "v")
    let w := Spec.effective v src
    return (st, Json.mkObj [("stripped", forestToJson (Spec.stripDupL w src cp))])
  | _ => none

end Driver
