import Lean.Data.Json
import Nutree.Model.Basic
import Nutree.Model.Ops
import Nutree.Model.World
open Lean Nutree
namespace Driver

abbrev E := Except String

def didOfJson : Json → E DataId
  | .num n => if n.exponent == 0 then .ok (.int n.mantissa) else .error "did: not an int"
  | .str s => .ok (.str s)
  | j => .error s!"did: {j.compress}"

def didToJson : DataId → Json
  | .int i => Json.num (JsonNumber.fromInt i)
  | .str s => Json.str s

def optStr : Json → E (Option String)
  | .null => .ok none
  | .str s => .ok (some s)
  | j => .error s!"optStr: {j.compress}"

def atomOfJson (j : Json) : E Atom := do
  let a ← j.getArr?
  if a.size != 6 then throw "atom: arity"
  let obj ← a[0]!.getNat?
  let eqc ← a[1]!.getNat?
  let hid ← didOfJson a[2]!
  let truthy ← a[3]!.getBool?
  let isStr ← a[4]!.getBool?
  let name ← a[5]!.getStr?
  return { obj, eqc, hid, truthy, isStr, name }

def metaOfJson : Json → E (Option (List (String × String)))
  | .null => .ok none
  | .arr a => do
    let l ← a.toList.mapM fun p => do
      let q ← p.getArr?
      if q.size != 2 then throw "meta pair"
      return ((← q[0]!.getStr?), (← q[1]!.getStr?))
    return some l
  | j => .error s!"meta: {j.compress}"

def metaToJson : Option (List (String × String)) → Json
  | none => .null
  | some l => .arr (l.map fun (k, v) => Json.arr #[.str k, .str v]).toArray

partial def nodeOfJson (pool : Array Atom) (j : Json) : E T := do
  let a ← j.getArr?
  if a.size != 6 then throw "node: arity"
  let id ← a[0]!.getNat?
  let ai ← a[1]!.getNat?
  let some atom := pool[ai]? | throw s!"node: atom {ai} not in pool"
  let did ← didOfJson a[2]!
  let kind ← optStr a[3]!
  let nmeta ← metaOfJson a[4]!
  let ks ← (← a[5]!.getArr?).toList.mapM (nodeOfJson pool)
  return .node { id, data := atom, did, kind, nmeta } ks

def forestOfJson (pool : Array Atom) (j : Json) : E (List T) := do
  (← j.getArr?).toList.mapM (nodeOfJson pool)

partial def nodeToJson (t : T) : Json :=
  .arr #[.num (JsonNumber.fromNat t.id), .num (JsonNumber.fromNat t.data.obj), didToJson t.did,
         (match t.kind with | none => .null | some k => .str k),
         metaToJson t.info.nmeta,
         .arr (t.kids.map nodeToJson).toArray]

def forestToJson (ts : List T) : Json := .arr (ts.map nodeToJson).toArray

def natList (j : Json) : E (List Nat) := do
  (← j.getArr?).toList.mapM (·.getNat?)

def idsJson (ts : List T) : Json := .arr (ts.map fun t => Json.num (JsonNumber.fromNat t.id)).toArray
def natsJson (ns : List Nat) : Json := .arr (ns.map fun (n : Nat) => Json.num (JsonNumber.fromNat n)).toArray

def optIntJson : Option Int → Json
  | none => .null
  | some i => .num (JsonNumber.fromInt i)

def optIntOfJson : Json → E (Option Int)
  | .null => .ok none
  | j => do return some (← j.getInt?)

/-- Driver state. -/
structure St where
  pool : Array Atom := #[]
  w : World := {}

def field (j : Json) (k : String) : E Json := j.getObjVal? k
def fieldD (j : Json) (k : String) (d : Json) : Json := (j.getObjVal? k).toOption.getD d

/-- start node: system root over the forest `t`, then `path`. -/
def startNode (st : St) (j : Json) : E T := do
  let tops ← forestOfJson st.pool (← field j "t")
  let path ← natList (fieldD j "path" (.arr #[]))
  match (mkRoot tops).sub path with
  | some n => return n
  | none => throw "bad path"

end Driver
