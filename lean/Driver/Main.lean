import Driver.Codec
import Driver.C06
import Driver.C09
import Driver.C10
import Driver.C11
import Driver.C15
import Driver.C16
import Driver.C17
import Driver.C18
import Driver.C19
import Driver.C20
import Driver.World
import Driver.Ser
import Driver.C08
open Lean Nutree Driver

def handlers : List (St → String → Json → Option (E Json)) := [handleC06, handleC09, handleC10, handleC11, handleC15, handleC16, handleC17, handleC18, handleC19, handleC20, handleSer]

def dispatch (st : St) (j : Json) : St × Json :=
  match j.getObjVal? "op" >>= Json.getStr? with
  | .error e => (st, Json.mkObj [("fail", .str e)])
  | .ok "pool" =>
    match (do let a ← (← field j "atoms").getArr?; a.toList.mapM atomOfJson : E (List Atom)) with
    | .ok l => ({ st with pool := l.toArray }, Json.mkObj [("ok", .num l.length)])
    | .error e => (st, Json.mkObj [("fail", .str e)])
  | .ok op =>
    match (handleWorld st op j).orElse (fun _ => handleC08 st op j) with
    | some (Except.ok (st', r)) => (st', r)
    | some (Except.error e) => (st, Json.mkObj [("fail", .str e)])
    | none =>
    let r : Option (E Json) := handlers.findSome? (fun h => h st op j)
    match r with
    | some (Except.ok r) => (st, r)
    | some (Except.error e) => (st, Json.mkObj [("fail", .str e)])
    | none => (st, Json.mkObj [("fail", .str s!"unknown op {op}")])

partial def loop (h out : IO.FS.Stream) (st : St) : IO Unit := do
  let line ← h.getLine
  if line.isEmpty then return ()
  match Json.parse line with
  | .ok j =>
    let (st', r) := dispatch st j
    out.putStrLn r.compress
    out.flush
    loop h out st'
  | .error e =>
    out.putStrLn (Json.mkObj [("fail", .str s!"parse: {e}")]).compress
    out.flush
    loop h out st

def main : IO Unit := do loop (← IO.getStdin) (← IO.getStdout) {}
