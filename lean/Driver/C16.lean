import Driver.Codec
import Nutree.Model.Format
import Nutree.Spec.Format
open Lean Nutree
namespace Driver
open Nutree.Fmt

def styleOfJson : Json → E StyleArg
  | .null => .ok .default
  | .str s => .ok (.name s)
  | .arr a => do return .custom (← a.toList.mapM (·.getStr?))
  | j => .error s!"style {j.compress}"

def titleOfJson : Json → E TitleArg
  | .null => .ok .default
  | .bool false => .ok .off
  | .bool true => .ok .on
  | .str s => .ok (.text s)
  | j => .error s!"title {j.compress}"

def renderOfJson (j : Json) : E (T → String) := do
  let obj ← j.getObj?
  let tbl ← obj.toList.mapM fun (k, v) => do
    let some id := k.toNat? | throw "render key"
    return (id, ← v.getStr?)
  return fun t => (tbl.lookup t.id).getD "?"

def linesJson : Option (List String) → Json
  | none => Json.mkObj [("err", .str "value")]
  | some ls => Json.mkObj [("ok", .arr (ls.map Json.str).toArray)]

def handleC16 (st : St) (op : String) (j : Json) : Option (E Json) :=
  match op with
  | "format" => some do
    let tops ← forestOfJson st.pool (← field j "t")
    let root := mkRoot tops
    let path ← natList (fieldD j "path" (.arr #[]))
    let some start := root.sub path | throw "bad path"
    let style ← styleOfJson (fieldD j "style" .null)
    let render ← renderOfJson (← field j "render")
    let join ← (fieldD j "join" (.str "\n")).getStr?
    let isTree ← (fieldD j "tree" (.bool false)).getBool?
    let fin : Option (List String) → Json := fun r => match r with
      | none => Json.mkObj [("err", .str "value")]
      | some ls => Json.mkObj [("ok", .str (joinLines join ls))]
    if isTree then
      let title ← titleOfJson (fieldD j "title" .null)
      let treeStr ← (fieldD j "treeStr" (.str "")).getStr?
      let m := treeFormatIter root treeStr render style title
      -- specification: title line, then the lines of the root branch
      let titleEff := match title with
        | .default => if style = StyleArg.name "list" then TitleArg.off else TitleArg.on
        | t => t
      let head := match titleEff with | .on => [treeStr] | .text s => if s == "" then [] else [s] | _ => []
      let s : Option (List String) :=
        if style = StyleArg.name "list" then
          some (head ++ ((if titleEff != .off then [root] else []) ++ T.flatL root.kids).map render)
        else match resolveStyle style with
          | none => none
          | some segs => (Spec.lines root root [] render segs (titleEff != .off)).map (head ++ ·)
      return Json.mkObj [("model", fin m), ("spec", fin s)]
    else
      let addSelf ← (fieldD j "self" (.bool true)).getBool?
      let m := formatIter root start render style addSelf
      let s : Option (List String) :=
        if style = StyleArg.name "list" then
          some (((if addSelf then [start] else []) ++ T.flatL start.kids).map render)
        else match resolveStyle style with
          | none => none
          | some segs => Spec.lines root start path render segs addSelf
      return Json.mkObj [("model", fin m), ("spec", fin s)]
  | _ => none

end Driver
