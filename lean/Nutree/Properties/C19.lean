/-
C19 — `load_tree_from_fs` mirrors the directory it scanned.

Model: Nutree/Model/Fs.lean (`scan sort listing`), vocabulary: Nutree/Spec/Fs.lean.
-/
import Nutree.Lemmas.FsScan
import Nutree.Lemmas.FsVisit
import Nutree.Generated.Tables
namespace Nutree.C19
open Nutree.Fs

/-- The model used in the theorems below (`scan`: turn every entry into its node, recursively,
then sort the nodes) computes the same forest as the literal transcription of `visit`
(`visit`: split into files and directories, sort both, add the files, add each directory and
recurse into it). -/
theorem visit_eq_scan (sort : Bool) (d : List Dir) : visit sort d = scan sort d :=
  visitFuel_eq_scan _ sort d (Nat.lt_succ_self _)

/-- For every `sort`: the scanned forest has exactly one node per file and sub-directory, at
the same depth, carrying name / directory flag / size / modification time (directories: size 0,
no time); nothing else is in the forest. -/
theorem scan_mirror (sort : Bool) (d : List Dir) : MirrorPerm d (scan sort d) :=
  (mirrorEach_scan sort d).of_perm (arrange_perm sort _).symm

/-- `sort=False`: the listing order is kept, at every level (structural equality). -/
theorem scan_unsorted (d : List Dir) : scan false d = d.map toFNode := by
  rw [scan, scanWith, arrange_false, scanEach_false, toFNodes_eq_map]

/-- `sort=True`: at every level all files precede all directories, the file names are
`Pairwise (· ≤ ·)` and the directory names are `Pairwise (· ≤ ·)`. -/
theorem scan_sorted (d : List Dir) : SortedForest (· ≤ ·) (scan true d) :=
  ⟨levelSorted_arrange _, sortedAll_of_perm (arrange_perm true _).symm (sortedAll_scan d)⟩

/-- … strictly increasing when the names within each folder are distinct (which a file
system guarantees). -/
theorem scan_sorted_strict (d : List Dir) (h : Distinct d) : SortedForest (· < ·) (scan true d) :=
  ⟨levelSorted_arrange_lt _ (by rw [map_name_scanEach]; exact h.1),
   sortedAll_of_perm (arrange_perm true _).symm (sortedAll_scan_lt d h.2)⟩

/-- `sort=True` makes the result independent of the order in which the OS lists the
entries (names within each folder distinct). -/
theorem scan_listing_invariant {d d' : List Dir} (hp : DirPerm d d') (hd : Distinct d) :
    scan true d' = scan true d :=
  (arrange_eq_of_perm (scanEach_listing hp hd.2) (by rw [map_name_scanEach]; exact hd.1)).symm

/-- The nodes built by the scan are well-formed entries: the payload is exactly
(name, flag, size, mtime) of the node. -/
theorem scan_entry (sort : Bool) (d : Dir) :
    (scanOne sort d).entry =
      ⟨(scanOne sort d).name, (scanOne sort d).isDir, (scanOne sort d).size, (scanOne sort d).mtime⟩ := by
  cases d <;> simp [scanOneWith, FNode.entry, Entry.mk', FNode.name, FNode.isDir, FNode.size, FNode.mtime]

/-! ### the FileSystemTree mappers -/

/-- `deserialize_mapper(serialize_mapper(node))` rebuilds the payload of every node. -/
theorem fs_mappers_inverse (n : FNode) : deserFS (serFS n) = some n.entry := by
  obtain ⟨name, d, s, m, ks⟩ := n
  cases d <;> cases m <;> simp [serFS, deserFS, FNode.entry, Entry.mk', List.lookup]

/-- The record of a directory has the keys n, d; of a file n, s, m. -/
theorem fs_keys (n : FNode) :
    (serFS n).map (·.1) = (if n.isDir then ["n", "d"] else ["n", "s", "m"]) := by
  obtain ⟨name, d, s, m, ks⟩ := n
  cases d <;> simp [serFS, FNode.isDir]

/-- `FileSystemTree.DEFAULT_KEY_MAP` is defined by the class itself (not inherited from `Tree`)
and is empty (regenerated from the source text on every run). -/
theorem fs_key_map_empty :
    Generated.fsTreeKeyMapInherited = false ∧ Generated.fsTreeDefaultKeyMap = [] := ⟨rfl, rfl⟩

/-- None of the mapper's keys is a reserved key (`data_id`, `str`, `kind`), none is a long or
a short key of the FileSystemTree key map. -/
theorem fs_keys_unreserved :
    ∀ k ∈ ["n", "d", "s", "m"], k ∉ reservedKeys
      ∧ k ∉ Generated.fsTreeDefaultKeyMap.map (·.1) ∧ k ∉ Generated.fsTreeDefaultKeyMap.map (·.2) := by
  decide

/-- Hence the key compression of `save` / `load` with the class's own key map leaves the
record alone and the payload survives. -/
theorem fs_mappers_inverse_keymap (n : FNode) :
    deserFS (uncompressKeys Generated.fsTreeDefaultKeyMap
      (compressKeys Generated.fsTreeDefaultKeyMap (serFS n))) = some n.entry := by
  have hc : ∀ r : Rec, compressKeys [] r = r := by
    intro r
    unfold compressKeys
    generalize r.map (·.1) = ks
    induction ks generalizing r with
    | nil => rfl
    | cons k ks ih => simpa [List.foldl, List.lookup] using ih r
  rw [fs_key_map_empty.2]
  simp only [uncompressKeys, List.reverse_nil, List.map_nil, hc]
  exact fs_mappers_inverse n

/-- The hazard the source comment "don't replace 's' with 'str'" is about: with `Tree`'s key
map (`str ↦ s`) the size key `s` of a file record is renamed to `str` on load, and the
mapper fails (KeyError). -/
theorem fs_tree_key_map_hazard (name : String) (s : Nat) (m : Option Int) (ks : List FNode) :
    deserFS (uncompressKeys [("data_id", "i"), ("str", "s")]
      (compressKeys [("data_id", "i"), ("str", "s")] (serFS (.node name false s m ks)))) = none := by
  cases m <;>
    simp [serFS, deserFS, uncompressKeys, compressKeys, renameKey, List.lookup, List.foldl]

/-! ### non-vacuity -/

/-- A three-level directory; listing order scrambled; names exercise the code-point order
`"B" < "Z" < "_" < "a" < "é"` and a space. -/
def exDir : List Dir :=
  [ .dir "a" [ .file "é" 3 30,
               .dir "_sub" [ .file "b" 0 50, .file "B" 7 40, .dir "empty" [] ],
               .file "B" 1 10, .file "_" 2 20, .file "a" 0 60 ],
    .file "é.txt" 5 70, .dir "B" [], .file "a 1" 9 80, .file "Z" 4 90 ]

/-- The same directory listed in another order. -/
def exDir' : List Dir :=
  [ .file "Z" 4 90, .dir "B" [],
    .dir "a" [ .file "a" 0 60, .file "é" 3 30, .file "_" 2 20,
               .dir "_sub" [ .dir "empty" [], .file "B" 7 40, .file "b" 0 50 ], .file "B" 1 10 ],
    .file "a 1" 9 80, .file "é.txt" 5 70 ]

def exSorted : List FNode :=
  [ .node "Z" false 4 (some 90) [], .node "a 1" false 9 (some 80) [], .node "é.txt" false 5 (some 70) [],
    .node "B" true 0 none [],
    .node "a" true 0 none
      [ .node "B" false 1 (some 10) [], .node "_" false 2 (some 20) [], .node "a" false 0 (some 60) [],
        .node "é" false 3 (some 30) [],
        .node "_sub" true 0 none
          [ .node "B" false 7 (some 40) [], .node "b" false 0 (some 50) [], .node "empty" true 0 none [] ] ] ]

example : "B" < "Z" ∧ "Z" < "_" ∧ "_" < "a" ∧ "a" < "a 1" ∧ "a" < "é" ∧ "B" < "b" := by decide

example : scan true exDir = exSorted := by rw [scan, sortByName_eq_isort_fun]; rfl
example : scan true exDir' = exSorted := by rw [scan, sortByName_eq_isort_fun]; rfl
example : scan false exDir = exDir.map toFNode := by rw [scan, sortByName_eq_isort_fun]; rfl
example : scan false exDir ≠ scan true exDir := by
  rw [scan, scan, sortByName_eq_isort_fun]; intro h; injection h with h; injection h with h
  simp at h

/-- the hypotheses of `scan_listing_invariant` / `scan_sorted_strict` are satisfiable -/
example : Distinct exDir := by
  simp [Distinct, DistinctAll, DistinctOne, exDir, Dir.name]

example : DirPerm exDir exDir' := by
  -- a ↦ position 2, é.txt ↦ last, B, a 1, Z
  refine DirPerm.cons (l₁ := [_, _]) (l₂ := [_, _]) (.dir "a" ?_) ?_
  · refine DirPerm.cons (l₁ := [_]) (l₂ := [_, _, _]) (.file ..) ?_
    refine DirPerm.cons (l₁ := [_, _]) (l₂ := [_]) (.dir "_sub" ?_) ?_
    · refine DirPerm.cons (l₁ := [_, _]) (l₂ := []) (.file ..) ?_
      refine DirPerm.cons (l₁ := [_]) (l₂ := []) (.file ..) ?_
      exact DirPerm.cons (l₁ := []) (l₂ := []) (.dir "empty" .nil) .nil
    · refine DirPerm.cons (l₁ := [_, _]) (l₂ := []) (.file ..) ?_
      refine DirPerm.cons (l₁ := [_]) (l₂ := []) (.file ..) ?_
      exact DirPerm.cons (l₁ := []) (l₂ := []) (.file ..) .nil
  · refine DirPerm.cons (l₁ := [_, _, _]) (l₂ := []) (.file ..) ?_
    refine DirPerm.cons (l₁ := [_]) (l₂ := [_]) (.dir "B" .nil) ?_
    refine DirPerm.cons (l₁ := [_]) (l₂ := []) (.file ..) ?_
    exact DirPerm.cons (l₁ := []) (l₂ := []) (.file ..) .nil

/-- `LevelSorted` is not trivially true: directories before files, or names out of order, fail. -/
example : ¬ LevelSorted (· ≤ ·) [.node "d" true 0 none [], .node "f" false 1 (some 1) []] := by
  simp [LevelSorted, FNode.isDir]
example : ¬ LevelSorted (· ≤ ·) [.node "a" false 0 (some 2) [], .node "B" false 1 (some 1) []] := by
  simp [LevelSorted, FNode.isDir, FNode.name]

example : deserFS (serFS (.node "é" false 3 (some 30) [])) = some ⟨"é", false, 3, some 30⟩ := by decide
example : deserFS (serFS (.node "d" true 0 none [])) = some ⟨"d", true, 0, none⟩ := by decide
/-- swapping the two numeric keys is not the identity -/
example : deserFS [("n", .str "x"), ("s", .int 30), ("m", .nat 3)] = none := by decide

end Nutree.C19
