/-
  C01 (continued) — `set_data`, `sort_children`, metadata edits keep the state well-formed;
  their effect (C02 re-keying, C04 for sort) and their refusals.
  Property theorems only; helper lemmas live in Nutree/Lemmas (WFSetData, WFSort).

  NOTE (`setData_WF`, `setData_rekeys`): the extra hypothesis `n ≠ 0` is necessary.  The model's
  `Tree.setData` (like `World.step`) does not exclude the system root: for
  `t1 := ({} : Tree).addData 1 0 a1 .none none none` the call `t1.setData 0 none (some (.int 5)) none`
  succeeds with `byData = [(hash a1, [1]), (.int 5, [0])]`, i.e. the system root gets registered and
  `wfB` fails (machine-checked: `setData_WF_root_counterexample`).  The public API never hands out the
  system root, so `n ≠ 0` is the intended domain.
-/
import Nutree.Properties.C01
import Nutree.Lemmas.WFSetData
import Nutree.Lemmas.WFSort
namespace Nutree.C01
open Nutree T

/-- `set_data` keeps the state well-formed.  (`hn` is an added hypothesis, see the note above.) -/
theorem setData_WF (t t' : Tree) (n : NodeId) (a? : Option Atom) (did? : Option DataId) (wc : Option Bool)
    (h : WF t) (hn : n ≠ 0) (hr : t.setData n a? did? wc = .ok t') : WF t' :=
  setData_WF_of_ne h hn hr

/-- one data node below the system root (for the counterexample below). -/
def cexTree : Tree :=
  { root := .node rootInfo [.node { id := 1, data := rootAtom, did := .int 11 } []],
    byId := [1], byData := [(.int 11, [1])] }

/-- the model's result of `set_data(data_id=5)` on the system root of `cexTree`. -/
def cexTree' : Tree :=
  { root := .node { id := 0, data := rootAtom, did := .int 5 } [.node { id := 1, data := rootAtom, did := .int 11 } []],
    byId := [1], byData := [(.int 11, [1]), (.int 5, [0])] }

/-- **The hypothesis `n ≠ 0` of `setData_WF` is necessary**: `set_data(data_id=5)` on the system root
of a well-formed one-node tree succeeds in the model and registers the system root under the new id. -/
theorem setData_WF_root_counterexample :
    ∃ t t' : Tree, WF t ∧ t.setData 0 none (some (.int 5)) none = .ok t' ∧ ¬ WF t' := by
  refine ⟨cexTree, cexTree', (wfB_iff _).1 (by decide), rfl, ?_⟩
  intro h
  exact absurd ((wfB_iff _).2 h) (by decide)

set_option linter.unusedVariables false in
/-- shape and identities are untouched: same node ids at the same positions -/
theorem setData_shape (t t' : Tree) (n : NodeId) (a? : Option Atom) (did? : Option DataId) (wc : Option Bool)
    (h : WF t) (hr : t.setData n a? did? wc = .ok t') :
    (T.flat t'.root).map T.id = (T.flat t.root).map T.id ∧ t'.byId = t.byId :=
  setData_ids hr

/-- C02: afterwards every affected node is listed under its new id and under no other; with
`newDid`: the id a node ends up with.  (`hn` is an added hypothesis, see the note above.) -/
theorem setData_rekeys (t t' : Tree) (n : NodeId) (a? : Option Atom) (did? : Option DataId) (wc : Option Bool)
    (x : T) (h : WF t) (hn : n ≠ 0) (hx : findT n t.root = some x)
    (hr : t.setData n a? did? wc = .ok t') :
    ∃ x', findT n t'.root = some x' ∧ x'.id = n ∧
      (∀ d, (∃ l, (d, l) ∈ t'.byData ∧ n ∈ l) ↔ d = x'.did) ∧
      (match did? with
       | some d => x'.did = d
       | none => match a? with
         | some a => (a.obj = x.data.obj ∧ x'.did = x.did) ∨ (a.obj ≠ x.data.obj ∧ t.calcId a = .ok x'.did)
         | none => x'.did = x.did) := by
  obtain ⟨x', hx', hid, hgiven, did1, hdid1, hdid⟩ := setData_find h hn hx hr
  refine ⟨x', hx', hid, fun d => (setData_WF_of_ne h hn hr).listed_iff_did hx' hn d, ?_⟩
  cases did? with
  | some d =>
    have : did1 = some d := by
      unfold sdDid1 at hdid1
      split at hdid1
      · rename_i hh; cases hh
      · cases hdid1; rfl
    rw [hdid, this]; rfl
  | none =>
    cases a? with
    | none => simp at hgiven
    | some a =>
      show (a.obj = x.data.obj ∧ x'.did = x.did) ∨ (a.obj ≠ x.data.obj ∧ t.calcId a = .ok x'.did)
      by_cases ho : a.obj = x.data.obj
      · refine Or.inl ⟨ho, ?_⟩
        have hnd : sdNewData x (some a) = none := by simp [sdNewData, ho]
        rw [hnd] at hdid1
        have : did1 = none := by cases hdid1; rfl
        rw [hdid, this]; rfl
      · refine Or.inr ⟨ho, ?_⟩
        have hnd : sdNewData x (some a) = some a := by simp [sdNewData, ho]
        rw [hnd] at hdid1
        have hm : (t.calcId a).map some = .ok did1 := hdid1
        cases hc : t.calcId a with
        | error e => rw [hc] at hm; cases hm
        | ok d0 =>
          rw [hc] at hm
          have : did1 = some d0 := by cases hm; rfl
          rw [hdid, this]; rfl

set_option linter.unusedVariables false in
/-- refusals: nothing given → ValueError; clones without decision → AmbiguousMatchError; new id used
by a sibling → uniqueness error -/
theorem setData_refusals (t : Tree) (n : NodeId) (x : T) (h : WF t) (hx : findT n t.root = some x) :
    (∀ wc, t.setData n none none wc = .error .value) ∧
    (∀ a? did?, (a?.isSome ∨ did?.isSome) → ((t.byData.lookup x.did).getD []).length > 1 →
        (∀ e : Err, ((match a?, did? with | some a, none => t.calcId a | _, _ => .ok x.did) : Except Err DataId) ≠ .error e) →
        t.setData n a? did? none = .error .ambiguous) ∧
    (∀ d par, d ≠ x.did → ((t.byData.lookup x.did).getD []).length ≤ 1 → findParent n t.root = some par →
        (∃ s ∈ par.kids, s.id ≠ n ∧ s.did = d) →
        ∀ wc, t.setData n none (some d) wc = .error .unique) := by
  refine ⟨fun wc => ?_, fun a? did? hgiven hlen hcalc => ?_, fun d par hd hlen hpar hs wc => ?_⟩
  · rw [setData_eq none none wc hx]; rfl
  · rw [setData_eq a? did? none hx]
    have h1 : ¬ (a?.isNone && did?.isNone) = true := by
      cases a? <;> cases did? <;> simp at hgiven ⊢
    rw [if_neg h1]
    have h2 : ∃ did1, sdDid1 t (sdNewData x a?) did? = .ok did1 := by
      cases a? with
      | none => exact ⟨did?, by cases did? <;> rfl⟩
      | some a =>
        cases did? with
        | some d => exact ⟨some d, by unfold sdDid1; split <;> first | rfl | (rename_i hh; cases hh)⟩
        | none =>
          by_cases ho : a.obj = x.data.obj
          · exact ⟨none, by simp [sdNewData, ho, sdDid1]⟩
          · cases hc : t.calcId a with
            | error e => exact absurd hc (hcalc e)
            | ok d0 => exact ⟨some d0, by simp [sdNewData, ho, sdDid1, hc, Except.map]⟩
    obtain ⟨did1, hdid1⟩ := h2
    rw [hdid1]
    have h3 : (decide ((sdCur t x).length > 1) && (none : Option Bool).isNone) = true := by
      simp only [Option.isNone_none, Bool.and_true, decide_eq_true_eq]; exact hlen
    simp only [h3, if_true]
  · rw [setData_eq none (some d) wc hx]
    have hlen' : decide ((sdCur t x).length > 1) = false := by
      rw [decide_eq_false_iff_not]; exact Nat.not_lt.2 hlen
    have hA : sdAffected t x n wc = [n] := by unfold sdAffected; rw [hlen']; rfl
    have hnd : sdNewDid x (some d) = some d := by unfold sdNewDid; simp [hd]
    obtain ⟨s, hs1, hs2, hs3⟩ := hs
    have hcl : sdClash t [n] d = true := sdClash_true (by simp) hpar hs1 hs2 hs3
    have : sdDid1 t (sdNewData x none) (some d) = .ok (some d) := rfl
    simp only [this, Option.isNone_none, Option.isNone_some, Bool.and_false, Bool.false_eq_true, if_false,
      hlen', Bool.false_and, hnd, hA, hcl, if_true]

/-- `sort_children` keeps the state well-formed (whatever the key function does). -/
theorem sort_WF (t : Tree) (n : NodeId) (key : KeyFn) (rev deep : Bool) (h : WF t) :
    WF (t.sort n key rev deep).1 := by
  cases hx : findT n t.root with
  | none => rw [sort_of_none key rev deep hx]; exact h
  | some x =>
    refine WF_rearr h hx (sortT_rearr key rev deep (x.height + 1) x) (sort_root key rev deep h.idsN hx) ?_ ?_
    · rw [sort_eq key rev deep hx]
    · rw [sort_eq key rev deep hx]

/-- C04 for sort: registries untouched; the children of the sorted node are a permutation of the
old children, ordered by key (≤, or ≥ when reversed), stably (it *is* the merge sort of the old list);
with `deep = false` the children's own branches are unchanged (the new children are the old child
values). -/
theorem sort_effect (t : Tree) (n : NodeId) (key : KeyFn) (rev : Bool) (x : T) (h : WF t)
    (hx : findT n t.root = some x) (hk : ∀ c ∈ x.kids, (key c).isSome) (h2 : 2 ≤ x.kids.length) :
    let t' := (t.sort n key rev false).1
    t'.byId = t.byId ∧ t'.byData = t.byData ∧
    ∃ x', findT n t'.root = some x' ∧ x'.kids.Perm x.kids ∧
      x'.kids.Pairwise (fun a b => if rev then (key b).getD "" ≤ (key a).getD "" else (key a).getD "" ≤ (key b).getD "") ∧
      x'.kids = x.kids.mergeSort (fun a b => if rev then decide ((key b).getD "" ≤ (key a).getD "") else decide ((key a).getD "" ≤ (key b).getD "")) := by
  intro t'
  have hroot : t'.root = modT n (fun _ => x.kids.mergeSort (sortLe key rev)) t.root := by
    show (t.sort n key rev false).1.root = _
    rw [sort_root key rev false h.idsN hx, sortT_shallow x.height hk h2]
    rfl
  refine ⟨by show (t.sort n key rev false).1.byId = _; rw [sort_eq key rev false hx],
    by show (t.sort n key rev false).1.byData = _; rw [sort_eq key rev false hx],
    .node x.info (x.kids.mergeSort (sortLe key rev)), by rw [hroot]; exact findT_modT_self_of hx,
    List.mergeSort_perm _ _, ?_, rfl⟩
  refine (List.pairwise_mergeSort (sortLe_trans key rev) (sortLe_total key rev) x.kids).imp ?_
  intro a b hab
  unfold sortLe at hab
  cases rev
  · simpa using hab
  · simpa using hab

/-- a raising key leaves everything unchanged and is reported. -/
theorem sort_key_fails (t : Tree) (n : NodeId) (key : KeyFn) (rev deep : Bool) (x : T) (h : WF t)
    (hx : findT n t.root = some x) (hk : ∃ c ∈ x.kids, key c = none) (h2 : 2 ≤ x.kids.length) :
    (t.sort n key rev deep) = (t, some .callback) ∨
      ((t.sort n key rev deep).2 = some .callback ∧
        ∃ x', findT n (t.sort n key rev deep).1.root = some x' ∧ x'.kids = x.kids) := by
  left
  rw [sort_eq key rev deep hx, sortT_fails x.height hk h2]
  have : replaceT n x t.root = t.root :=
    replaceT_self (fun y hy hyn => eq_of_id_eq h.idsN hy (findT_some_mem hx) (hyn.trans (findT_some_id hx).symm))
  simp only [this]
  rfl

/-- metadata edits keep the state well-formed. -/
theorem setMeta_WF (t : Tree) (n : NodeId) (m : Option (List (String × String))) (h : WF t) :
    WF { t with root := setInfoT n (fun inf => { inf with nmeta := m }) t.root } := by
  refine WF_relabel_frame (F := fun i => if i.id = n then { i with nmeta := m } else i) h ?_ ?_
    (setInfoT_eq_mapInfoT h.idsN) rfl rfl
  · intro i; split <;> rfl
  · intro i; split <;> rfl

/-- `set_data` and `sort_children` create no identities: the id counter stays fresh. -/
theorem data_sort_Fresh (t : Tree) (next : NodeId) (hf : Fresh t next) :
    (∀ n a d w t', t.setData n a d w = .ok t' → Fresh t' next) ∧ (∀ n k r d, Fresh (t.sort n k r d).1 next) := by
  refine ⟨fun n a d w t' hr => ⟨hf.1, fun x hx => ?_⟩, fun n k r d => ⟨hf.1, fun x hx => ?_⟩⟩
  · have : x.id ∈ (T.flat t.root).map T.id := by
      rw [← (setData_ids hr).1]; exact mem_ids.2 ⟨x, hx, rfl⟩
    obtain ⟨y, hy, hyx⟩ := mem_ids.1 this
    rw [← hyx]; exact hf.2 y hy
  · obtain ⟨y, hy, hyx⟩ := mem_ids.1 (ids_sort_subset (mem_ids.2 ⟨x, hx, rfl⟩))
    rw [← hyx]; exact hf.2 y hy

end Nutree.C01
