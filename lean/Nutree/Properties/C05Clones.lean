/-
  C05 — clone groups survive the round trip (corollary of `C05.load_save` and of the exactness of the
  data-id index, `C02.findAll_exact`): the loaded tree lists, under every data id, exactly as many
  nodes as the saved forest carried under it, at the same pre-order positions.
-/
import Nutree.Properties.C05
import Nutree.Properties.C02
namespace Nutree.C05
open Nutree T Nutree.Ser Nutree.Flt.Spec Nutree.Search

mutual
/-- the data ids of a shape, in pre-order -/
def didsSh : Sh → List DataId
  | .node _ d _ ks => d :: didsShL ks
def didsShL : List Sh → List DataId
  | [] => []
  | s :: ss => didsSh s ++ didsShL ss
end

mutual
theorem dids_shT : (t : T) → (flat t).map T.did = didsSh (shT t)
  | .node i ks => by
    rw [flat, shT, didsSh, List.map_cons, dids_shL ks]
    rfl
theorem dids_shL : (ts : List T) → (flatL ts).map T.did = didsShL (shL ts)
  | [] => by simp [flatL, shL, didsShL]
  | t :: ts => by
    rw [flatL, shL, didsShL, List.map_append, dids_shT t, dids_shL ts]
end

/-- equal shapes carry the same data ids at the same pre-order positions -/
theorem dids_of_shL_eq {a b : List T} (h : shL a = shL b) :
    (flatL a).map T.did = (flatL b).map T.did := by
  rw [dids_shL, dids_shL, h]

/-- in a well-formed state, `find_all(data_id=d)` has as many results as there are reachable nodes with
that id (the index lists each of them once). -/
theorem findAll_length (t : Tree) (h : WF t) (d : DataId) :
    (treeFindAllId (C02.indexOf t) d none).length
      = (((flatL t.root.kids).map T.did).filter (fun x => x == d)).length := by
  have hnd := C02.findAll_nodup t h d
  have hflat : ((flatL t.root.kids).map T.id).Nodup := by
    have := h.ids
    unfold IdsNodup at this
    rw [Nutree.flat_eq, List.map_cons] at this
    exact (List.nodup_cons.1 this).2
  have hF : (((flatL t.root.kids).filter (fun x => x.did == d)).map T.id).Nodup :=
    (List.filter_sublist.map T.id).nodup hflat
  have hperm : ((treeFindAllId (C02.indexOf t) d none).map T.id).Perm
      (((flatL t.root.kids).filter (fun x => x.did == d)).map T.id) := by
    refine (List.perm_ext_iff_of_nodup hnd hF).2 (fun n => ?_)
    simp only [List.mem_map, List.mem_filter, beq_iff_eq]
    constructor
    · rintro ⟨x, hx, rfl⟩
      exact ⟨x, (C02.findAll_exact t h d x).1 hx, rfl⟩
    · rintro ⟨x, hx, rfl⟩
      exact ⟨x, (C02.findAll_exact t h d x).2 hx, rfl⟩
  have hl := hperm.length_eq
  rw [List.length_map, List.length_map] at hl
  rw [hl, List.filter_map, List.length_map]
  rfl

/-- R4. **Clone groups survive `load ∘ save`.**  Under the hypotheses of `load_save`: the loaded tree
carries the same data ids at the same pre-order positions as the saved forest; hence, for every data id
`d`, `find_all(data_id=d)` on the loaded tree has exactly as many results as the saved forest had nodes
with that id (a group of k clones is a group of k clones again, a single node stays single), and the
loaded tree has as many distinct ids (`count_unique`) as the saved forest. -/
theorem load_save_clone_groups (typed : Bool) (strAtom : String → Atom) (deser : Fields → DRes)
    (ser : T → Fields → Option Fields) (o : Opts) (tops : List T) (doc : JVal)
    (hser : ∀ n ∈ flatL tops, ∀ d, makeEntry typed n = .dict d →
      deser ((ser n d).getD d) = DRes.atom n.data ∧
      lookupF ((ser n d).getD d) "data_id" = lookupF d "data_id" ∧
      (typed = true → lookupF ((ser n d).getD d) "kind" = lookupF d "kind"))
    (hstr : ∀ n ∈ flatL tops, n.data.isStr = true → strAtom n.name = n.data)
    (hkind : ∀ n ∈ flatL tops, n.kind.isSome = typed)
    (htop : (tops.map T.did).Nodup) (hsib : ∀ x ∈ flatL tops, (x.kids.map T.did).Nodup)
    (hclone : DataById (flatL tops))
    (hvalid : ValidFor typed o ser tops) (hmeta : MetaOK o)
    (hs : saveJ typed o ser tops = some doc) :
    ∃ t', loadJ typed strAtom deser doc = .ok (t', header o) ∧
      (flatL t'.root.kids).map T.did = (flatL tops).map T.did ∧
      (∀ d, (treeFindAllId (C02.indexOf t') d none).length
              = (((flatL tops).map T.did).filter (fun x => x == d)).length) ∧
      t'.byData.length = ((flatL tops).map T.did).eraseDups.length := by
  obtain ⟨t', h1, h2, h3⟩ := load_save typed strAtom deser ser o tops doc hser hstr hkind htop hsib hclone hvalid hmeta hs
  have hd := dids_of_shL_eq h2
  refine ⟨t', h1, hd, fun d => ?_, ?_⟩
  · rw [findAll_length t' h3 d, hd]
  · rw [C02.countUnique_eq t' h3, hd]

end Nutree.C05
