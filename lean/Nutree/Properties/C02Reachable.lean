/-
  C02 for every history: the theorems of `Properties/C02.lean` take well-formedness (`WF`) as hypothesis;
  `C01.C01_main` proves it for every state reachable from the empty world by ANY sequence of operations
  (valid or not, refused or not, with failing callbacks).  Here the two are put together, so that the
  statements quantify over operation histories, as the property does, with no invariant left to assume.
-/
import Nutree.Properties.C02
import Nutree.Properties.C01Main
namespace Nutree.C02
open Nutree T Nutree.Search

/-- every tree of every reachable state is well-formed (`C01_main`, unpacked). -/
theorem wf_of_reachable (ops : List Op) (t : Tree) (ht : t ∈ (World.run ops).trees) : WF t :=
  ((C01.C01_main ops).2 t ht).1

/-- **after any history**, `find_all(data_id=d)` returns exactly the nodes now in the tree that carry
`d`, each once; `find_first` returns one of them and `None` iff there is none; `d in tree` iff there is
one. -/
theorem queries_exact_after_any_history (ops : List Op) (t : Tree) (ht : t ∈ (World.run ops).trees) (d : DataId) :
    (∀ x, x ∈ treeFindAllId (indexOf t) d none ↔ (x ∈ T.flatL t.root.kids ∧ x.did = d)) ∧
    ((treeFindAllId (indexOf t) d none).map T.id).Nodup ∧
    (∀ x, treeFindFirstId (indexOf t) d = some x → x ∈ T.flatL t.root.kids ∧ x.did = d) ∧
    (treeFindFirstId (indexOf t) d = none ↔ ∀ x ∈ T.flatL t.root.kids, x.did ≠ d) ∧
    (contains (indexOf t) d = true ↔ ∃ x ∈ T.flatL t.root.kids, x.did = d) := by
  have h := wf_of_reachable ops t ht
  exact ⟨findAll_exact t h d, findAll_nodup t h d, (findFirst_exact t h d).1, (findFirst_exact t h d).2,
    contains_iff t h d⟩

/-- **after any history**, the clone queries of a node of the tree (`get_clones`, `is_clone`) name exactly
the other nodes with its data id, and the two counters are the number of nodes and of distinct ids. -/
theorem clones_and_counts_after_any_history (ops : List Op) (t : Tree) (ht : t ∈ (World.run ops).trees) :
    (∀ x ∈ T.flatL t.root.kids,
      (∀ y, y ∈ (treeFindAllId (indexOf t) x.did none).filter (fun y => y.id != x.id) ↔
          (y ∈ T.flatL t.root.kids ∧ y.did = x.did ∧ y.id ≠ x.id)) ∧
      (decide ((treeFindAllId (indexOf t) x.did none).length > 1) = true ↔
          ∃ y ∈ T.flatL t.root.kids, y.did = x.did ∧ y.id ≠ x.id)) ∧
    t.byId.length = (T.flatL t.root.kids).length ∧
    t.byData.length = ((T.flatL t.root.kids).map T.did).eraseDups.length := by
  have h := wf_of_reachable ops t ht
  exact ⟨fun x hx => clones_exact t h x hx, count_eq t h, countUnique_eq t h⟩

private def mk (i : Nat) (s : String) : Atom := { obj := i, eqc := i, hid := .int i, truthy := true, isStr := false, name := s }

/-- non-vacuity: a history with a clone pair, re-keyed by `set_data` with clones: the reached tree has three
nodes, `find_all` of the new id returns the two clones. -/
example :
    let ops : List Op := [.newTree false none,
      .add 0 0 (mk 1 "A") .none none none,
      .add 0 1 (mk 3 "c") .none none none,
      .add 0 0 (mk 3 "c") .none none none,
      .setData 0 2 none (some (.int 77)) (some true) false]
    ∃ t ∈ (World.run ops).trees, (T.flatL t.root.kids).length = 3 ∧
      ((treeFindAllId (indexOf t) (.int 77) none).map T.id) = [2, 3] := by
  decide +kernel

end Nutree.C02
