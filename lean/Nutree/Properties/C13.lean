/-
  C13 — Refused or failing operations do not corrupt the tree.
  Property theorems only; helper lemmas live in Nutree/Lemmas.
-/
import Nutree.Model.Ops
import Nutree.Spec.WF
namespace Nutree.C13
open Nutree T

/-- A refused `move_to` returns no new state: the operation is atomic in the model
(`Except` has no state component); typed trees refuse every move. -/
theorem move_typed_refused (t : Tree) (n p : NodeId) (b : Before) (h : t.typed = true) :
    t.moveTo n p b = .error .notImplemented := by
  simp [Tree.moveTo, h]

/-! ### stale references: calls that address a node which is not (or no longer) in the tree

A node that was removed (by `remove`, `remove_children`, `clear`, `filter`, `del`) is not found by `findT`
any more (`C01.*_gone`).  Every entry point of the model that is handed such an identity — as the node to move, remove or
re-key, or as the parent to add below — refuses and returns no new state. -/

theorem stale_move_refused (t : Tree) (n p : NodeId) (b : Before) (h : findT n t.root = none) :
    ∃ e, t.moveTo n p b = .error e := by
  unfold Tree.moveTo
  split
  · exact ⟨_, rfl⟩
  · simp only [h]
    exact ⟨_, rfl⟩

theorem stale_move_target_refused (t : Tree) (n p : NodeId) (b : Before) (h : findT p t.root = none) :
    ∃ e, t.moveTo n p b = .error e := by
  unfold Tree.moveTo
  split
  · exact ⟨_, rfl⟩
  · simp only [h]
    split <;> first | exact ⟨_, rfl⟩ | (rename_i h1 h2 h3; cases h3)

theorem stale_remove_refused (t : Tree) (n : NodeId) (keep clones : Bool) (h : findT n t.root = none) :
    t.remove n keep clones = (t, some .other) := by
  simp [Tree.remove, h]

theorem stale_setData_refused (t : Tree) (n : NodeId) (a : Option Atom) (d : Option DataId) (wc : Option Bool)
    (h : findT n t.root = none) : t.setData n a d wc = .error .other := by
  simp [Tree.setData, h]

theorem stale_parent_refused (t : Tree) (next p : NodeId) (a : Atom) (b : Before) (d : Option DataId) (k : Option String)
    (h : findT p t.root = none) : t.addData next p a b d k = .error .other := by
  simp [Tree.addData, h]

end Nutree.C13
