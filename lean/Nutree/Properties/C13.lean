/-
  C13 — Refused or failing operations do not corrupt the tree.
  Property theorems only; helper lemmas live in Nutree/Lemmas.
-/
import Nutree.Model.Ops
import Nutree.Spec.WF
namespace Nutree.C13
open Nutree T

/-- A refused `move_to` returns no new state: the operation is atomic in the model
(`Except` has no state component); typed trees refuse every move. -/
theorem move_typed_refused (t : Tree) (n p : NodeId) (b : Before) (h : t.typed = true) :
    t.moveTo n p b = .error .notImplemented := by
  simp [Tree.moveTo, h]

end Nutree.C13
