/-
  C20 — `build_random_tree` produces a tree that conforms to its structure definition.

  Every theorem is universally quantified over the structure definition `d`, the tree class
  (`typed`), the recursion bound `fuel` and — this is "for all random seeds" — the draw stream `ds`:
  whenever the model of `build_random_tree` (Model/Generator.lean) returns a forest, that forest
  satisfies the statement.  The statements are written with the vocabulary of Spec/Gen.lean
  (`Conforms`, `InRange`, `AttrsOK`, `CountOK`, `ForestAll`).
-/
import Nutree.Lemmas.GenAll
namespace Nutree
namespace C20
open Nutree.Gen

variable {d : Def} {typed : Bool} {fuel : Nat} {ds rest : List Draw} {forest : List GNode}

/-- The generated forest conforms to the structure definition: below every parent the children
come in one group per relation (in the order of the relations), the group size is admitted by
`:count`, the `i`-th member (1-based) of a group has the node type of the relation, the kind of a
typed tree, and node data = merged spec (`*` defaults, type defaults, relation spec) without the
`:`-entries, randomizers resolved within their ranges (or dropped), macros `{idx}` = `i` and
`{hier_idx}` = dotted path of the indices expanded; it has children iff its type has relations. -/
theorem conforms_attrs (h : build d typed fuel ds = some (forest, rest)) :
    Conforms d typed forest := by
  have := makeTree_conf d typed fuel "__root__" [] ds forest rest
  rw [hierIdx_nil] at this
  exact this h

/-- Every child's node type is a key of `relations[parent type]`. -/
theorem conforms_types (h : build d typed fuel ds = some (forest, rest)) :
    ForestAll (fun pt ks => ∀ k ∈ ks, ∃ rels, lookup pt d.relations = some rels ∧
      k.type ∈ rels.map Prod.fst) forest := by
  refine conf_forestAll ?_ ?_ (conforms_attrs h)
  · intro pt path ks hc k hk
    obtain ⟨rels, hl, hr⟩ := kids_facts hc
    obtain ⟨spec, hm, _⟩ := (rels_facts hr).2 k hk
    exact ⟨rels, hl, List.mem_map_of_mem (f := Prod.fst) hm⟩
  · intro ty _ k hk
    simp at hk

/-- Children are grouped by relation, in the order of the relations:
the type sequence of the children is `r₁ × n₁ ++ r₂ × n₂ ++ …`; a node whose type has no relations
has no children.  (Within a group the members are numbered `1 … n` in order: `conforms_attrs`,
`Gen.group_idx`.) -/
theorem children_order (h : build d typed fuel ds = some (forest, rest)) :
    ForestAll (fun pt ks =>
      (∀ rels, lookup pt d.relations = some rels →
        ∃ counts, counts.length = rels.length ∧ ks.map GNode.type = groupedTypes rels counts) ∧
      (lookup pt d.relations = none → ks = [])) forest := by
  refine conf_forestAll ?_ ?_ (conforms_attrs h)
  · intro pt path ks hc
    obtain ⟨rels, hl, hr⟩ := kids_facts hc
    obtain ⟨⟨counts, hco, ht⟩, _⟩ := rels_facts hr
    refine ⟨?_, ?_⟩
    · intro rels' hl'
      rw [hl] at hl'
      cases hl'
      exact ⟨counts, countsOK_length hco, ht⟩
    · intro hn
      rw [hl] at hn
      cases hn
  · intro ty hf
    refine ⟨fun rels hl => ?_, fun _ => rfl⟩
    simp [hasRel, hl] at hf

/-- Per parent and relation, in relation order: the number `nⱼ` of children created for the `j`-th
relation is admitted by its `:count` (`CountOK`): 1 without `:count`, the constant, or the count
value of a value in the randomizer's range (see `count_range`). -/
theorem conforms_counts (h : build d typed fuel ds = some (forest, rest)) :
    ForestAll (fun pt ks => ∀ rels, lookup pt d.relations = some rels →
      ∃ counts, CountsOK d rels counts ∧ ks.map GNode.type = groupedTypes rels counts) forest := by
  refine conf_forestAll ?_ ?_ (conforms_attrs h)
  · intro pt path ks hc rels' hl'
    obtain ⟨rels, hl, hr⟩ := kids_facts hc
    obtain ⟨⟨counts, hco, ht⟩, _⟩ := rels_facts hr
    rw [hl] at hl'
    cases hl'
    exact ⟨counts, hco, ht⟩
  · intro ty hf rels hl
    simp [hasRel, hl] at hf

/-- With unique relation keys (a Python dict), `nⱼ` is the number of children whose type is the
`j`-th relation's, and it is admitted by that relation's `:count`. -/
theorem count_by_type {rels : List (String × Spec)} {counts : List Nat} {ks : List GNode}
    (hnd : (rels.map Prod.fst).Nodup) (hco : CountsOK d rels counts)
    (ht : ks.map GNode.type = groupedTypes rels counts)
    (j : Nat) (r : String × Spec) (hr : rels[j]? = some r) :
    CountOK (countSpec (mergeSpecs r.1 r.2 d.types)) ((ks.map GNode.type).count r.1) := by
  have hlen := countsOK_length hco
  have hj : j < counts.length := by
    rw [hlen]
    exact (List.getElem?_eq_some_iff.mp hr).1
  have hn : counts[j]? = some counts[j] := List.getElem?_eq_getElem hj
  rw [ht, groupedTypes_count hnd hlen j r _ hr hn]
  exact countsOK_get hco j r _ hr hn

/-- A `RangeRandomizer(lo, hi)` count without `none_value`: the group size is 0 (skipped, only if
the probability is not 1.0) or the drawn `i` with `lo ≤ i < hi` (`randrange`: `hi` exclusive). -/
theorem count_range {lo hi : Int} {p : Prob} {n : Nat}
    (h : CountOK (some (.rnd (.rangeInt lo hi p .none))) n) :
    (∃ i : Int, lo ≤ i ∧ i < hi ∧ n = i.toNat) ∨ (p.isOne = false ∧ n = 0) := by
  obtain ⟨v, hin, hc⟩ := h
  simp only [InRange] at hin
  rcases hin with ⟨i, rfl, h1, h2⟩ | ⟨hp, rfl⟩
  · simp [countOf] at hc
    exact Or.inl ⟨i, h1, h2, hc.symm⟩
  · simp [countOf] at hc
    exact Or.inr ⟨hp, hc.symm⟩

/-- A constant int `:count`. -/
theorem count_fixed {c : Int} {n : Nat} (h : CountOK (some (.const (.int c))) n) : n = c.toNat := by
  simp [CountOK, countOf] at h
  exact h.symm

/-- Every item `(a, v)` of every node's data stems from an entry `(a, sv)` of the merged spec of a
relation of the parent's type for the node's type; `v` is the constant (macros expanded) or a
non-`None` value in the range of the randomizer (macros expanded). -/
theorem values_in_range (h : build d typed fuel ds = some (forest, rest)) :
    ForestAll (fun pt ks => ∀ k ∈ ks, ∃ rels spec, lookup pt d.relations = some rels ∧
      (k.type, spec) ∈ rels ∧
      ∀ a v, (a, v) ∈ k.attrs →
        ∃ sv, (a, sv) ∈ attrSpec (mergeSpecs k.type spec d.types) ∧ AttrValOK sv v) forest := by
  refine conf_forestAll ?_ ?_ (conforms_attrs h)
  · intro pt path ks hc k hk
    obtain ⟨rels, hl, hr⟩ := kids_facts hc
    obtain ⟨spec, hm, _, _, idx, hier, ha⟩ := (rels_facts hr).2 k hk
    exact ⟨rels, spec, hl, hm, attrsOK_mem ha⟩
  · intro ty _ k hk
    simp at hk

/-- int range: `lo ≤ i < hi` -/
theorem range_int_value {lo hi : Int} {p : Prob} {v : Val}
    (h : AttrValOK (.rnd (.rangeInt lo hi p .none)) v) : ∃ i, v = .int i ∧ lo ≤ i ∧ i < hi := by
  obtain ⟨raw, hin, hne, idx, hier, hv⟩ := h
  simp only [InRange] at hin
  rcases hin with ⟨i, rfl, h1, h2⟩ | ⟨_, rfl⟩
  · simp [fmtVal] at hv
    exact ⟨i, hv.symm, h1, h2⟩
  · exact absurd rfl hne

/-- sample: the value is an element of the list with its macros expanded -/
theorem sample_value {vs : List Val} {cs : Option (List Nat)} {p : Prob} {v : Val}
    (h : AttrValOK (.rnd (.sample vs cs p)) v) :
    ∃ x ∈ vs, ∃ idx hier, fmtVal idx hier x = some v := by
  obtain ⟨raw, hin, hne, idx, hier, hv⟩ := h
  simp only [InRange] at hin
  rcases hin with ⟨i, hi, _⟩ | ⟨_, rfl⟩
  · exact ⟨raw, List.mem_of_getElem? hi, idx, hier, hv⟩
  · exact absurd rfl hne

/-- sparse bool: `True` (or absent) -/
theorem sparse_bool_value {p : Prob} {v : Val} (h : AttrValOK (.rnd (.sparseBool p)) v) :
    v = .bool true := by
  obtain ⟨raw, hin, hne, idx, hier, hv⟩ := h
  simp only [InRange] at hin
  rcases hin with rfl | ⟨_, rfl⟩
  · simp [fmtVal] at hv
    exact hv.symm
  · exact absurd rfl hne

/-- `ValueRandomizer`: the fixed value with its macros expanded (or absent) -/
theorem fixed_value {x : Val} {p : Prob} {v : Val} (h : AttrValOK (.rnd (.value x p)) v) :
    ∃ idx hier, fmtVal idx hier x = some v := by
  obtain ⟨raw, hin, hne, idx, hier, hv⟩ := h
  simp only [InRange] at hin
  rcases hin with rfl | ⟨_, rfl⟩
  · exact ⟨idx, hier, hv⟩
  · exact absurd rfl hne

/-- date range: `min_dt + r` days with `0 ≤ r < delta_days`; as a JS stamp the value is midnight UTC
of the day *after* that date (so it lies in `(stamp min_dt, stamp max_dt]`). -/
theorem date_value {lo delta : Int} {stamp : Bool} {p : Prob} {v : Val}
    (h : AttrValOK (.rnd (.dateRange lo delta stamp p)) v) :
    ∃ r, 0 ≤ r ∧ r < delta ∧
      v = if stamp then .flt (stampOfDay (lo + r + 1)) 1 else .date (lo + r) := by
  obtain ⟨raw, hin, hne, idx, hier, hv⟩ := h
  simp only [InRange] at hin
  rcases hin with ⟨r, h0, h1, rfl⟩ | ⟨_, rfl⟩
  · refine ⟨r, h0, h1, ?_⟩
    cases stamp <;> simp [fmtVal] at hv ⊢ <;> exact hv.symm
  · exact absurd rfl hne

/-- No item of the node data that stems from a randomizer is `None`: a randomizer that was skipped
(returned `None`) leaves no entry. -/
theorem skipped_absent (h : build d typed fuel ds = some (forest, rest)) :
    ForestAll (fun pt ks => ∀ k ∈ ks, ∃ rels spec, lookup pt d.relations = some rels ∧
      (k.type, spec) ∈ rels ∧
      ∀ a v, (a, v) ∈ k.attrs →
        ∃ sv, (a, sv) ∈ attrSpec (mergeSpecs k.type spec d.types) ∧
          (∀ r, sv = .rnd r → v ≠ .none)) forest := by
  refine conf_forestAll ?_ ?_ (conforms_attrs h)
  · intro pt path ks hc k hk
    obtain ⟨rels, hl, hr⟩ := kids_facts hc
    obtain ⟨spec, hm, _, _, idx, hier, ha⟩ := (rels_facts hr).2 k hk
    refine ⟨rels, spec, hl, hm, ?_⟩
    intro a v hav
    obtain ⟨sv, hs, hok⟩ := attrsOK_mem ha a v hav
    refine ⟨sv, hs, ?_⟩
    intro r hr'
    subst hr'
    exact attrValOK_rnd_ne_none hok
  · intro ty _ k hk
    simp at hk

/-- The step of `_resolve_random_dict`: when the randomizer of key `k` returns `None`, the key is
dropped — the resulting dict is the one of the remaining entries, and it does not contain `k`
(keys of a dict are unique). -/
theorem skipped_absent_step {idx : Nat} {hier : String} {k : String} {r : RSpec} {body : Spec}
    {ds ds1 ds' : List Draw} {attrs : Attrs}
    (hr : resolve r ds = some (.none, ds1))
    (h : resolveDict idx hier ((k, .rnd r) :: body) ds = some (attrs, ds'))
    (huniq : k ∉ body.map Prod.fst) :
    resolveDict idx hier body ds1 = some (attrs, ds') ∧ k ∉ attrs.map Prod.fst := by
  rw [resolveDict_skip hr] at h
  refine ⟨h, ?_⟩
  intro hk
  exact huniq ((attrsOK_keys (resolveDict_attrsOK _ _ _ _ _ _ h)).subset hk)

/-- The keys of every node's data appear in the order of the merged spec (some may be missing). -/
theorem attrs_order (h : build d typed fuel ds = some (forest, rest)) :
    ForestAll (fun pt ks => ∀ k ∈ ks, ∃ rels spec, lookup pt d.relations = some rels ∧
      (k.type, spec) ∈ rels ∧
      (k.attrs.map Prod.fst).Sublist
        ((attrSpec (mergeSpecs k.type spec d.types)).map Prod.fst)) forest := by
  refine conf_forestAll ?_ ?_ (conforms_attrs h)
  · intro pt path ks hc k hk
    obtain ⟨rels, hl, hr⟩ := kids_facts hc
    obtain ⟨spec, hm, _, _, idx, hier, ha⟩ := (rels_facts hr).2 k hk
    exact ⟨rels, spec, hl, hm, attrsOK_keys ha⟩
  · intro ty _ k hk
    simp at hk

/-- Typed trees carry the type name as the node kind; plain trees have no kind. -/
theorem typed_kind (h : build d typed fuel ds = some (forest, rest)) :
    ForestAll (fun _ ks => ∀ k ∈ ks, k.kind = if typed then some k.type else none) forest := by
  refine conf_forestAll ?_ ?_ (conforms_attrs h)
  · intro pt path ks hc k hk
    obtain ⟨rels, hl, hr⟩ := kids_facts hc
    obtain ⟨spec, _, _, hkind, _⟩ := (rels_facts hr).2 k hk
    exact hkind
  · intro ty _ k hk
    simp at hk

/-- The merge order of `_merge_specs`: the relation spec wins over the type defaults, which win
over the `*` defaults. -/
theorem merge_priority (ntype : String) (spec : Spec) (types : List (String × Spec)) (key : String)
    (hspec : (spec.map Prod.fst).Nodup)
    (htype : (((lookup ntype types).getD []).map Prod.fst).Nodup) :
    lookup key (mergeSpecs ntype spec types) =
      ((lookup key spec).orElse fun _ =>
        (lookup key ((lookup ntype types).getD [])).orElse fun _ =>
          lookup key ((lookup "*" types).getD [])) := by
  unfold mergeSpecs
  rw [lookup_update key _ _ hspec, lookup_update key _ _ htype]

/-- The sibling index: the `j`-th member (0-based) of a relation group that starts at index `i`
(`i = 1` for the groups of `Conforms`) has node data for `{idx}` = `i + j` and
`{hier_idx}` = the parent's dotted path extended by `i + j`. -/
theorem idx_in_group {ntype : String} {body : Spec} {path : List Nat} {i n : Nat} {g : List GNode}
    (h : Conf d typed (.group ntype body path i n) g) (j : Nat) (k : GNode) (hk : g[j]? = some k) :
    AttrsOK (i + j) (hierIdx (path ++ [i + j])) body k.attrs :=
  group_idx h j k hk

/-- The recursion bound is immaterial: more fuel gives the same forest and the same unused draws. -/
theorem fuel_irrelevant {fuel' : Nat} {r : List GNode × List Draw}
    (h : build d typed fuel ds = some r) (hle : fuel ≤ fuel') : build d typed fuel' ds = some r :=
  makeTree_mono d typed hle _ _ _ _ h

/-! ### non-vacuity: a concrete two-level definition and draw stream -/

private def half : Prob := ⟨1, 2⟩
private def one : Prob := ⟨1, 1⟩

/-- ```
{"types": {"*": {"g": "G{hier_idx}"}, "a": {"icon": "x"}},
 "relations": {
   "__root__": {"a": {":count": 2, "n": RangeRandomizer(0, 10), "sb": SparseBoolRandomizer(probability=0.5)}},
   "a": {"b": {":count": RangeRandomizer(0, 3, probability=0.5), "k": "{idx}/{hier_idx}"}}}}
``` -/
private def exDef : Def := {
  types := [("*", [("g", .const (.str "G{hier_idx}"))]), ("a", [("icon", .const (.str "x"))])],
  relations := [
    ("__root__", [("a", [(":count", .const (.int 2)), ("n", .rnd (.rangeInt 0 10 one .none)),
                         ("sb", .rnd (.sparseBool half))])]),
    ("a", [("b", [(":count", .rnd (.rangeInt 0 3 half .none)),
                  ("k", .const (.str "{idx}/{hier_idx}"))])])] }

private def exDraws : List Draw :=
  [.randrange 0 10 7, .rand ⟨3, 4⟩, .rand ⟨3, 4⟩,
   .randrange 0 10 2, .rand ⟨1, 4⟩, .rand ⟨1, 4⟩, .randrange 0 3 2]

private def exForest : List GNode :=
  [.mk "a" (some "a") [("g", .str "G1"), ("icon", .str "x"), ("n", .int 7)] [],
   .mk "a" (some "a") [("g", .str "G2"), ("icon", .str "x"), ("n", .int 2), ("sb", .bool true)]
     [.mk "b" (some "b") [("g", .str "G2.1"), ("k", .str "1/2.1")] [],
      .mk "b" (some "b") [("g", .str "G2.2"), ("k", .str "2/2.2")] []]]

/-- the model builds the expected typed tree and consumes the whole stream -/
example : build exDef true 3 exDraws = some (exForest, []) := rfl

example : Conforms exDef true exForest :=
  conforms_attrs (fuel := 3) (ds := exDraws) (rest := []) rfl

/-- an inadmissible stream (`randrange(0, 10)` "returning" 10) is rejected -/
example : build exDef true 3 (.randrange 0 10 10 :: exDraws.tail) = none := rfl

end C20
end Nutree
