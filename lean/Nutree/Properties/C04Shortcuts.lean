/-
  C04 (shortcuts) — the convenience entry points have exactly the effect of the documented call of
  the general one.

  `append_child` / `prepend_child` / `prepend_sibling` / `append_sibling` are `add_child` with the
  documented `before` (and, for the sibling forms in a typed tree, the sibling's kind);
  `del tree[key]` is `remove()` of the one node the key designates (KeyError without a match,
  AmbiguousMatchError for clones); `set_meta(k, None)` is `clear_meta(k)`; the three metadata calls
  are `setMeta` of the dictionary computed from the node's current one; `Tree.clear()` is
  `remove_children()` of the system root and `Tree.sort()` is `sort_children()` of the system root,
  deep by default.

  All equations are between results of `World.step` (new world AND outcome), so every theorem
  about `Op.add` / `Op.remove` / `Op.setMeta` / `Op.removeChildren` / `Op.sort` (effect, frame,
  refusals) transfers to the shortcut.  Property theorems only; each has a non-vacuity `example`
  on the world `C04S.demo`.
-/
import Nutree.Model.World
import Nutree.Lemmas.MainShortcuts
import Nutree.Lemmas.MainWorld
import Nutree.Properties.C01Main
namespace Nutree.C04S
open Nutree T

/-! ### the shortcuts of `add_child` -/

/-- `append_child(data, …)` = `add_child(data, before=None, …)`, on every node (known or not), in
every state. -/
theorem addVia_appendChild (w : World) (t : Nat) (p : NodeId) (a : Atom) (did : Option DataId)
    (k : Option String) :
    w.step (.addVia t p a .appendChild did k) = w.step (.add t p a .none did k) := by
  simp only [World.step]
  cases w.trees[t]? <;> rfl

/-- `prepend_child` on a parent whose first child is `c`: `add_child(data, before=c)`. -/
theorem addVia_prependChild_first (w : World) (t : Nat) (p : NodeId) (a : Atom) (did : Option DataId)
    (k : Option String) (tr : Tree) (x c : T) (cs : List T)
    (ht : w.trees[t]? = some tr) (hp : findT p tr.root = some x) (hk : x.kids = c :: cs) :
    w.step (.addVia t p a .prependChild did k) = w.step (.add t p a (.node c.id) did k) := by
  simp only [World.step, ht, Tree.viaArgs, hp, hk]

/-- `prepend_child` on a parent without children: `first_child()` is `None`, the node is appended
(`add_child(data, before=None)`). -/
theorem addVia_prependChild_leaf (w : World) (t : Nat) (p : NodeId) (a : Atom) (did : Option DataId)
    (k : Option String) (tr : Tree) (x : T)
    (ht : w.trees[t]? = some tr) (hp : findT p tr.root = some x) (hk : x.kids = []) :
    w.step (.addVia t p a .prependChild did k) = w.step (.add t p a .none did k) := by
  simp only [World.step, ht, Tree.viaArgs, hp, hk]

/-- the docstring of `prepend_child` ("a shortcut for `add_child` with `before=True`") is right in
every well-formed state (in particular every reachable one, `C01_main`), although the code passes
`before=self.first_child()`: same new state, same outcome, also when refused. -/
theorem addVia_prependChild_eq_true (w : World) (hw : C01.WFW w) (t : Nat) (p : NodeId) (a : Atom)
    (did : Option DataId) (k : Option String) :
    w.step (.addVia t p a .prependChild did k) = w.step (.add t p a .bTrue did k) := by
  simp only [World.step]
  cases ht : w.trees[t]? with
  | none => rfl
  | some tr =>
    simp only [Tree.viaArgs]
    have hN := (hw.get ht).1.idsN
    cases hp : findT p tr.root with
    | none => simp only [Tree.addData, hp]
    | some x =>
      cases hk : x.kids with
      | nil =>
        simp only [hk]
        rw [addData_congr_before tr hN w.next p a .none .bTrue did k x _ _ hp rfl rfl (by intro n; simp [hk])]
      | cons c cs =>
        simp only [hk]
        rw [addData_congr_before tr hN w.next p a (.node c.id) .bTrue did k x
          (fun l y => l.take (idxOf c.id l) ++ y :: l.drop (idxOf c.id l)) _ hp
          (by simp [insertPosition, hk]) rfl (by intro n; simp [hk, idxOf, List.findIdx_cons])]

/-- `s.prepend_sibling(data)` = `s._parent.add_child(data, before=s, kind=s.kind)`: the target is
the parent `par` of `s`, the kind is the sibling's (`x.kind`; `none` and ignored in a plain tree) —
the kind `k` the caller may have had in mind is not consulted. -/
theorem addVia_prependSibling (w : World) (t : Nat) (s : NodeId) (a : Atom) (did : Option DataId)
    (k : Option String) (tr : Tree) (x par : T)
    (ht : w.trees[t]? = some tr) (hs : findT s tr.root = some x) (hpar : findParent s tr.root = some par) :
    w.step (.addVia t s a .prependSibling did k) = w.step (.add t par.id a (.node s) did x.kind) := by
  simp only [World.step, ht, Tree.viaArgs, hs, hpar]

/-- `s.append_sibling(data)` when `nx` follows `s` in the parent's child list (whatever its kind):
`s._parent.add_child(data, before=nx, kind=s.kind)`. -/
theorem addVia_appendSibling_next (w : World) (t : Nat) (s : NodeId) (a : Atom) (did : Option DataId)
    (k : Option String) (tr : Tree) (x par nx : T)
    (ht : w.trees[t]? = some tr) (hs : findT s tr.root = some x) (hpar : findParent s tr.root = some par)
    (hnx : par.kids[idxOf s par.kids + 1]? = some nx) :
    w.step (.addVia t s a .appendSibling did k) = w.step (.add t par.id a (.node nx.id) did x.kind) := by
  simp only [World.step, ht, Tree.viaArgs, hs, hpar, hnx]

/-- `s.append_sibling(data)` when `s` is the last child: `s._parent.add_child(data, before=None,
kind=s.kind)`. -/
theorem addVia_appendSibling_last (w : World) (t : Nat) (s : NodeId) (a : Atom) (did : Option DataId)
    (k : Option String) (tr : Tree) (x par : T)
    (ht : w.trees[t]? = some tr) (hs : findT s tr.root = some x) (hpar : findParent s tr.root = some par)
    (hnx : par.kids[idxOf s par.kids + 1]? = none) :
    w.step (.addVia t s a .appendSibling did k) = w.step (.add t par.id a .none did x.kind) := by
  simp only [World.step, ht, Tree.viaArgs, hs, hpar, hnx]

/-- the sibling shortcuts on the system root (which has no `_parent`) raise AttributeError and
change nothing. -/
theorem addVia_sibling_of_root (w : World) (t : Nat) (a : Atom) (did : Option DataId) (k : Option String)
    (tr : Tree) (x : T) (ht : w.trees[t]? = some tr) (hs : findT 0 tr.root = some x)
    (hpar : findParent 0 tr.root = none) :
    w.step (.addVia t 0 a .prependSibling did k) = (w, some .attribute) ∧
    w.step (.addVia t 0 a .appendSibling did k) = (w, some .attribute) := by
  constructor <;> simp only [World.step, ht, Tree.viaArgs, hs, hpar]

/-! ### `del tree[key]` -/

/-- `del tree[key]` for a key that designates exactly one node `n` = `n.remove()` (children
removed with it, clones elsewhere untouched). -/
theorem delItem_unique (w : World) (t : Nat) (a : Option Atom) (asId : Option DataId) (tr : Tree) (n : NodeId)
    (ht : w.trees[t]? = some tr) (hkey : tr.lookupKey a asId = .ok [n]) :
    w.step (.delItem t a asId) = w.step (.remove t n false false) := by
  simp only [World.step, ht, Tree.delItem, hkey]

/-- a data object (not an `int`/`str`) whose id — computed by the tree's `calc_data_id` — is
registered for exactly the node `n` designates `n`. -/
theorem lookupKey_data_unique (tr : Tree) (a : Atom) (d : DataId) (n : NodeId)
    (hid : tr.calcId a = .ok d) (hreg : tr.byData.lookup d = some [n]) :
    tr.lookupKey (some a) none = .ok [n] := by
  simp [Tree.lookupKey, hid, hreg]

/-- an `int`/`str` key that is a registered data_id designates the nodes registered under it,
whatever it would mean as a data object. -/
theorem lookupKey_id (tr : Tree) (a : Option Atom) (d : DataId) (ns : List NodeId)
    (hreg : tr.byData.lookup d = some ns) : tr.lookupKey a (some d) = .ok ns := by
  cases a <;> simp [Tree.lookupKey, hreg]

/-- no match: KeyError, nothing changes. -/
theorem delItem_missing (w : World) (t : Nat) (a : Option Atom) (asId : Option DataId) (tr : Tree)
    (ht : w.trees[t]? = some tr) (hkey : tr.lookupKey a asId = .ok []) :
    w.step (.delItem t a asId) = (w, some .key) := by
  simp only [World.step, ht, Tree.delItem, hkey, World.setTree, set_of_getElem? ht]

/-- the key designates clones (two or more nodes): AmbiguousMatchError, nothing changes. -/
theorem delItem_ambiguous (w : World) (t : Nat) (a : Option Atom) (asId : Option DataId) (tr : Tree)
    (n m : NodeId) (ns : List NodeId)
    (ht : w.trees[t]? = some tr) (hkey : tr.lookupKey a asId = .ok (n :: m :: ns)) :
    w.step (.delItem t a asId) = (w, some .ambiguous) := by
  simp only [World.step, ht, Tree.delItem, hkey, World.setTree, set_of_getElem? ht]

/-! ### metadata -/

/-- `set_meta(k, None)` = `clear_meta(k)`. -/
theorem metaSet_null (w : World) (t : Nat) (n : NodeId) (k : String) :
    w.step (.metaSet t n k "null") = w.step (.metaClear t n (some k)) := by
  show w.metaEdit t n (fun m => metaSetV m k "null") = w.metaEdit t n (fun m => metaClear m (some k))
  have : (fun m => metaSetV m k "null") = fun m => metaClear m (some k) := by
    funext m; simp [metaSetV]
  rw [this]

/-- the three metadata calls on a node `x` of the tree are `Op.setMeta` of the dictionary computed
from `x`'s current one (`metaSetV` / `metaClear` / `metaUpdate`). -/
theorem meta_eq_setMeta (w : World) (t : Nat) (n : NodeId) (tr : Tree) (x : T)
    (ht : w.trees[t]? = some tr) (hn : findT n tr.root = some x)
    (k v : String) (ko : Option String) (vals : List (String × String)) (replace : Bool) :
    w.step (.metaSet t n k v) = w.step (.setMeta t n (metaSetV x.info.nmeta k v)) ∧
    w.step (.metaClear t n ko) = w.step (.setMeta t n (metaClear x.info.nmeta ko)) ∧
    w.step (.metaUpdate t n vals replace) = w.step (.setMeta t n (metaUpdate x.info.nmeta vals replace)) := by
  refine ⟨?_, ?_, ?_⟩ <;> simp only [World.step, World.metaEdit, ht, hn]

/-! ### tree-level calls -/

/-- `Tree.clear()` = `remove_children()` of the system root. -/
theorem clear_eq (w : World) (t : Nat) : w.step (.clear t) = w.step (.removeChildren t 0) := rfl

/-- `Tree.sort(key=, reverse=, deep=)` = `sort_children(…)` of the system root, deep unless `deep=False`
is given. -/
theorem sortTree_eq (w : World) (t : Nat) (key : KeyFn) (rev : Bool) (deep : Option Bool) :
    w.step (.sortTree t key rev deep) = w.step (.sort t 0 key rev (deep.getD true)) := rfl

/-! ### non-vacuity: a concrete world -/

def atom (i : Nat) (s : String) : Atom := { obj := i, eqc := i, hid := .int i, truthy := true, isStr := false, name := s }

/-- the plain tree `A[a1, a2], a2'` where `a2` (node 3) and `a2'` (node 4) hold the same data object
(clones, data_id 3). -/
def demoT0 : Tree := {
  root := mkRoot [
    .node { id := 1, data := atom 1 "A", did := .int 1 } [
      .node { id := 2, data := atom 2 "a1", did := .int 2 } [],
      .node { id := 3, data := atom 3 "a2", did := .int 3 } []],
    .node { id := 4, data := atom 3 "a2", did := .int 3 } []],
  byId := [1, 2, 3, 4],
  byData := [(.int 1, [1]), (.int 2, [2]), (.int 3, [3, 4])] }

/-- the typed tree `X (kind a), Y (kind b)`. -/
def demoT1 : Tree := {
  typed := true,
  root := mkRoot [
    .node { id := 5, data := atom 1 "X", did := .int 1, kind := some "a" } [],
    .node { id := 6, data := atom 2 "Y", did := .int 2, kind := some "b" } []],
  byId := [5, 6],
  byData := [(.int 1, [5]), (.int 2, [6])] }

def demo : World := { trees := [demoT0, demoT1], next := 7 }

deriving instance DecidableEq for Tree
deriving instance DecidableEq for World

def demoOps : List Op := [
  .newTree false none,
  .add 0 0 (atom 1 "A") .none none none,
  .add 0 1 (atom 2 "a1") .none none none,
  .add 0 1 (atom 3 "a2") .none none none,
  .add 0 0 (atom 3 "a2") .none none none,
  .newTree true none,
  .add 1 0 (atom 1 "X") .none none (some "a"),
  .add 1 0 (atom 2 "Y") .none none (some "b")]

/-- `demo` is a reachable state, hence well-formed (`C01_main`). -/
theorem demo_reachable : World.run demoOps = demo := by decide +kernel

theorem demo_WFW : C01.WFW demo := demo_reachable ▸ C01.C01_main demoOps

/-- per node (pre-order, system root first): its identity followed by the identities of its children. -/
def demoShape (w : World) (i : Nat) : List (List NodeId) :=
  match w.trees[i]? with
  | some t => (flat t.root).map fun n => n.id :: n.kids.map T.id
  | none => []

def demoKinds (w : World) (i : Nat) : List (Option String) :=
  match w.trees[i]? with
  | some t => t.root.kids.map T.kind
  | none => []

example : demoShape demo 0 = [[0, 1, 4], [1, 2, 3], [2], [3], [4]] ∧ demoShape demo 1 = [[0, 5, 6], [5], [6]] := by
  decide +kernel

-- append_child below node 1, and what it does
example : demo.step (.addVia 0 1 (atom 9 "n") .appendChild none none) = demo.step (.add 0 1 (atom 9 "n") .none none none) :=
  addVia_appendChild _ _ _ _ _ _
example : demoShape (demo.step (.addVia 0 1 (atom 9 "n") .appendChild none none)).1 0 =
    [[0, 1, 4], [1, 2, 3, 7], [2], [3], [7], [4]] := by decide +kernel

-- prepend_child below node 1 (first child 2) and below the leaf 2
example : ∃ x c cs, findT 1 demoT0.root = some x ∧ x.kids = c :: cs ∧ c.id = 2 ∧
    demo.step (.addVia 0 1 (atom 9 "n") .prependChild none none) = demo.step (.add 0 1 (atom 9 "n") (.node 2) none none) :=
  ⟨_, _, _, rfl, rfl, rfl, addVia_prependChild_first demo 0 1 _ _ _ demoT0 _ _ _ rfl rfl rfl⟩
example : demoShape (demo.step (.addVia 0 1 (atom 9 "n") .prependChild none none)).1 0 =
    [[0, 1, 4], [1, 7, 2, 3], [7], [2], [3], [4]] := by decide +kernel
example : demo.step (.addVia 0 1 (atom 9 "n") .prependChild none none) = demo.step (.add 0 1 (atom 9 "n") .bTrue none none) :=
  addVia_prependChild_eq_true demo demo_WFW 0 1 _ _ _
example : ∃ x, findT 2 demoT0.root = some x ∧ x.kids = [] ∧
    demo.step (.addVia 0 2 (atom 9 "n") .prependChild none none) = demo.step (.add 0 2 (atom 9 "n") .none none none) :=
  ⟨_, rfl, rfl, addVia_prependChild_leaf demo 0 2 _ _ _ demoT0 _ rfl rfl rfl⟩

-- the sibling forms on node 2 (parent 1, next sibling 3) and on node 3 (last child)
example : ∃ x par, findT 2 demoT0.root = some x ∧ findParent 2 demoT0.root = some par ∧ par.id = 1 ∧
    demo.step (.addVia 0 2 (atom 9 "n") .prependSibling none none) = demo.step (.add 0 1 (atom 9 "n") (.node 2) none x.kind) :=
  ⟨_, _, rfl, rfl, rfl, addVia_prependSibling demo 0 2 _ _ _ demoT0 _ _ rfl rfl rfl⟩
example : demoShape (demo.step (.addVia 0 2 (atom 9 "n") .prependSibling none none)).1 0 =
    [[0, 1, 4], [1, 7, 2, 3], [7], [2], [3], [4]] := by decide +kernel
example : ∃ x par nx, findT 2 demoT0.root = some x ∧ findParent 2 demoT0.root = some par ∧
    par.kids[idxOf 2 par.kids + 1]? = some nx ∧ nx.id = 3 ∧
    demo.step (.addVia 0 2 (atom 9 "n") .appendSibling none none) = demo.step (.add 0 1 (atom 9 "n") (.node 3) none x.kind) :=
  ⟨_, _, _, rfl, rfl, rfl, rfl, addVia_appendSibling_next demo 0 2 _ _ _ demoT0 _ _ _ rfl rfl rfl rfl⟩
example : demoShape (demo.step (.addVia 0 2 (atom 9 "n") .appendSibling none none)).1 0 =
    [[0, 1, 4], [1, 2, 7, 3], [2], [7], [3], [4]] := by decide +kernel
example : ∃ x par, findT 3 demoT0.root = some x ∧ findParent 3 demoT0.root = some par ∧
    par.kids[idxOf 3 par.kids + 1]? = none ∧
    demo.step (.addVia 0 3 (atom 9 "n") .appendSibling none none) = demo.step (.add 0 1 (atom 9 "n") .none none x.kind) :=
  ⟨_, _, rfl, rfl, rfl, addVia_appendSibling_last demo 0 3 _ _ _ demoT0 _ _ rfl rfl rfl rfl⟩
example : demoShape (demo.step (.addVia 0 3 (atom 9 "n") .appendSibling none none)).1 0 =
    [[0, 1, 4], [1, 2, 3, 7], [2], [3], [7], [4]] := by decide +kernel

-- typed tree: the new sibling of node 6 (kind "b") gets kind "b" although the caller says "zzz"
example : ∃ x par, findT 6 demoT1.root = some x ∧ findParent 6 demoT1.root = some par ∧ par.id = 0 ∧ x.kind = some "b" ∧
    demo.step (.addVia 1 6 (atom 9 "n") .prependSibling none (some "zzz")) =
      demo.step (.add 1 0 (atom 9 "n") (.node 6) none (some "b")) :=
  ⟨_, _, rfl, rfl, rfl, rfl, addVia_prependSibling demo 1 6 _ _ _ demoT1 _ _ rfl rfl rfl⟩
example : demoKinds (demo.step (.addVia 1 6 (atom 9 "n") .prependSibling none (some "zzz"))).1 1 = [some "a", some "b", some "b"] ∧
    demoShape (demo.step (.addVia 1 6 (atom 9 "n") .prependSibling none (some "zzz"))).1 1 = [[0, 5, 7, 6], [5], [7], [6]] := by
  decide +kernel

-- the system root has no siblings
example : demo.step (.addVia 0 0 (atom 9 "n") .appendSibling none none) = (demo, some .attribute) :=
  (addVia_sibling_of_root demo 0 _ _ _ demoT0 _ rfl rfl rfl).2

-- del tree[A] (unique), del tree[a2] (clones 3 and 4), del tree[<unknown>], del tree[2] (2 is a data_id in use), del tree[node]
example : demoT0.lookupKey (some (atom 1 "A")) none = .ok [1] ∧
    demo.step (.delItem 0 (some (atom 1 "A")) none) = demo.step (.remove 0 1 false false) :=
  ⟨rfl, delItem_unique demo 0 _ _ demoT0 1 rfl rfl⟩
example : demoT0.lookupKey (some (atom 1 "A")) none = .ok [1] :=
  lookupKey_data_unique demoT0 (atom 1 "A") (.int 1) 1 rfl rfl
example : demoShape (demo.step (.delItem 0 (some (atom 1 "A")) none)).1 0 = [[0, 4], [4]] := by decide +kernel
example : demo.step (.delItem 0 (some (atom 3 "a2")) none) = (demo, some .ambiguous) :=
  delItem_ambiguous demo 0 _ _ demoT0 3 4 [] rfl rfl
example : demo.step (.delItem 0 (some (atom 8 "?")) none) = (demo, some .key) :=
  delItem_missing demo 0 _ _ demoT0 rfl rfl
example : demoT0.lookupKey none (some (.int 2)) = .ok [2] := lookupKey_id demoT0 none (.int 2) [2] rfl
example : demoShape (demo.step (.delItem 0 none (some (.int 2)))).1 0 = [[0, 1, 4], [1, 3], [3], [4]] := by decide +kernel
example : (demo.step (.delItem 0 none none)).2 = some .value := by decide +kernel

-- metadata
def demoMeta (w : World) (i : Nat) (n : NodeId) : Option (List (String × String)) :=
  match w.trees[i]? with
  | some t => (findT n t.root).bind fun x => x.info.nmeta
  | none => none

def demo2 : World := (demo.step (.metaUpdate 0 2 [("a", "1"), ("b", "2")] false)).1

example : demoMeta demo2 0 2 = some [("a", "1"), ("b", "2")] ∧
    demoMeta (demo2.step (.metaSet 0 2 "a" "null")).1 0 2 = some [("b", "2")] ∧
    demoMeta (demo2.step (.metaClear 0 2 (some "a"))).1 0 2 = some [("b", "2")] ∧
    demoMeta (demo2.step (.metaSet 0 2 "a" "7")).1 0 2 = some [("a", "7"), ("b", "2")] ∧
    demoMeta (demo2.step (.metaClear 0 2 none)).1 0 2 = none := by decide +kernel
example : demo2.step (.metaSet 0 2 "a" "null") = demo2.step (.metaClear 0 2 (some "a")) := metaSet_null _ _ _ _
example : ∃ x, findT 2 demoT0.root = some x ∧
    demo.step (.metaSet 0 2 "a" "7") = demo.step (.setMeta 0 2 (metaSetV x.info.nmeta "a" "7")) :=
  ⟨_, rfl, (meta_eq_setMeta demo 0 2 demoT0 _ rfl rfl "a" "7" none [] false).1⟩

-- clear / sort
example : demoShape (demo.step (.clear 0)).1 0 = [[0]] := by decide +kernel
example : demo.step (.sortTree 0 (fun t => some t.name) true none) = demo.step (.sort 0 0 (fun t => some t.name) true true) :=
  sortTree_eq _ _ _ _ _

end Nutree.C04S
