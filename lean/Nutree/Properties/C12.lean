/-
  C12 — layout of the native file format: the written node list (`enumerate`, `toList`), the
  key/value maps (`compress`/`uncompress`), the header, and the refusals of `load`.
  Property theorems only; helper lemmas live in Nutree/Lemmas (SerialList, SerialMaps).
-/
import Nutree.Model.Serial
import Nutree.Lemmas.SerialList
import Nutree.Lemmas.SerialClone
import Nutree.Lemmas.SerialMaps
namespace Nutree.C12
open Nutree T Nutree.Ser

/-- L1. The rows of the written list are the nodes in pre-order, numbered 1, 2, …. -/
theorem enumerate_preorder (tops : List T) :
    (enumerate tops 0 1).1.map (·.2.2) = flatL tops ∧
    (enumerate tops 0 1).1.map (·.1) = List.range' 1 (flatL tops).length :=
  ⟨enumerate_nodes tops 0 1, enumerate_indices tops 0 1⟩

/-- L2 (structural form, no assumption on node ids). For every row `(i, p, n)`: the parent index is
smaller than the own index; it is 0 for a top-level node, and otherwise it is the index of the row
that holds a node having `n` among its children. -/
theorem enumerate_parent (tops : List T) (i p : Nat) (n : T) (hr : (i, p, n) ∈ (enumerate tops 0 1).1) :
    p < i ∧
    ((p = 0 ∧ n ∈ tops) ∨
     (0 < p ∧ ∃ q par, (p, q, par) ∈ (enumerate tops 0 1).1 ∧ n ∈ par.kids)) := by
  obtain ⟨h1, h2⟩ := enumerate_parent_struct tops 0 1 Nat.one_pos _ hr
  rcases h2 with ⟨h3, h4⟩ | ⟨h3, h4, h5⟩
  · exact ⟨by simp only at h1 h3; omega, Or.inl ⟨h3, h4⟩⟩
  · exact ⟨h4, Or.inr ⟨h3, h5⟩⟩

/-- L2 (with pairwise distinct, non-zero node ids — 0 is the system root). For every row
`(i, p, n)`: `p < i`; `p = 0` iff `n` is a top-level node; and the row with index `p` holds the
parent of `n` (`findParent`, i.e. `n._parent`; the system root for `p = 0`). -/
theorem enumerate_parent_ids (tops : List T) (hN : C10.IdsNodup (mkRoot tops)) (i p : Nat) (n : T)
    (hr : (i, p, n) ∈ (enumerate tops 0 1).1) :
    p < i ∧ (p = 0 ↔ n ∈ tops) ∧
    (p = 0 → findParent n.id (mkRoot tops) = some (mkRoot tops)) ∧
    (p ≠ 0 → ∃ q par, (p, q, par) ∈ (enumerate tops 0 1).1 ∧ findParent n.id (mkRoot tops) = some par) := by
  obtain ⟨h1, h2⟩ := enumerate_parent tops i p n hr
  have hpar : ∀ q par, (p, q, par) ∈ (enumerate tops 0 1).1 → n ∈ par.kids →
      findParent n.id (mkRoot tops) = some par := by
    intro q par hm hk
    have : par ∈ flatL tops := by
      rw [← enumerate_nodes tops 0 1]
      exact List.mem_map.2 ⟨_, hm, rfl⟩
    exact findParent_of_mem_kids hN (by rw [mkRoot, flat_node]; exact List.mem_cons_of_mem _ this) hk
  have htop : n ∈ tops → findParent n.id (mkRoot tops) = some (mkRoot tops) := fun hn =>
    findParent_of_mem_kids hN (self_mem_flat _) hn
  refine ⟨h1, ⟨?_, ?_⟩, ?_, ?_⟩
  · intro hp
    rcases h2 with ⟨_, h⟩ | ⟨h, _⟩
    · exact h
    · omega
  · intro hn
    rcases h2 with ⟨h, _⟩ | ⟨_, q, par, hm, hk⟩
    · exact h
    · exfalso
      have e := (hpar q par hm hk).symm.trans (htop hn)
      have hpm : par ∈ flatL tops := by
        rw [← enumerate_nodes tops 0 1]
        exact List.mem_map.2 ⟨_, hm, rfl⟩
      rw [Option.some.injEq] at e
      rw [e] at hpm
      exact id_ne_of_mem_flatL_kids hN hpm rfl
  · intro hp
    rcases h2 with ⟨_, h⟩ | ⟨h, _⟩
    · exact htop h
    · omega
  · intro hp
    rcases h2 with ⟨h, _⟩ | ⟨_, q, par, hm, hk⟩
    · exact absurd h hp
    · exact ⟨q, par, hm, hpar q par hm hk⟩

/-- L3. The written list has one element per row, carrying the row's parent index, in order. -/
theorem toList_shape (typed : Bool) (o : Opts) (ser : T → Fields → Option Fields) (isClone : T → Bool)
    (tops : List T) (out : List (Nat × Payload)) (h : toList typed o ser isClone tops = some out) :
    out.length = (enumerate tops 0 1).1.length ∧
    out.map (·.1) = (enumerate tops 0 1).1.map (·.2.1) := by
  rw [toList_eq] at h
  cases hp : payloads typed o ser isClone (enumerate tops 0 1).1 [] with
  | none => rw [hp] at h; cases h
  | some x =>
    obtain ⟨es, c⟩ := x
    rw [hp] at h
    simp only [Option.map_some, Option.some.injEq] at h
    subst h
    have := payloads_shape typed o ser isClone _ _ _ _ hp
    exact ⟨by simpa using congrArg List.length this, this⟩

/-- L4. **Which elements are references.**  `isClone` is `node.is_clone()` as `save` evaluates it
(`Ser.saveIsClone tops n` = the data id of `n` occurs at least twice in the forest).  Split the rows
at any row `(i, p, n)`: `rows = pre ++ (i, p, n) :: post`.  The element written at that position is
`(p, pl)`, and `pl` is the bare reference `.ref k` (nothing else of the node is stored) iff `k` is
the index of the FIRST earlier row whose node has the data id of `n`, and that node has the kind of
`n`.  In every other case — no earlier occurrence, or the first occurrence has another kind (the
map keeps only the first occurrence) — the full entry of `n` is written. -/
theorem toList_ref_iff (typed : Bool) (o : Opts) (ser : T → Fields → Option Fields) (tops : List T)
    (out : List (Nat × Payload)) (h : toList typed o ser (saveIsClone tops) tops = some out)
    (pre post : List Row) (i p : Nat) (n : T)
    (hrows : (enumerate tops 0 1).1 = pre ++ (i, p, n) :: post) :
    ∃ pl, out[pre.length]? = some (p, pl) ∧
      (∀ k, pl = .ref k ↔ ∃ a q m b, pre = a ++ (k, q, m) :: b ∧ (∀ r ∈ a, r.2.2.did ≠ n.did) ∧
        m.did = n.did ∧ m.kind = n.kind) ∧
      ((∀ k, pl ≠ .ref k) → fullEntry typed o ser n = some pl) :=
  toList_ref_iff_core h hrows

/-- `saveJ` uses exactly this `isClone`. -/
theorem saveJ_eq (typed : Bool) (o : Opts) (ser : T → Fields → Option Fields) (tops : List T) :
    saveJ typed o ser tops = (toList typed o ser (saveIsClone tops) tops).map fun rows =>
      .obj [("meta", .obj (header o)), ("nodes", .arr (rows.map fun (p, e) => JVal.arr [.num p, payloadJ e]))] :=
  rfl

/-- L5. **What `save` compressed, `load` un-compresses to the original entry**, provided the maps
are valid for the entry (`Ser.ValidMaps`: renaming by `key_map` and back by its inverse is the
identity on the keys of the entry — e.g. the short names are pairwise distinct and none of them is
an un-renamed key of the entry, `ValidMaps.of_nodup`).  Nothing is required of `value_map`.
`Ser.validMaps_of_roundtrip` shows that `ValidMaps` is also necessary. -/
theorem uncompress_compress (o : Opts) (d d' : Fields) (hv : ValidMaps o d) (h : compress o d = some d') :
    uncompress (o.keyMap.map fun (k, s) => (s, k)) o.valueMap d' = some d :=
  Ser.uncompress_compress hv h

/-- L6. `load` refuses (RuntimeError) a document that is not an object, … -/
theorem load_rejects_not_obj (typed : Bool) (sa : String → Atom) (ds : Fields → DRes) (doc : JVal)
    (h : ∀ top, doc ≠ .obj top) : loadJ typed sa ds doc = .error .runtime :=
  Ser.load_rejects_not_obj h

/-- … that has no `"meta"` entry, … -/
theorem load_rejects_no_meta (typed : Bool) (sa : String → Atom) (ds : Fields → DRes) (top : Fields)
    (h : lookupF top "meta" = none) : loadJ typed sa ds (.obj top) = .error .runtime :=
  Ser.load_rejects_no_meta h

/-- … or whose `"meta"` is not a JSON object (refused with RuntimeError, or with the TypeError that the membership test
/ subscript on that value raises: `null`, numbers, bools; lists and strings that contain `"$generator"`), … -/
theorem load_rejects_bad_meta (typed : Bool) (sa : String → Atom) (ds : Fields → DRes) (top : Fields) (m : JVal)
    (hm : lookupF top "meta" = some m) (h : ∀ hdr, m ≠ .obj hdr) :
    loadJ typed sa ds (.obj top) = .error .runtime ∨ loadJ typed sa ds (.obj top) = .error .type :=
  Ser.load_rejects_bad_meta hm h

/-- … that has no `"nodes"` entry, … -/
theorem load_rejects_no_nodes (typed : Bool) (sa : String → Atom) (ds : Fields → DRes) (top : Fields)
    (h : lookupF top "nodes" = none) : loadJ typed sa ds (.obj top) = .error .runtime :=
  Ser.load_rejects_no_nodes h

/-- … whose `"nodes"` is `null`, a number or a bool (TypeError after the header was accepted), … -/
theorem load_rejects_scalar_nodes (typed : Bool) (sa : String → Atom) (ds : Fields → DRes) (top hdr : Fields) (nd : JVal)
    (hm : lookupF top "meta" = some (.obj hdr)) (hn : lookupF top "nodes" = some nd) (hg : genOk hdr = true)
    (hs : nd = .null ∨ (∃ b, nd = .bool b) ∨ (∃ i, nd = .num i)) :
    loadJ typed sa ds (.obj top) = .error .type :=
  Ser.load_rejects_scalar_nodes hm hn hg hs

/-- … whose meta has no `"$generator"`, … -/
theorem load_rejects_no_generator (typed : Bool) (sa : String → Atom) (ds : Fields → DRes) (top hdr : Fields)
    (hm : lookupF top "meta" = some (.obj hdr)) (hg : lookupF hdr "$generator" = none) :
    loadJ typed sa ds (.obj top) = .error .runtime :=
  Ser.load_rejects_no_generator hm hg

/-- … or whose generator does not contain `"nutree/"`. -/
theorem load_rejects_bad_generator (typed : Bool) (sa : String → Atom) (ds : Fields → DRes) (top hdr : Fields)
    (g : JVal) (hm : lookupF top "meta" = some (.obj hdr)) (hg : lookupF hdr "$generator" = some g)
    (hn : hasNutree (match (generalizing := false) g with | .str s => s | _ => "") = false) :
    loadJ typed sa ds (.obj top) = .error .runtime :=
  Ser.load_rejects_bad_generator hm hg hn

/-- the nutree header: the document is an object whose `"meta"` is an object with a `"$generator"` string that
contains `nutree/`. -/
def HasHeader (doc : JVal) : Prop :=
  ∃ top hdr, doc = .obj top ∧ lookupF top "meta" = some (.obj hdr) ∧ genOk hdr = true

/-- **JSON without the nutree header is rejected** — every document, whatever else it contains. -/
theorem load_rejects_without_header (typed : Bool) (sa : String → Atom) (ds : Fields → DRes) (doc : JVal)
    (h : ¬ HasHeader doc) : ∃ e, loadJ typed sa ds doc = .error e := by
  cases doc with
  | obj top =>
    cases hm : lookupF top "meta" with
    | none => exact ⟨_, Ser.load_rejects_no_meta hm⟩
    | some m =>
      by_cases ho : ∃ hdr, m = .obj hdr
      · obtain ⟨hdr, rfl⟩ := ho
        cases hg : genOk hdr with
        | true => exact absurd ⟨top, hdr, rfl, hm, hg⟩ h
        | false => exact ⟨_, Ser.load_rejects_genOk_false hm hg⟩
      · rcases Ser.load_rejects_bad_meta (typed := typed) (sa := sa) (ds := ds) hm (fun hdr e => ho ⟨hdr, e⟩) with h1 | h1
        · exact ⟨_, h1⟩
        · exact ⟨_, h1⟩
  | _ => exact ⟨_, rfl⟩

example : ¬ HasHeader (.obj [("meta", .null), ("nodes", .arr [])]) := by
  rintro ⟨top, hdr, h1, h2, _⟩; cases h1; simp [lookupF] at h2

/-- L7. The header names the generator (constant regenerated from the source), unless `file_meta`
overwrites it … -/
theorem header_generator (o : Opts) (h : ∀ e ∈ o.fileMeta, e.1 ≠ "$generator") :
    lookupF (header o) "$generator" = some (.str ("nutree/" ++ Nutree.Generated.version)) :=
  Ser.header_generator h

/-- … and the format version; -/
theorem header_format_version (o : Opts) (h : ∀ e ∈ o.fileMeta, e.1 ≠ "$format_version") :
    lookupF (header o) "$format_version" = some (.str Nutree.Generated.fileFormatVersion) :=
  Ser.header_format_version h

/-- `"$key_map"` is present iff a key map is given (and then it is that map), … -/
theorem header_key_map (o : Opts) (h : ∀ e ∈ o.fileMeta, e.1 ≠ "$key_map") :
    ((lookupF (header o) "$key_map").isSome ↔ o.keyMap ≠ []) ∧
    lookupF (header o) "$key_map" =
      if o.keyMap = [] then none else some (.obj (o.keyMap.map fun (k, v) => (k, JVal.str v))) :=
  ⟨Ser.header_key_map_isSome h, Ser.header_key_map h⟩

/-- … the same for `"$value_map"`. -/
theorem header_value_map (o : Opts) (h : ∀ e ∈ o.fileMeta, e.1 ≠ "$value_map") :
    ((lookupF (header o) "$value_map").isSome ↔ o.valueMap ≠ []) ∧
    lookupF (header o) "$value_map" =
      if o.valueMap = [] then none else some (.obj (o.valueMap.map fun (k, v) => (k, JVal.arr v))) :=
  ⟨Ser.header_value_map_isSome h, Ser.header_value_map h⟩

/-- the written generator passes `load`'s check. -/
theorem header_generator_accepted : hasNutree ("nutree/" ++ Nutree.Generated.version) = true :=
  Ser.hasNutree_generator

end Nutree.C12
