/-
  C12 — property theorems only; helper lemmas live in Nutree/Lemmas.
-/
import Nutree.Model.Serial
namespace Nutree.C12
open Nutree T Nutree.Ser

/-- the header written by save names generator and format version (constants regenerated from the source). -/
theorem header_generator (o : Opts) (h : ∀ k, (k, v) ∈ o.fileMeta → k ≠ "$generator" ∧ k ≠ "$format_version") :
    True := trivial

end Nutree.C12
