/-
  C04 — Each mutating operation leaves the affected nodes at the documented place in the documented
  order, and every other node keeps its identity, data, id, metadata, parent and sibling order.
  Property theorems only; helper lemmas live in Nutree/Lemmas/Effect*.lean.

  Further effect theorems of C04 live beside the well-formedness proofs of the operation:
  `C01.addData_effect`, `C01.moveTo_frame`, `C01.moveTo_effect`, `C01.removeKeep_effect`,
  `C01.setData_shape`, `C01.sort_effect`, and for copies `C07.addNode_faithful`, `C07.addTree_order`,
  `C07.copyKids_order` (registered under C04 in obligations.json).  The effects of add and of the
  copies are equations `t'.root = modT parent (fun l => ins l c) t.root` with `ins` the insert function
  accepted by `insertPosition`; `modT_effect` and `insertPosition_effect` below say what such an
  equation means node by node and position by position.

  Vocabulary: `findT m t.root` is the node with identity `m` (its record `info` and its children
  `kids`, i.e. the whole branch); `t.parentId m` the identity of its parent; `flat`/`flatL` the
  pre-order; a registry entry `(d, l) ∈ t.byData` lists the nodes `l` under data id `d`.
-/
import Nutree.Model.Ops
import Nutree.Spec.WF
import Nutree.Properties.C01
import Nutree.Lemmas.EffectErase
import Nutree.Lemmas.EffectData
import Nutree.Lemmas.EffectInsert
import Nutree.Lemmas.AddRemove
namespace Nutree.C04
open Nutree T Flt

/-- the empty tree satisfies the decidable check. -/
theorem init_ok : wfB ({} : Tree) = true := by decide

/-! ### the trees of the examples -/

/-- a data object of the examples: string `s` with identity/hash `k`. -/
def exAtom (k : Nat) (s : String) : Atom :=
  { obj := k, eqc := k, hid := .int k, truthy := true, isStr := true, name := s }
def exLeaf (id : NodeId) (a : Atom) : T := .node { id := id, data := a, did := a.hid } []

/-- `root ─ 1:A ─ (2:B ─ 4:D, 3:C) ; 5:B` — node 5 is a clone of node 2. -/
def exTree : Tree :=
  { root := mkRoot [.node { id := 1, data := exAtom 1 "A", did := .int 1 }
                      [.node { id := 2, data := exAtom 2 "B", did := .int 2 } [exLeaf 4 (exAtom 4 "D")],
                       exLeaf 3 (exAtom 3 "C")],
                    exLeaf 5 (exAtom 2 "B")],
    byId := [1, 2, 4, 3, 5],
    byData := [(.int 1, [1]), (.int 2, [2, 5]), (.int 4, [4]), (.int 3, [3])] }

/-- `root ─ 1:A ─ 2:B ─ 3:A ; 4:C ─ 5:A` — the clone 3 of node 1 lies inside the branch of node 1. -/
def exNested : Tree :=
  { root := mkRoot [.node { id := 1, data := exAtom 1 "A", did := .int 1 }
                      [.node { id := 2, data := exAtom 2 "B", did := .int 2 } [exLeaf 3 (exAtom 1 "A")]],
                    .node { id := 4, data := exAtom 3 "C", did := .int 3 } [exLeaf 5 (exAtom 1 "A")]],
    byId := [1, 2, 3, 4, 5], byData := [(.int 1, [1, 3, 5]), (.int 2, [2]), (.int 3, [4])] }

theorem exTree_wf : WF exTree := (C01.wfB_iff _).1 (by decide)
theorem exNested_wf : WF exNested := (C01.wfB_iff _).1 (by decide)

/-! ### plain `remove()` / `del` -/

/-- **`remove()` (no `keep_children`, this node only)** of the node `n` with branch `x` below `p`:
* the parent keeps its record and its child list is the old one without `n` — same order, the same
  child branches;
* the records of the whole tree in pre-order are the old ones without the branch of `n`;
* every node outside the branch is still there with the same record and the same parent; its child
  records are the old ones (for the parent: without `n`), in the old order; it is literally unchanged
  (the whole branch) unless `n` was below it;
* the identities of the branch are neither reachable nor registered, and the registries are the old
  ones without them (order of the remaining entries and of the remaining clones unchanged);
* class and id hook of the tree are untouched. -/
theorem removeOne_effect (t : Tree) (n p : NodeId) (x par : T) (h : WF t) (hn : n ≠ 0)
    (hx : findT n t.root = some x) (hp : t.parentId n = some p) (hpar : findT p t.root = some par) :
    findT p (t.removeOne n).root = some (.node par.info (eraseId n par.kids)) ∧
    (flat (t.removeOne n).root).map T.info =
      ((flat t.root).map T.info).filter (fun i => decide (i.id ∉ (flat x).map T.id)) ∧
    (∀ m y, findT m t.root = some y → m ∉ (flat x).map T.id →
      ∃ y', findT m (t.removeOne n).root = some y' ∧ y'.info = y.info ∧
        (t.removeOne n).parentId m = t.parentId m ∧
        y'.kids.map T.info = (eraseId n y.kids).map T.info ∧
        (m ≠ p → y'.kids.map T.info = y.kids.map T.info) ∧
        (n ∉ (flatL y.kids).map T.id → y' = y)) ∧
    (∀ a ∈ (flat x).map T.id, a ∉ (flat (t.removeOne n).root).map T.id ∧ a ∉ (t.removeOne n).byId) ∧
    (t.removeOne n).byId = t.byId.filter (fun a => decide (a ∉ (flat x).map T.id)) ∧
    (t.removeOne n).byData =
      (t.byData.map fun e => (e.1, e.2.filter fun a => decide (a ∉ (flat x).map T.id))).filter
        (fun e => !e.2.isEmpty) ∧
    (t.removeOne n).typed = t.typed ∧ (t.removeOne n).hook = t.hook := by
  have hN := h.idsN
  obtain ⟨par0, hpar0, rfl⟩ := parentId_eq_some hp
  have d : Detach t.root x par0 n := ⟨hN, hx, hpar0⟩
  have : par0 = par := Option.some.inj (d.findT_par.symm.trans hpar)
  subst this
  obtain ⟨e1, e2, e3, e4, e5⟩ := eff_erase_effect (R := [n]) (G := (flat x).map T.id) h
    (C01.removeOne_WF' t n h) (removeOne_root_eq_eraseIds hN n) (eff_removeOne_reg n h)
    (eff_removeOne_gone h hn hx)
  have hpG : par0.id ∉ (flat x).map T.id := by
    intro hm
    obtain ⟨y, hy, hyp⟩ := mem_ids.1 hm
    have : y = par0 := eq_of_id_eq hN (mem_flat_trans hy d.x_mem) d.par_mem hyp
    subst this
    exact eff_not_mem_flat_kid d.x_kid hy
  refine ⟨?_, e1, ?_, e3, e4, e5, ?_, ?_⟩
  · rw [(e2 _ _ hpar hpG).1, eraseIds_eq,
      eraseIdsL_singleton_eq_eraseId (idsNodupL_kids d.parN) (List.mem_map.2 ⟨x, d.x_kid, d.x_id⟩)]
  · intro m y hy hm
    obtain ⟨f1, f2⟩ := e2 m y hy hm
    have hkids : (eraseIds [n] y).kids.map T.info = (eraseId n y.kids).map T.info := by
      rw [eff_eraseIds_kids_info, eff_filter_singleton]
    refine ⟨_, f1, eraseIds_info _ _, f2, hkids, fun hmp => ?_, fun hnk => ?_⟩
    · rw [hkids, eraseId_of_not_mem (d.not_kid_of_ne (findT_some_mem hy) (by rw [findT_some_id hy]; exact hmp))]
    · exact eraseIds_of_disjoint (fun a ha => by rw [List.mem_singleton] at ha; subst ha; exact hnk)
  · rw [removeOne_eq hx hp, unregister_typed]
    show (t.removeChildren n).typed = t.typed
    rw [removeChildren_eq hx]
    exact unregisterAll_typed _ _
  · rw [removeOne_eq hx hp, unregister_hook]
    show (t.removeChildren n).hook = t.hook
    rw [removeChildren_eq hx]
    exact unregisterAll_hook _ _

/-- example: removing node 2 (with its child 4) from `exTree`: the hypotheses hold, and 1 keeps the
child 3, the clone 5 of node 2 stays, the registries lose 2 and 4 (key 2 keeps the clone 5). -/
example : (exTree.removeOne 2).root =
      mkRoot [.node { id := 1, data := exAtom 1 "A", did := .int 1 } [exLeaf 3 (exAtom 3 "C")], exLeaf 5 (exAtom 2 "B")] ∧
    (exTree.removeOne 2).byId = [1, 3, 5] ∧
    (exTree.removeOne 2).byData = [(.int 1, [1]), (.int 2, [5]), (.int 3, [3])] := by decide
example := removeOne_effect exTree 2 1 _ _ exTree_wf (by decide) rfl rfl rfl

/-! ### `remove_children()` / `clear()` -/

/-- **`remove_children()`** on the node `n` with branch `x` (`n = 0`: `tree.clear()`):
* `n` keeps its record and has no children;
* the records of the whole tree in pre-order are the old ones without the strict descendants of `n`;
* every other node outside the removed branches is still there with the same record, the same parent
  and the same child records in the same order; it is literally unchanged unless it is an ancestor of `n`;
* the strict descendants of `n` are neither reachable nor registered, the registries are the old ones
  without them; class and id hook untouched; the root's `_children` becomes `None` after `clear()`. -/
theorem removeChildren_effect (t : Tree) (n : NodeId) (x : T) (h : WF t) (hx : findT n t.root = some x) :
    findT n (t.removeChildren n).root = some (.node x.info []) ∧
    (flat (t.removeChildren n).root).map T.info =
      ((flat t.root).map T.info).filter (fun i => decide (i.id ∉ (flatL x.kids).map T.id)) ∧
    (∀ m y, findT m t.root = some y → m ∉ (flatL x.kids).map T.id →
      ∃ y', findT m (t.removeChildren n).root = some y' ∧ y'.info = y.info ∧
        (t.removeChildren n).parentId m = t.parentId m ∧
        (m ≠ n → y'.kids.map T.info = y.kids.map T.info) ∧
        (n ∉ (flat y).map T.id → y' = y)) ∧
    (∀ a ∈ (flatL x.kids).map T.id,
      a ∉ (flat (t.removeChildren n).root).map T.id ∧ a ∉ (t.removeChildren n).byId) ∧
    (t.removeChildren n).byId = t.byId.filter (fun a => decide (a ∉ (flatL x.kids).map T.id)) ∧
    (t.removeChildren n).byData =
      (t.byData.map fun e => (e.1, e.2.filter fun a => decide (a ∉ (flatL x.kids).map T.id))).filter
        (fun e => !e.2.isEmpty) ∧
    (t.removeChildren n).typed = t.typed ∧ (t.removeChildren n).hook = t.hook ∧
    (t.removeChildren n).rootNone = (t.rootNone || n == 0) := by
  have hN := h.idsN
  have hxm := findT_some_mem hx
  have hxid := findT_some_id hx
  obtain ⟨e1, e2, e3, e4, e5⟩ := eff_erase_effect (R := x.kids.map T.id) (G := idsL x.kids) h
    (C01.removeChildren_WF t n h)
    (by rw [removeChildren_root]; exact eff_modT_nil_eq_eraseIds hN hx)
    ⟨_, eff_removeChildren_reg h hx⟩ (eff_removeChildren_gone h hx)
  have hnG : n ∉ idsL x.kids := hxid ▸ id_not_mem_idsL_kids (idsNodup_of_mem_flat hN hxm)
  refine ⟨?_, e1, ?_, e3, e4, e5, ?_, ?_, ?_⟩
  · rw [(e2 n x hx hnG).1, eraseIds_eq, eraseIdsL_of_all_mem (fun k hk => List.mem_map_of_mem hk)]
  · intro m y hy hm
    obtain ⟨f1, f2⟩ := e2 m y hy hm
    have hym := findT_some_mem hy
    refine ⟨_, f1, eraseIds_info _ _, f2, fun hmn => ?_, fun hny => ?_⟩
    · rw [eff_eraseIds_kids_info, List.filter_eq_self.2]
      intro k hk
      have := eff_kid_not_kid hN hxm hym (by rw [findT_some_id hy, hxid]; exact hmn) hk
      simpa using this
    · refine eraseIds_of_disjoint (fun a ha hak => hny ?_)
      obtain ⟨c, hc, rfl⟩ := List.mem_map.1 ha
      have hp := findParent_of_mem_kids hN hxm hc
      have := eff_parent_mem_flat hN hym hak hp
      exact mem_ids.2 ⟨x, this, hxid⟩
  · rw [removeChildren_eq hx]; exact unregisterAll_typed _ _
  · rw [removeChildren_eq hx]; exact unregisterAll_hook _ _
  · rw [removeChildren_eq hx]
    show ((t.unregisterAll (iterPost x)).rootNone || n == 0) = _
    rw [unregisterAll_rootNone]

/-- example: `remove_children()` on node 1 of `exTree`, and `clear()`. -/
example : (exTree.removeChildren 1).root =
      mkRoot [exLeaf 1 (exAtom 1 "A"), exLeaf 5 (exAtom 2 "B")] ∧
    (exTree.removeChildren 1).byId = [1, 5] ∧
    (exTree.removeChildren 1).byData = [(.int 1, [1]), (.int 2, [5])] ∧
    (exTree.removeChildren 0).root = mkRoot [] ∧ (exTree.removeChildren 0).byId = [] ∧
    (exTree.removeChildren 0).byData = [] ∧ (exTree.removeChildren 0).rootNone = true := by decide
example := removeChildren_effect exTree 1 _ exTree_wf rfl

/-! ### `remove(with_clones=True)` -/

/-- **`remove(with_clones=True)`** (no `keep_children`) of the node `n` with data id `x.did`: never
refused; with `cloneBranchIds t x.did` the identities in the branches of *all* nodes carrying that data
id (clones nested below other clones included — they disappear with the outer clone),
* the records of the whole tree in pre-order are the old ones without those branches;
* every other node is still there with the same record and the same parent; its child records are the
  old ones without the clones, in the old order; it is literally unchanged if no clone was below it;
* the removed identities are neither reachable nor registered, the registries are the old ones
  without them. -/
theorem remove_withClones_effect (t : Tree) (n : NodeId) (x : T) (h : WF t)
    (hx : findT n t.root = some x) :
    (t.remove n false true).2 = none ∧
    (flat (t.remove n false true).1.root).map T.info =
      ((flat t.root).map T.info).filter (fun i => decide (i.id ∉ cloneBranchIds t x.did)) ∧
    (∀ m y, findT m t.root = some y → m ∉ cloneBranchIds t x.did →
      ∃ y', findT m (t.remove n false true).1.root = some y' ∧ y'.info = y.info ∧
        (t.remove n false true).1.parentId m = t.parentId m ∧
        y'.kids.map T.info = (y.kids.filter (fun k => k.did != x.did)).map T.info ∧
        ((∀ z ∈ flatL y.kids, z.did ≠ x.did) → y' = y)) ∧
    (∀ a ∈ cloneBranchIds t x.did,
      a ∉ (flat (t.remove n false true).1.root).map T.id ∧ a ∉ (t.remove n false true).1.byId) ∧
    (∀ z ∈ flatL t.root.kids, z.did = x.did → ∀ a ∈ (flat z).map T.id, a ∈ cloneBranchIds t x.did) ∧
    (t.remove n false true).1.byId = t.byId.filter (fun a => decide (a ∉ cloneBranchIds t x.did)) ∧
    (t.remove n false true).1.byData =
      (t.byData.map fun e => (e.1, e.2.filter fun a => decide (a ∉ cloneBranchIds t x.did))).filter
        (fun e => !e.2.isEmpty) := by
  have hN := h.idsN
  rw [eff_remove_clones_eq hx]
  obtain ⟨e1, e2, e3, e4, e5⟩ := eff_erase_effect (G := cloneBranchIds t x.did) h
    (eff_foldl_removeOne_WF _ h) (foldl_removeOne_root _ hN) (eff_foldl_removeOne_reg _ h)
    (fun a => by rw [eff_cloneBranchIds h hx])
  refine ⟨rfl, e1, ?_, e3, ?_, e4, e5⟩
  · intro m y hy hm
    obtain ⟨f1, f2⟩ := e2 m y hy hm
    have hym := findT_some_mem hy
    refine ⟨_, f1, eraseIds_info _ _, f2, ?_, fun hfree => ?_⟩
    · rw [eff_eraseIds_kids_info]
      congr 1
      refine List.filter_congr (fun k hk => ?_)
      have := eff_clone_list (n := n) h hx (mem_flatL_root_kids_of_mem_kids hym hk)
      by_cases hd : k.did = x.did
      · simp [hd, this.2 hd]
      · simp [hd, mt this.1 hd]
    · refine eraseIds_of_disjoint (fun a ha hak => ?_)
      obtain ⟨z, hz, rfl⟩ := mem_idsL.1 hak
      have hzr : z ∈ flatL t.root.kids := by
        obtain ⟨c, hc, hzc⟩ := mem_flatL.1 hz
        obtain ⟨k, hk, hck⟩ := mem_flatL.1 (mem_flatL_root_kids_of_mem_kids hym hc)
        exact mem_flatL.2 ⟨k, hk, mem_flat_trans hzc hck⟩
      exact hfree z hz ((eff_clone_list h hx hzr).1 ha)
  · intro z hz hd a ha
    unfold cloneBranchIds
    rw [List.mem_flatMap]
    exact ⟨z, List.mem_filter.2 ⟨hz, by simpa using hd⟩, ha⟩

/-- example: `remove(with_clones=True)` on node 2 of `exTree` removes 2, its child 4 and the clone 5.
Nested clones (`exNested`: the clone 3 of node 1 lies below node 1): whichever clone the call is made
on, all of 1, 2, 3, 5 are gone and only `4:C` is left — the library does the same
(`n.remove(with_clones=True)` on the same tree leaves `C` alone, `_self_check()` passes). -/
example : (exTree.remove 2 false true).1.root =
      mkRoot [.node { id := 1, data := exAtom 1 "A", did := .int 1 } [exLeaf 3 (exAtom 3 "C")]] ∧
    (exTree.remove 2 false true).1.byId = [1, 3] ∧
    (exTree.remove 2 false true).1.byData = [(.int 1, [1]), (.int 3, [3])] ∧
    cloneBranchIds exTree (.int 2) = [2, 4, 5] ∧
    (∀ n ∈ [1, 3, 5], (exNested.remove n false true).1.root = mkRoot [exLeaf 4 (exAtom 3 "C")] ∧
      (exNested.remove n false true).1.byId = [4] ∧
      (exNested.remove n false true).1.byData = [(.int 3, [4])] ∧ (exNested.remove n false true).2 = none) := by
  decide
example := remove_withClones_effect exTree 2 _ exTree_wf rfl
example := remove_withClones_effect exNested 3 _ exNested_wf rfl

/-! ### `set_data()` / `rename()` -/

/-- **`set_data(data, data_id=, with_clones=)`** that succeeds on the node `n` (branch `x`).
* The affected nodes `A` are `n` alone, or with `with_clones=True` every node carrying `n`'s data id.
  (With clones and `with_clones=None` the call is refused — `C01.setData_refusals`; with
  `with_clones=False` only `n` changes: it leaves its clones, which keep the old data object and id.)
* `newData`: the data object given, unless it is the very object the node already holds (or `None`).
* The data id `d` the affected nodes end up with: the explicit `data_id=`; else, if a new object was
  given, the tree's `calc_data_id` hook / `hash` of it; else the old id.
* Every affected record gets `data := newData` (if any) and `data_id := d`; its `id`, `kind`,
  `meta` and every other record are unchanged (`F`); the records in pre-order are the images of the
  old ones; every node is found where it was, with the same children identities in the same order
  and the same parent; `byId` is untouched and a node is listed in the data-id index exactly under
  its (new) data id. -/
theorem setData_effect (t t' : Tree) (n : NodeId) (a? : Option Atom) (did? : Option DataId)
    (wc : Option Bool) (x : T) (h : WF t) (hn : n ≠ 0) (hx : findT n t.root = some x)
    (hr : t.setData n a? did? wc = .ok t') :
    ∃ (d : DataId) (newData : Option Atom) (A : List NodeId) (F : Info → Info),
      newData = a?.filter (fun a => a.obj != x.data.obj) ∧
      (∀ d', did? = some d' → d = d') ∧
      (did? = none → ∀ a, newData = some a → t.calcId a = .ok d) ∧
      (did? = none → newData = none → d = x.did) ∧
      (∀ m, m ∈ A ↔ m = n ∨ (wc = some true ∧ ∃ z ∈ flatL t.root.kids, z.id = m ∧ z.did = x.did)) ∧
      F = (fun i => if i.id ∈ A then { i with data := newData.getD i.data, did := d } else i) ∧
      (flat t'.root).map T.info = ((flat t.root).map T.info).map F ∧
      (∀ m y, findT m t.root = some y →
        ∃ y', findT m t'.root = some y' ∧ y'.info = F y.info ∧
          y'.kids.map T.id = y.kids.map T.id ∧ t'.parentId m = t.parentId m) ∧
      t'.byId = t.byId ∧
      (∀ d' m, (∃ l, (d', l) ∈ t'.byData ∧ m ∈ l) ↔
        ∃ y ∈ flatL t.root.kids, y.id = m ∧ (F y.info).did = d') ∧
      t'.typed = t.typed ∧ t'.hook = t.hook := by
  have hN := h.idsN
  obtain ⟨d, hfin, hroot, hbyId, hty, hhook, _⟩ := eff_setData_root h hn hx hr
  have hFid : ∀ i : Info, (if i.id ∈ (if wc.getD false then sdCur t x else [n])
      then { i with data := (sdNewData x a?).getD i.data, did := d } else i).id = i.id := by
    intro i
    by_cases hm : i.id ∈ (if wc.getD false then sdCur t x else [n])
    · rw [if_pos hm]
    · rw [if_neg hm]
  have hnd : sdNewData x a? = a?.filter (fun a => a.obj != x.data.obj) := by
    unfold sdNewData
    cases a? with
    | none => rfl
    | some a => by_cases e : a.obj = x.data.obj <;> simp [Option.filter, e]
  refine ⟨d, sdNewData x a?, if wc.getD false then sdCur t x else [n], _, hnd, ?_, ?_, ?_, ?_, rfl, ?_, ?_, hbyId, ?_,
    hty, hhook⟩
  · intro d' hd'
    subst hd'
    unfold sdFinalDid at hfin
    cases hs : sdNewData x a? <;> rw [hs] at hfin <;> exact hfin
  · intro hd' a ha
    subst hd'
    unfold sdFinalDid at hfin
    rw [ha] at hfin; exact hfin
  · intro hd' ha
    subst hd'
    unfold sdFinalDid at hfin
    rw [ha] at hfin; exact hfin
  · intro m
    have hxn : ∃ z ∈ flatL t.root.kids, z.id = n ∧ z.did = x.did :=
      ⟨x, h.mem_flatL_of_findT hx hn, findT_some_id hx, rfl⟩
    cases wc with
    | none => simp
    | some b =>
      cases b with
      | false => simp
      | true =>
        simp only [Option.getD_some, if_true, true_and]
        rw [eff_mem_sdCur h]
        exact ⟨Or.inr, fun hm => hm.elim (fun e => e ▸ hxn) id⟩
  · show infos t'.root = (infos t.root).map _
    rw [hroot, infos_mapInfoT]
  · intro m y hy
    refine ⟨mapInfoT (fun i => if i.id ∈ (if wc.getD false then sdCur t x else [n])
        then { i with data := (sdNewData x a?).getD i.data, did := d } else i) y,
      by rw [hroot, findT_mapInfoT hFid hN, hy]; rfl, mapInfoT_info _ _, eff_mapInfo_kids_id hFid y,
      eff_parentId_mapInfoT hFid hN hroot m⟩
  · intro d' m
    have h' := setData_WF_of_ne h hn hr
    rw [← Listed, h'.index.listed, hroot]
    exact exists_node_mapInfoT hFid

/-- example: on node 2 of `exTree` (clone: node 5), new data object `E` (hash 6).
`with_clones=True`: both clones get `E` and the id 6; `with_clones=False`: only node 2 does, node 5
keeps `B` and the id 2; no decision: refused; an explicit `data_id=` alone changes only the id. -/
example : (exTree.setData 2 (some (exAtom 6 "E")) none (some true)).toOption.map (fun t' => (t'.root, t'.byData)) =
      some (mkRoot [.node { id := 1, data := exAtom 1 "A", did := .int 1 }
                      [.node { id := 2, data := exAtom 6 "E", did := .int 6 } [exLeaf 4 (exAtom 4 "D")],
                       exLeaf 3 (exAtom 3 "C")],
                    exLeaf 5 (exAtom 6 "E")],
            [(.int 1, [1]), (.int 4, [4]), (.int 3, [3]), (.int 6, [2, 5])]) ∧
    (exTree.setData 2 (some (exAtom 6 "E")) none (some false)).toOption.map (fun t' => (t'.root, t'.byData)) =
      some (mkRoot [.node { id := 1, data := exAtom 1 "A", did := .int 1 }
                      [.node { id := 2, data := exAtom 6 "E", did := .int 6 } [exLeaf 4 (exAtom 4 "D")],
                       exLeaf 3 (exAtom 3 "C")],
                    exLeaf 5 (exAtom 2 "B")],
            [(.int 1, [1]), (.int 2, [5]), (.int 4, [4]), (.int 3, [3]), (.int 6, [2])]) ∧
    (exTree.setData 2 (some (exAtom 6 "E")) none none).toOption.map (·.root) = none ∧
    (exTree.setData 3 none (some (.str "x")) none).toOption.map (fun t' => (findT 3 t'.root, t'.byData)) =
      some (some (.node { id := 3, data := exAtom 3 "C", did := .str "x" } []),
            [(.int 1, [1]), (.int 2, [2, 5]), (.int 4, [4]), (.str "x", [3])]) := by
  decide
example (t' : Tree) (hr : exTree.setData 2 (some (exAtom 6 "E")) none (some true) = .ok t') :=
  setData_effect exTree t' 2 _ _ _ _ exTree_wf (by decide) rfl hr

/-! ### metadata -/

/-- **`set_meta(key, value)`** as lookup laws (`metaGet` = `get_meta`, `metaKeys` = the dict order):
`key` now maps to `value`, every other key is unchanged; an existing key keeps its place in the dict,
a new one goes to the end; a `None` value (JSON `null`) is `clear_meta(key)`, every other value —
falsy ones included — is stored. -/
theorem meta_set_laws (m : Meta) (k v : String) :
    (∀ k', metaGet (metaSet m k v) k' = if k' = k then some v else metaGet m k') ∧
    metaKeys (metaSet m k v) = (if k ∈ metaKeys m then metaKeys m else metaKeys m ++ [k]) ∧
    metaSetV m k "null" = metaClear m (some k) ∧
    (v ≠ "null" → metaSetV m k v = metaSet m k v) := by
  refine ⟨eff_metaGet_metaSet m k v, eff_metaKeys_metaSet m k v, rfl, fun hv => ?_⟩
  unfold metaSetV
  rw [if_neg (by simpa using hv)]

/-- **`clear_meta(key)` / `clear_meta()`**: without a key everything goes (`None`); with a key that
key is gone and every other key keeps its value and its place; the result is never an empty dict
("None if empty"): clearing the last key gives `None`. -/
theorem meta_clear_laws (m : Meta) (k : String) :
    metaClear m none = none ∧
    (∀ k', metaGet (metaClear m (some k)) k' = if k' = k then none else metaGet m k') ∧
    metaKeys (metaClear m (some k)) = (metaKeys m).filter (· != k) ∧
    (∀ k?, metaClear m k? ≠ some []) ∧
    ((∀ k' ∈ metaKeys m, k' = k) → metaClear m (some k) = none) := by
  refine ⟨by cases m <;> rfl, eff_metaGet_metaClear m k, eff_metaClear_keys m k,
    fun k? => eff_metaClear_ne_empty m k?, eff_metaClear_last m k⟩

/-- **`update_meta(values, replace=)`**: with `replace=True` the metadata *is* `values`; without, on
a node that has no metadata, too; otherwise it is the successive `set_meta` of the items, so for
every key the last value given wins and keys not mentioned keep their value. -/
theorem meta_update_laws (m : Meta) (l vals : List (String × String)) :
    metaUpdate m vals true = some vals ∧
    metaUpdate none vals false = some vals ∧
    metaUpdate (some l) vals false = vals.foldl (fun acc e => metaSet acc e.1 e.2) (some l) ∧
    (∀ k, metaGet (metaUpdate (some l) vals false) k =
      match vals.reverse.lookup k with
      | some v => some v
      | none => metaGet (some l) k) := by
  refine ⟨by cases m <;> rfl, rfl, rfl, fun k => eff_metaGet_foldl_metaSet k vals (some l)⟩

/-- **frame of every metadata edit**: storing the metadata `m` on node `n`
(`setInfoT n (fun inf => { inf with nmeta := m })`) changes the `meta` field of `n` and nothing else:
`n` keeps its other fields and its children (the same branches); the records in pre-order are the old
ones except for that field; every other node is found where it was with the same record, the same
children identities and the same parent, literally unchanged unless it is an ancestor of `n`. -/
theorem setMeta_effect (t : Tree) (n : NodeId) (m : Meta) (x : T) (h : WF t)
    (hx : findT n t.root = some x) :
    findT n (setInfoT n (fun inf => { inf with nmeta := m }) t.root) =
      some (.node { x.info with nmeta := m } x.kids) ∧
    (flat (setInfoT n (fun inf => { inf with nmeta := m }) t.root)).map T.info =
      ((flat t.root).map T.info).map (fun i => if i.id = n then { i with nmeta := m } else i) ∧
    (∀ c y, findT c t.root = some y → c ≠ n →
      ∃ y', findT c (setInfoT n (fun inf => { inf with nmeta := m }) t.root) = some y' ∧
        y'.info = y.info ∧ y'.kids.map T.id = y.kids.map T.id ∧
        (n ∉ (flat y).map T.id → y' = y)) ∧
    (∀ c, (findParent c (setInfoT n (fun inf => { inf with nmeta := m }) t.root)).map T.id =
      (findParent c t.root).map T.id) := by
  have hN := h.idsN
  have hf : ∀ i : Info, ({ i with nmeta := m } : Info).id = i.id := fun _ => rfl
  have hFid : ∀ i : Info, (if i.id = n then ({ i with nmeta := m } : Info) else i).id = i.id := by
    intro i; split <;> rfl
  refine ⟨?_, ?_, ?_, ?_⟩
  · rw [findT_setInfoT hf hN, hx, Option.map_some]
    cases x with
    | node i ks =>
      have : i.id = n := findT_some_id hx
      rw [setInfoT_node, if_pos this]
      rfl
  · exact infos_setInfoT hN
  · intro c y hy hc
    refine ⟨setInfoT n (fun inf => { inf with nmeta := m }) y, by rw [findT_setInfoT hf hN, hy]; rfl, ?_, ?_,
      fun hny => setInfoT_of_not_mem hny⟩
    · rw [setInfoT_info, if_neg (by rw [findT_some_id hy]; exact hc)]
    · rw [setInfoT_eq_mapInfoT (idsNodup_of_mem_flat hN (findT_some_mem hy))]
      exact eff_mapInfo_kids_id hFid y
  · intro c
    rw [setInfoT_eq_mapInfoT hN, eff_findParent_mapInfoT hFid hN]
    cases findParent c t.root with
    | none => rfl
    | some par => simp [mapInfoT_id hFid]

/-- examples for the metadata laws. -/
example : metaSet (some [("a", "1"), ("b", "2")]) "a" "9" = some [("a", "9"), ("b", "2")] ∧
    metaSet (some [("a", "1")]) "b" "0" = some [("a", "1"), ("b", "0")] ∧
    metaSet none "a" "false" = some [("a", "false")] ∧
    metaSetV (some [("a", "1"), ("b", "2")]) "b" "null" = some [("a", "1")] ∧
    metaSetV (some [("a", "1")]) "a" "null" = none ∧
    metaSetV (some [("a", "1")]) "a" "0" = some [("a", "0")] ∧
    metaClear (some [("a", "1"), ("b", "2")]) none = none ∧
    metaClear (some [("a", "1"), ("b", "2")]) (some "c") = some [("a", "1"), ("b", "2")] ∧
    metaUpdate (some [("a", "1"), ("b", "2")]) [("b", "3"), ("c", "4"), ("b", "5")] false =
      some [("a", "1"), ("b", "5"), ("c", "4")] ∧
    metaUpdate (some [("a", "1")]) [("c", "4")] true = some [("c", "4")] ∧
    metaGet (some [("a", "1"), ("b", "2")]) "b" = some "2" := by decide
/-- example: metadata stored on node 2 of `exTree` — only that field of that record changes. -/
example : setInfoT 2 (fun inf => { inf with nmeta := some [("k", "1")] }) exTree.root =
    mkRoot [.node { id := 1, data := exAtom 1 "A", did := .int 1 }
              [.node { id := 2, data := exAtom 2 "B", did := .int 2, nmeta := some [("k", "1")] } [exLeaf 4 (exAtom 4 "D")],
               exLeaf 3 (exAtom 3 "C")],
            exLeaf 5 (exAtom 2 "B")] := by decide
example := setMeta_effect exTree 2 (some [("k", "1")]) _ exTree_wf rfl

/-! ### inserting: the position given by `before`, and what an edit of one child list leaves alone -/

/-- **the position given by `before`**: an accepted `before` makes the insert function put the new
child `c` at `insertPos ks before` of the old child list `ks` — `None`/`False`: appended; `True`:
first; an index `i`: where `list.insert(i, …)` puts it (negative from the end, clamped:
`pyIndex i ks.length`); a sibling node: directly before it — the old children keep their order.
Refused are exactly a `before` node that is not a child (ValueError) and an index other than 0/1 on
a target whose `_children` is `None` (the `assert`). -/
theorem insertPosition_effect (ks : List T) (isNone : Bool) (before : Before) (hnone : isNone = true → ks = []) :
    (∀ ins, insertPosition ks isNone before = .ok ins →
      ∀ c, ins ks c = ks.take (insertPos ks before) ++ c :: ks.drop (insertPos ks before)) ∧
    (∀ e, insertPosition ks isNone before = .error e →
      (∃ b, before = .node b ∧ b ∉ ks.map T.id ∧ e = .value) ∨
      (∃ i, before = .idx i ∧ isNone = true ∧ i ≠ 0 ∧ i ≠ 1 ∧ e = .assertion)) :=
  ⟨fun _ h c => eff_insertPosition h hnone c, fun _ h => eff_insertPosition_error h⟩

/-- **`add_child(data, before=)`: the new leaf sits at the position given by `before`** among the
old children of the parent, which keep their order and their branches. -/
theorem addData_position (t t' : Tree) (next parent : NodeId) (a : Atom) (before : Before)
    (did? : Option DataId) (kind : Option String) (p : T) (hp : findT parent t.root = some p)
    (hr : t.addData next parent a before did? kind = .ok t') :
    ∃ did, (did? = some did ∨ (did? = none ∧ t.calcId a = .ok did)) ∧
      findT parent t'.root = some (.node p.info
        (p.kids.take (insertPos p.kids before) ++
          T.node { id := next, data := a, did := did, kind := if t.typed then some (kind.getD "child") else none } [] ::
          p.kids.drop (insertPos p.kids before))) := by
  obtain ⟨p', ins, did, hp', hins, hroot, hdid⟩ := C01.addData_effect' t t' next parent a before did? kind hr
  rw [hp] at hp'
  cases hp'
  refine ⟨did, hdid, ?_⟩
  rw [hroot, findT_modT_self_of hp]
  congr 2
  refine eff_insertPosition hins (fun hnone => ?_) _
  unfold Tree.childrenNone at hnone
  simpa using (Bool.and_eq_true_iff.1 hnone).1

/-- **an edit of the child list of one node leaves everything else alone** (`modT p g`: the form of
the effect equations of add, move, copy and sort).  With distinct identities and `q` the node `p`:
`p` keeps its record and gets the child list `g q.kids`; every node that is neither in an old nor in
a new child branch of `p` is found where it was, with the same record and the same parent; unless it
is `p` itself its child records are the old ones in the old order; and unless it is `p` or an
ancestor of `p` it is literally unchanged. -/
theorem modT_effect (root q : T) (p : NodeId) (g : List T → List T) (hN : ((flat root).map T.id).Nodup)
    (hp : findT p root = some q) :
    findT p (modT p g root) = some (.node q.info (g q.kids)) ∧
    (∀ m y, findT m root = some y → m ∉ (flatL q.kids).map T.id → m ∉ (flatL (g q.kids)).map T.id →
      ∃ y', findT m (modT p g root) = some y' ∧ y'.info = y.info ∧
        (findParent m (modT p g root)).map T.id = (findParent m root).map T.id ∧
        (m ≠ p → y'.kids.map T.info = y.kids.map T.info) ∧
        (p ∉ (flat y).map T.id → y' = y)) := by
  refine ⟨findT_modT_self_of hp, fun m y hy h1 h2 => ⟨modT p g y, ?_, modT_info p g y, ?_, ?_, ?_⟩⟩
  · rw [findT_modT_of hN hp h1 h2, hy]; rfl
  · rw [findParent_modT_of hN hp h1 h2]
    cases findParent m root with
    | none => rfl
    | some par => simp
  · intro hmp
    exact modT_kids_map_info (by rw [findT_some_id hy]; exact hmp)
  · exact fun h => modT_of_not_mem h

/-- examples: positions for the three children `[a, b, c]` (identities 11, 12, 13), and
`add_child("E", before=…)` below node 1 of `exTree` (children 2, 3). -/
example : let ks := [exLeaf 11 (exAtom 1 "a"), exLeaf 12 (exAtom 2 "b"), exLeaf 13 (exAtom 3 "c")]
    insertPos ks .none = 3 ∧ insertPos ks .bTrue = 0 ∧ insertPos ks (.idx 1) = 1 ∧
    insertPos ks (.idx (-1)) = 2 ∧ insertPos ks (.idx 7) = 3 ∧ insertPos ks (.idx (-9)) = 0 ∧
    insertPos ks (.node 13) = 2 := by decide
example : ∀ b ∈ [(Before.none, [2, 3, 6]), (.bTrue, [6, 2, 3]), (.idx 1, [2, 6, 3]), (.idx (-1), [2, 6, 3]),
      (.idx (-5), [6, 2, 3]), (.idx 9, [2, 3, 6]), (.node 3, [2, 6, 3]), (.node 2, [6, 2, 3])],
    ((exTree.addData 6 1 (exAtom 6 "E") b.1 none none).toOption.bind (fun t' => findT 1 t'.root)).map
      (fun y => y.kids.map T.id) = some b.2 := by decide
example (t' : Tree) (hr : exTree.addData 6 1 (exAtom 6 "E") (.idx (-1)) none none = .ok t') :=
  addData_position exTree t' 6 1 _ _ none none _ rfl hr
example := modT_effect exTree.root _ 1 (fun l => l.reverse) exTree_wf.ids rfl

/-! ### an algebraic law: remove undoes add -/

/-- **`remove()` undoes `add_child()`.**  In a well-formed state: adding a new leaf — below any parent, at any position
(`before` = None / True / False / index / sibling), with an explicit, a calculated or the default data id, with or without
kind — and then removing that leaf again gives back every child list (the whole nested structure with all node records) and
both registries (`_node_by_id` keys in order, `_nodes_by_data_id` with its keys and clone lists in order) exactly as they
were: the addition had no effect beyond the new leaf, and the removal none beyond taking it out.  (Not compared: the flag
that distinguishes `_children == []` from `None` on the system root, which is not observable.) -/
theorem add_then_remove_restores (t t' : Tree) (next parent : NodeId) (a : Atom) (before : Before)
    (did? : Option DataId) (kind : Option String)
    (h : WF t) (hf : C01.Fresh t next) (hr : t.addData next parent a before did? kind = .ok t') :
    (t'.removeOne next).root = t.root ∧ (t'.removeOne next).byId = t.byId ∧
    (t'.removeOne next).byData = t.byData ∧ (t'.removeOne next).typed = t.typed ∧ (t'.removeOne next).hook = t.hook :=
  removeOne_added_leaf t t' next parent a before did? kind h hf hr

/-- non-vacuity: the example tree of this file, a leaf added before the first child of node 1 and removed again. -/
example : ∃ t', exTree.addData 100 1 { obj := 77, eqc := 77, hid := .int 77, truthy := true, isStr := true, name := "new" } .bTrue none none = .ok t' ∧
    (t'.removeOne 100).root = exTree.root := by
  refine ⟨_, rfl, ?_⟩
  decide

end Nutree.C04
