/-
  C09 — Searches return exactly the matching nodes, in order, within the limit.
  Property theorems only; helper lemmas live in Nutree/Lemmas.
-/
import Nutree.Model.Search
import Nutree.Lemmas.Iter
namespace Nutree.C09
open Nutree T Nutree.Search

/-- index lookup with a limit k ≥ 1 returns a prefix of at most k of the clone list. -/
theorem treeFindAll_limit (idx : Index) (d : DataId) (k : Nat) :
    treeFindAllId idx d (some (k + 1)) = (Spec.clones idx d).take (k + 1) := by
  unfold treeFindAllId Spec.clones
  cases h : idx.lookup d with
  | none => simp
  | some res => cases res <;> simp

end Nutree.C09
