/-
  C09 — Searches return exactly the matching nodes, in order, within the limit.
  Property theorems only; helper lemmas live in Nutree/Lemmas.
-/
import Nutree.Model.Search
import Nutree.Lemmas.Iter
import Nutree.Lemmas.Search
namespace Nutree.C09
open Nutree T Nutree.Search

/-- index lookup with a limit k ≥ 1 returns a prefix of at most k of the clone list. -/
theorem treeFindAll_limit (idx : Index) (d : DataId) (k : Nat) :
    treeFindAllId idx d (some (k + 1)) = (Spec.clones idx d).take (k + 1) := by
  unfold treeFindAllId Spec.clones
  cases h : idx.lookup d with
  | none => simp
  | some res => cases res <;> simp

/-- the counting loop with `break` = the matches of the list, cut to the first k (k ≥ 1);
no limit for None / 0 -/
theorem searchLoop_spec (m : T → Bool) (xs : List T) :
    (∀ k, searchLoop m (some (k+1)) xs 0 = (xs.filter m).take (k+1)) ∧
    searchLoop m none xs 0 = xs.filter m ∧ searchLoop m (some 0) xs 0 = xs.filter m :=
  ⟨fun k => by simpa using searchLoop_some m k xs 0 (Nat.zero_le _),
   searchLoop_none m xs 0, searchLoop_zero m xs 0⟩

theorem findAll_spec (m : T → Bool) (k : Option Nat) (addSelf : Bool) (self : T) :
    nodeFindAllMatch m k addSelf self = Spec.findAll m k addSelf self := by
  simp [nodeFindAllMatch, Spec.findAll, search_eq]

theorem findFirst_spec (m : T → Bool) (self : T) :
    nodeFindFirstMatch m self = Spec.findFirst m self := by
  simp [nodeFindFirstMatch, Spec.findFirst, search_eq, limit_one_head?]

theorem findAllId_spec (d : DataId) (addSelf : Bool) (self : T) :
    nodeFindAllId d addSelf self = Spec.matching (fun n => n.did == d) addSelf self ∧
    nodeFindFirstId d self = (Spec.matching (fun n => n.did == d) false self).head? := by
  simp [nodeFindAllId, nodeFindFirstId, Spec.matching, iterPre_flat]

/-- consequences in the words of the property: at most k results, all of them match, they
are the FIRST matches in pre-order, in order -/
theorem findAll_props (m : T → Bool) (k : Nat) (addSelf : Bool) (self : T) :
    let res := nodeFindAllMatch m (some (k+1)) addSelf self
    let all := (if addSelf then [self] else []) ++ flatL self.kids
    res.length ≤ k + 1 ∧ (∀ n ∈ res, m n = true) ∧ res.Sublist all ∧ res <+: all.filter m := by
  intro res all
  have hres : res = (all.filter m).take (k + 1) := by
    simp [res, all, nodeFindAllMatch, search_eq, Spec.limit, Spec.matching]
  rw [hres]
  refine ⟨List.length_take_le _ _, ?_, ?_, List.take_prefix _ _⟩
  · intro n hn
    exact (List.mem_filter.mp (List.mem_of_mem_take hn)).2
  · exact (List.take_sublist _ _).trans List.filter_sublist

theorem unlimited_exact (m : T → Bool) (addSelf : Bool) (self : T) (n : T) :
    n ∈ nodeFindAllMatch m none addSelf self ↔
      (n ∈ (if addSelf then [self] else []) ++ flatL self.kids ∧ m n = true) := by
  simp only [nodeFindAllMatch, search_eq, Spec.limit, Spec.matching, List.mem_filter]

/-- index path, any limit -/
theorem treeFindAll_spec (idx : Index) (d : DataId) (k : Option Nat) :
    treeFindAllId idx d k = Spec.limit k (Spec.clones idx d) := treeFindAllId_eq idx d k

theorem treeFindFirst_spec (idx : Index) (d : DataId) :
    treeFindFirstId idx d = (Spec.clones idx d).head? := treeFindFirstId_eq idx d

/-- index access: needs the index invariant "no empty clone list" (part of C02's IndexExact) -/
def NoEmpty (idx : Index) : Prop := ∀ p ∈ idx, p.2 ≠ []

theorem getItem_spec (byId : List (Int × T)) (idx : Index) (key : Key) (h : NoEmpty idx) :
    getItem byId idx key = Spec.getItem byId idx key := getItem_eq byId idx key h

/-- (the hypothesis `NoEmpty` is not used: `contains` agrees with the specification for
every index, see `Search.contains_eq`) -/
theorem contains_spec (idx : Index) (cid : DataId) (_h : NoEmpty idx) :
    contains idx cid = !(Spec.clones idx cid).isEmpty := contains_eq idx cid

/-- decision table of index access in the words of the property -/
theorem getItem_cases (byId : List (Int × T)) (idx : Index) (h : NoEmpty idx) :
    getItem byId idx .node = .valueError ∧
    (∀ i n cid, byId.lookup i = some n →
        getItem byId idx (.obj true (some (.int i)) cid) = .ok n) ∧
    (∀ isInt asId cid, (∀ i, isInt = true → asId = some (.int i) → byId.lookup i = none) →
        (asId.elim [] (Spec.clones idx)) = [] → Spec.clones idx cid = [] →
        getItem byId idx (.obj isInt asId cid) = .keyError) := by
  refine ⟨rfl, ?_, ?_⟩
  · intro i n cid hl
    simp [getItem, hl]
  · intro isInt asId cid hid hd hc
    rw [getItem_spec byId idx _ h]
    cases asId with
    | none => cases isInt <;> simp [Spec.getItem, hc]
    | some d =>
      simp only [Option.elim] at hd
      cases isInt with
      | false => simp [Spec.getItem, hc, hd]
      | true =>
        cases d with
        | str s => simp [Spec.getItem, hc, hd]
        | int i => simp [Spec.getItem, hc, hd, hid i rfl rfl]

/-! ### non-vacuity -/

private def nA : T := .node { id := 1, data := default, did := .str "a" } []
private def nB : T := .node { id := 2, data := default, did := .str "b" } []
private def nA' : T := .node { id := 3, data := default, did := .str "a" } []
private def nC : T := .node { id := 4, data := default, did := .int 7 } []
/-- a 3-entry index, the first clone list of length 2. -/
private def idx3 : Index := [(.str "a", [nA, nA']), (.str "b", [nB]), (.int 7, [nC])]

example : NoEmpty idx3 ∧ idx3.length = 3 ∧ (Spec.clones idx3 (.str "a")).length = 2 := by
  refine ⟨?_, rfl, rfl⟩
  intro p hp
  simp [idx3] at hp
  rcases hp with rfl | rfl | rfl <;> simp

/-- `tree["a"]` with two clones of "a": ambiguous (in the model and in the specification). -/
example : (match getItem [] idx3 (.obj false (some (.str "a")) (.str "a")) with
    | .ambiguous => true | _ => false) = true ∧
    (match Spec.getItem [] idx3 (.obj false (some (.str "a")) (.str "a")) with
    | .ambiguous => true | _ => false) = true := by decide

example : getItem [] idx3 (.obj false (some (.str "a")) (.str "a")) = .ambiguous := by
  simp [getItem, idx3, treeFindAllId]

/-- a unique hit and a miss, for contrast. -/
example : getItem [] idx3 (.obj false (some (.str "b")) (.str "b")) = .ok nB ∧
    getItem [(4, nC)] idx3 (.obj true (some (.int 4)) (.int 4)) = .ok nC ∧
    getItem [(4, nC)] idx3 (.obj true (some (.int 7)) (.int 7)) = .ok nC := by decide

/-- without `NoEmpty` the model and the specification differ (an empty clone list under
the key itself shadows the data lookup): the hypothesis of `getItem_spec` is needed. -/
example : ∃ idx : Index, ¬ NoEmpty idx ∧
    getItem [] idx (.obj false (some (.str "x")) (.str "b")) ≠
      Spec.getItem [] idx (.obj false (some (.str "x")) (.str "b")) := by
  refine ⟨[(.str "x", []), (.str "b", [nB])], ?_, ?_⟩
  · intro h; exact h (.str "x", []) (by simp) rfl
  · decide

end Nutree.C09
