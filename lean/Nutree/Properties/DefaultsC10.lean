/-
C10, source-level obligation: the default values of the documented keyword arguments, as read from the
signatures in the source text on this run (`Generated.defaultsC10`, translate/gen_defaults.py), are the
documented ones (`Spec.Defaults.documentedC10`).  The correspondence harness leaves out arguments that
equal their documented default; this table also covers the parameters and call paths it does not sample.
-/
import Nutree.Generated.Defaults
import Nutree.Spec.Defaults

namespace Nutree.C10

theorem defaults_as_documented : Generated.defaultsC10 = Spec.Defaults.documentedC10 := by decide

end Nutree.C10
