/-
  C05 — save/load round trip of the native file format.
  Property theorems only; helper lemmas live in Nutree/Lemmas (SerialList, SerialAdd, SerialRound,
  SerialMaps, SerialLoad).
-/
import Nutree.Model.Serial
import Nutree.Lemmas.SerialRound
import Nutree.Lemmas.SerialLoad
namespace Nutree.C05
open Nutree T Nutree.Ser Nutree.Flt.Spec

/-- the per-node hypotheses of the round trip, spelled out (they are bundled as `Ser.NodeOK`):
* the mappers are inverse on the node's entry: `deser` recovers the data object from what `ser`
  made of the dict, and `ser` leaves `data_id` (and `kind` in a typed tree) alone;
* a plain string is resolved to the node's data object (`strAtom n.name = n.data` for string nodes);
* the node carries a kind iff the tree is typed. -/
theorem nodeOK_of {typed : Bool} {ser : T → Fields → Option Fields} {deser : Fields → DRes}
    {strAtom : String → Atom} {n : T}
    (hser : ∀ d, makeEntry typed n = .dict d →
      deser ((ser n d).getD d) = DRes.atom n.data ∧
      lookupF ((ser n d).getD d) "data_id" = lookupF d "data_id" ∧
      (typed = true → lookupF ((ser n d).getD d) "kind" = lookupF d "kind"))
    (hstr : n.data.isStr = true → strAtom n.name = n.data)
    (hkind : n.kind.isSome = typed) : NodeOK typed ser deser strAtom n :=
  ⟨hser, fun s hs => by obtain ⟨_, _, rfl, h⟩ := makeEntry_str hs; exact hstr h, hkind⟩

/-- R1. **Reading back the written list rebuilds the forest** — clones included.

Source forest `tops` with sibling-unique data ids at every level (top level included); `typed`
arbitrary (a node carries a kind iff `typed`); mappers inverse on the entries; string nodes
resolved by `strAtom`; nodes with equal data ids carry equal data objects (`DataById`: that is what
"clone" means — a reference copies the data object of the first occurrence); no key/value maps;
`isClone` arbitrary.  Then `fromList` succeeds on what `toList` wrote, and the rebuilt tree has the
same shape, order, data objects, data ids and kinds (`shL`) and is well-formed.

Not needed (and not assumed): distinctness of the source's node ids; the default-id rule
`n.did = n.data.hid` for entries without `data_id` holds by construction of `makeEntry`. -/
theorem fromList_toList (typed : Bool) (strAtom : String → Atom) (deser : Fields → DRes)
    (ser : T → Fields → Option Fields) (isClone : T → Bool) (tops : List T) (rows : List (Nat × Payload))
    (hser : ∀ n ∈ flatL tops, ∀ d, makeEntry typed n = .dict d →
      deser ((ser n d).getD d) = DRes.atom n.data ∧
      lookupF ((ser n d).getD d) "data_id" = lookupF d "data_id" ∧
      (typed = true → lookupF ((ser n d).getD d) "kind" = lookupF d "kind"))
    (hstr : ∀ n ∈ flatL tops, n.data.isStr = true → strAtom n.name = n.data)
    (hkind : ∀ n ∈ flatL tops, n.kind.isSome = typed)
    (htop : (tops.map T.did).Nodup) (hsib : ∀ x ∈ flatL tops, (x.kids.map T.did).Nodup)
    (hclone : DataById (flatL tops))
    (h : toList typed {} ser isClone tops = some rows) :
    ∃ t', fromList typed strAtom deser rows = .ok t' ∧ shL t'.root.kids = shL tops ∧ WF t' := by
  obtain ⟨t', h1, h2, h3, _⟩ := fromList_toList_core (strAtom := strAtom) (deser := deser)
    (fun n hn => nodeOK_of (hser n hn) (hstr n hn) (hkind n hn)) htop hsib hclone h
  exact ⟨t', h1, h2, h3⟩

/-- R2. **`load ∘ save`.**  Under the hypotheses of R1, for options whose maps are valid for every
written entry (`Ser.ValidFor`: `Ser.ValidMaps o` for every dict entry, see C12 L5) and whose
`file_meta` does not overwrite `$generator`, `$key_map`, `$value_map` (`Ser.MetaOK`): loading the
document that `save` wrote succeeds, rebuilds the forest (same shape, order, data objects, data
ids, kinds; well-formed), and hands exactly the stored header to the caller (`file_meta`). -/
theorem load_save (typed : Bool) (strAtom : String → Atom) (deser : Fields → DRes)
    (ser : T → Fields → Option Fields) (o : Opts) (tops : List T) (doc : JVal)
    (hser : ∀ n ∈ flatL tops, ∀ d, makeEntry typed n = .dict d →
      deser ((ser n d).getD d) = DRes.atom n.data ∧
      lookupF ((ser n d).getD d) "data_id" = lookupF d "data_id" ∧
      (typed = true → lookupF ((ser n d).getD d) "kind" = lookupF d "kind"))
    (hstr : ∀ n ∈ flatL tops, n.data.isStr = true → strAtom n.name = n.data)
    (hkind : ∀ n ∈ flatL tops, n.kind.isSome = typed)
    (htop : (tops.map T.did).Nodup) (hsib : ∀ x ∈ flatL tops, (x.kids.map T.did).Nodup)
    (hclone : DataById (flatL tops))
    (hvalid : ValidFor typed o ser tops) (hmeta : MetaOK o)
    (hs : saveJ typed o ser tops = some doc) :
    ∃ t', loadJ typed strAtom deser doc = .ok (t', header o) ∧ shL t'.root.kids = shL tops ∧ WF t' :=
  load_save_core (fun n hn => nodeOK_of (hser n hn) (hstr n hn) (hkind n hn)) htop hsib hclone hvalid hmeta hs

/-- R3. **The options do not matter for the result**: two valid option sets — whatever key map, value
map and file meta — give documents that load to the same forest. -/
theorem options_irrelevant (typed : Bool) (strAtom : String → Atom) (deser : Fields → DRes)
    (ser : T → Fields → Option Fields) (o₁ o₂ : Opts) (tops : List T) (doc₁ doc₂ : JVal)
    (hser : ∀ n ∈ flatL tops, ∀ d, makeEntry typed n = .dict d →
      deser ((ser n d).getD d) = DRes.atom n.data ∧
      lookupF ((ser n d).getD d) "data_id" = lookupF d "data_id" ∧
      (typed = true → lookupF ((ser n d).getD d) "kind" = lookupF d "kind"))
    (hstr : ∀ n ∈ flatL tops, n.data.isStr = true → strAtom n.name = n.data)
    (hkind : ∀ n ∈ flatL tops, n.kind.isSome = typed)
    (htop : (tops.map T.did).Nodup) (hsib : ∀ x ∈ flatL tops, (x.kids.map T.did).Nodup)
    (hclone : DataById (flatL tops))
    (hv₁ : ValidFor typed o₁ ser tops) (hm₁ : MetaOK o₁) (hs₁ : saveJ typed o₁ ser tops = some doc₁)
    (hv₂ : ValidFor typed o₂ ser tops) (hm₂ : MetaOK o₂) (hs₂ : saveJ typed o₂ ser tops = some doc₂) :
    ∃ t₁ t₂, loadJ typed strAtom deser doc₁ = .ok (t₁, header o₁) ∧
      loadJ typed strAtom deser doc₂ = .ok (t₂, header o₂) ∧
      shL t₁.root.kids = shL t₂.root.kids ∧ WF t₁ ∧ WF t₂ := by
  obtain ⟨t₁, h1, h2, h3⟩ := load_save typed strAtom deser ser o₁ tops doc₁ hser hstr hkind htop hsib hclone hv₁ hm₁ hs₁
  obtain ⟨t₂, h4, h5, h6⟩ := load_save typed strAtom deser ser o₂ tops doc₂ hser hstr hkind htop hsib hclone hv₂ hm₂ hs₂
  exact ⟨t₁, t₂, h1, h4, h2.trans h5.symm, h3, h6⟩

end Nutree.C05
