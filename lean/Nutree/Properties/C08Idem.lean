/-
  C08 — an algebraic law: filtering in place is idempotent for plain Boolean predicates that judge a node
  by its own record (data, ids, kind, metadata) and not by what currently hangs below it.
  (A predicate such as `lambda n: n.is_leaf()` is not of that kind, and filtering with it is not
  idempotent: `not_idempotent_for_shape_predicates`.)
-/
import Nutree.Properties.C08
import Nutree.Lemmas.FilterIdem
namespace Nutree.C08
open Nutree T Nutree.Flt

/-- **Filtering twice = filtering once.**  Well-formed state, existing start node `x`, predicate `v`
answering only `True` / `False` (`BoolOnly`) from the node's record (`InfoOnly`): after a second
`x.filter(v)` the start node is still there and its children are exactly what the first call left —
the specification's forest `filterSpec v x.kids` (identities, records, order) —, and both calls succeed. -/
theorem filter_idempotent (t : Tree) (start : NodeId) (v : T → Verdict) (x : T) (h : WF t)
    (hx : findT start t.root = some x) (hi : InfoOnly v) (hb : BoolOnly v) :
    let t1 := (filterInPlace t start v).1
    ∃ x1 x2, findT start t1.root = some x1 ∧ findT start (filterInPlace t1 start v).1.root = some x2 ∧
      x2.info = x.info ∧ x1.kids = Spec.filterSpec v x.kids ∧ x2.kids = x1.kids ∧
      (filterInPlace t start v).2 = none ∧ (filterInPlace t1 start v).2 = none := by
  intro t1
  have hv : ∀ (y : T), ∀ m ∈ flatL y.kids, v m ≠ .other ∧ v m ≠ .error := by
    intro y m _
    rcases hb m with e | e <;> rw [e] <;> exact ⟨by decide, by decide⟩
  obtain ⟨x1, h1, i1, k1, e1⟩ := filterInPlace_spec t start v x h hx (hv x)
  have hw1 : WF t1 := filterInPlace_WF t start v h
  obtain ⟨x2, h2, i2, k2, e2⟩ := filterInPlace_spec t1 start v x1 hw1 h1 (hv x1)
  refine ⟨x1, x2, h1, h2, i2.trans i1, k1, ?_, e1, e2⟩
  rw [k2, k1, filterSpec_idem hi hb]

/-- the hypothesis `InfoOnly` is needed: a predicate that accepts leaves only keeps a leaf's parent for
the leaf's sake in the first pass, and … the same in the second; but a predicate that accepts exactly
the nodes WITH children loses a level per pass. -/
theorem not_idempotent_for_shape_predicates :
    let v : T → Verdict := fun n => if n.kids.isEmpty then .reject else .accept
    let a : T := .node { id := 1, data := ⟨1, 1, .int 1, true, false, "a"⟩, did := .int 1 }
      [.node { id := 2, data := ⟨2, 2, .int 2, true, false, "b"⟩, did := .int 2 }
        [.node { id := 3, data := ⟨3, 3, .int 3, true, false, "c"⟩, did := .int 3 } []]]
    ((flatL (Spec.filterSpec v [a])).map T.id, (flatL (Spec.filterSpec v (Spec.filterSpec v [a]))).map T.id)
      = ([1, 2], [1]) := by
  decide +kernel

/-- non-vacuity of `filter_idempotent`: a predicate on the data id is `InfoOnly` and `BoolOnly`. -/
example : InfoOnly (fun n => if n.did == .int 2 then .accept else .reject) ∧
    BoolOnly (fun n => if n.did == .int 2 then .accept else .reject) :=
  ⟨fun _ _ _ => rfl, fun n => by by_cases h : (n.did == DataId.int 2) = true <;> simp [h]⟩

end Nutree.C08
