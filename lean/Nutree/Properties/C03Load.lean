/-
  C03 (load / from_dict routes) — the readers on ARBITRARY, externally produced documents.

  For every input — no well-formedness hypothesis on the document —
  * whatever `_from_list`, `load`, `from_dict` return is a well-formed tree (C01), in particular no
    parent has two children with one data_id (C03);
  * a row / item that would put a second child with an already present data_id under its parent is
    refused with `UniqueConstraintError` (`Err.unique`);
  * the other malformations of the node list are classified by the exception the code raises.
  Property theorems only; the helper lemmas are in Nutree/Lemmas/SerialWF.lean.

  Vocabulary (Nutree/Model/Serial.lean): `fromList` reads well-shaped rows `(parent index,
  str | index | dict)`; `fromListG` reads arbitrary entries `(PKey, Cell)`; `fromListState(G)` is the
  state of the loop after the last entry: `(tree, next fresh id, node_idx_map)`; `decodeNodes` is the
  first loop of `load` (unpack, un-compress); `rowDid` / `itemDid` (SerialWF) = the data_id the node
  created for a row / item would get.
-/
import Nutree.Model.Serial
import Nutree.Spec.WF
import Nutree.Lemmas.SerialWF
import Nutree.Lemmas.SerialMaps
namespace Nutree.C03
open Nutree T Nutree.Ser Nutree.C01

/-! ### demo parameters for the non-vacuity examples -/

/-- string `s` ↦ a data object whose hash is the length of `s`. -/
def demoAtom (s : String) : Atom :=
  { obj := s.length, eqc := s.length, hid := .int s.length, truthy := true, isStr := true, name := s }

/-- a mapper that accepts every dict: the data object is chosen by the number of fields. -/
def demoDeser (d : Fields) : DRes :=
  .atom { obj := 100 + d.length, eqc := 100 + d.length, hid := .int (100 + d.length), truthy := true, isStr := false, name := "obj" }

/-! ### 1. `_from_list` returns well-formed trees only -/

/-- the state of the loop of `_from_list` after any rows: the tree is well-formed, the counter is
fresh, and `node_idx_map` has exactly the keys `0 … rows.length`. -/
theorem fromListState_inv (typed : Bool) (sa : String → Atom) (ds : Fields → DRes) (rows : List (Nat × Payload))
    (t : Tree) (nx : Nat) (im : List (Nat × NodeId))
    (h : fromListState typed sa ds rows = .ok (t, nx, im)) :
    WF t ∧ Fresh t nx ∧ im.map (·.1) = List.range (rows.length + 1) ∧ t.typed = typed ∧ t.hook = none := by
  have i := swInv_state h
  exact ⟨i.wf, i.fresh, i.keys, i.typed, i.hook⟩

example : ∃ t nx im, fromListState false demoAtom demoDeser [(0, .str "a"), (1, .str "bb"), (0, .ref 2)] = .ok (t, nx, im)
    ∧ nx = 4 ∧ im = [(0, 0), (1, 1), (2, 2), (3, 3)] := ⟨_, _, _, rfl, rfl, rfl⟩

/-- **`_from_list` (well-shaped rows) returns a well-formed tree, for ALL row lists.** -/
theorem fromList_WF (typed : Bool) (sa : String → Atom) (ds : Fields → DRes) (rows : List (Nat × Payload)) (t : Tree)
    (h : fromList typed sa ds rows = .ok t) : WF t := by
  obtain ⟨nx, im, hs⟩ := sw_state_of_fromList h
  exact (swInv_state hs).wf

example : ∃ t, fromList true demoAtom demoDeser [(0, .str "a"), (1, .dict [("kind", .str "k")]), (0, .ref 2)] = .ok t
    ∧ t.root.kids.length = 2 := ⟨_, rfl, rfl⟩

/-- **`_from_list` on arbitrary entries returns a well-formed tree.** -/
theorem fromListG_WF (typed : Bool) (sa : String → Atom) (ds : Fields → DRes) (rows : List (PKey × Cell)) (t : Tree)
    (h : fromListG typed sa ds rows = .ok t) : WF t := by
  obtain ⟨nx, im, hs⟩ := sw_state_of_fromListG h
  exact (swInv_stateG hs).wf

example : ∃ t, fromListG false demoAtom demoDeser [(.idx 0, .pl (.str "a")), (.idx 1, .pl (.ref 1))] = .ok t
    ∧ t.byId = [1, 2] := ⟨_, rfl, rfl⟩

/-- the general reader extends the reader of well-shaped rows. -/
theorem fromListG_liftRow (typed : Bool) (sa : String → Atom) (ds : Fields → DRes) (rows : List (Nat × Payload)) :
    fromListG typed sa ds (rows.map liftRow) = fromList typed sa ds rows := by
  unfold fromListG fromList
  rw [sw_stateG_lift]

/-! ### 2. `load` returns well-formed trees only -/

/-- **`Tree.load` / `TypedTree.load` return a well-formed tree, for ALL documents.** -/
theorem loadJ_WF (typed : Bool) (sa : String → Atom) (ds : Fields → DRes) (doc : JVal) (t : Tree) (fm : Fields)
    (h : loadJ typed sa ds doc = .ok (t, fm)) : WF t := by
  obtain ⟨km, vm, nodes, rows, _, hf⟩ := sw_loadJ_ok h
  exact fromListG_WF _ _ _ _ _ hf

/-- a document with the header that `save` writes (no maps). -/
def demoDoc (nodes : List JVal) : JVal :=
  .obj [("meta", .obj [("$generator", .str ("nutree/" ++ Generated.version))]), ("nodes", .arr nodes)]

/-- `load` of a document with a nutree header is the two loops: decode the entries, then `_from_list`. -/
theorem loadJ_eq (typed : Bool) (sa : String → Atom) (ds : Fields → DRes) (top hdr : Fields) (nodes : List JVal) (g : String)
    (hm : lookupF top "meta" = some (.obj hdr)) (hn : lookupF top "nodes" = some (.arr nodes))
    (hg : lookupF hdr "$generator" = some (.str g)) (hnut : hasNutree g = true) :
    loadJ typed sa ds (.obj top) =
      match decodeNodes (loadKm hdr) (loadVm hdr) nodes with
      | .error e => .error e
      | .ok rows => (fromListG typed sa ds rows).map fun t => (t, hdr) := by
  exact loadJ_ok_eq_str hm hn hg hnut

/-- `load` of a demo document. -/
theorem demoDoc_load (typed : Bool) (sa : String → Atom) (ds : Fields → DRes) (nodes : List JVal) :
    loadJ typed sa ds (demoDoc nodes) =
      match decodeNodes [] [] nodes with
      | .error e => .error e
      | .ok rows => (fromListG typed sa ds rows).map fun t => (t, [("$generator", .str ("nutree/" ++ Generated.version))]) := by
  unfold demoDoc
  rw [loadJ_eq typed sa ds _ [("$generator", .str ("nutree/" ++ Generated.version))] nodes ("nutree/" ++ Generated.version)
    (by simp [lookupF, List.lookup]) (by simp [lookupF, List.lookup]) (by simp [lookupF, List.lookup]) hasNutree_generator]
  have h1 : loadKm [("$generator", JVal.str ("nutree/" ++ Generated.version))] = [] := by simp [loadKm, lookupF, List.lookup]
  have h2 : loadVm [("$generator", JVal.str ("nutree/" ++ Generated.version))] = [] := by simp [loadVm, lookupF, List.lookup]
  rw [h1, h2]

example : ∃ t fm, loadJ false demoAtom demoDeser
    (demoDoc [.arr [.num 0, .str "a"], .arr [.bool true, .str "bb"], .arr [.bool false, .num 2]]) = .ok (t, fm)
    ∧ t.byId = [1, 2, 3] := by
  rw [demoDoc_load]
  exact ⟨_, _, rfl, rfl⟩

/-! ### 3. `from_dict` returns well-formed trees only -/

/-- **`from_dict` below a node of a well-formed tree keeps it well-formed (and the counter fresh),
for ALL item lists.** -/
theorem fromDictL_WF (sa : String → Atom) (ds : Option (Fields → DRes)) (fuel : Nat) (items : List JVal)
    (t : Tree) (parent next : NodeId) (t' : Tree) (n' : NodeId)
    (hw : WF t) (hf : Fresh t next) (h : fromDictL sa ds fuel items t parent next = .ok (t', n')) :
    WF t' ∧ Fresh t' n' ∧ next ≤ n' := by
  obtain ⟨h1, h2, h3, _⟩ := sw_fromDictL_WF sa ds fuel items t parent next t' n' hw hf h
  exact ⟨h1, h2, h3⟩

example : ∃ t' n', fromDictL demoAtom none 5
    [.obj [("data", .str "a"), ("children", .arr [.obj [("data", .num 7)], .obj [("data", .str "bb")]])], .obj [("data", .null)]]
    {} 0 1 = .ok (t', n') ∧ n' = 5 := by
  simp [fromDictL, itemData, lookupF, List.lookup, scalarAtom, didUnhashable, childItems]
  exact ⟨_, rfl⟩

/-- `Tree.from_dict` (a new tree) returns a well-formed tree. -/
theorem fromDictL_new_WF (sa : String → Atom) (ds : Option (Fields → DRes)) (fuel : Nat) (items : List JVal)
    (t' : Tree) (n' : NodeId) (h : fromDictL sa ds fuel items {} 0 1 = .ok (t', n')) : WF t' :=
  (fromDictL_WF sa ds fuel items {} 0 1 t' n' WF_init (fresh_newTree false Nat.one_pos) h).1

/-- `node.from_dict` on an existing tree (with the `assert not self._children`). -/
theorem fromDict_WF (sa : String → Atom) (ds : Option (Fields → DRes)) (fuel : Nat) (items : List JVal)
    (t : Tree) (parent next : NodeId) (t' : Tree) (n' : NodeId)
    (hw : WF t) (hf : Fresh t next) (h : fromDict sa ds fuel items t parent next = .ok (t', n')) :
    WF t' ∧ Fresh t' n' ∧ next ≤ n' := by
  unfold fromDict at h
  split at h
  · cases h
  · split at h
    · exact fromDictL_WF sa ds fuel items t parent next t' n' hw hf h
    · cases h

/-! ### 4. refusal: a second child with an already present data_id -/

/-- **`_from_list` refuses a duplicate sibling (C03).**  After the rows `rows` have built `t`, a
row — plain string, dict or clone reference — whose parent index resolves to the node `parent` and
whose node would get the data_id `did` (`rowDid`) that a child of `parent` already carries, makes
`_from_list` raise `UniqueConstraintError`, whatever follows. -/
theorem fromList_refuses_duplicate (typed : Bool) (sa : String → Atom) (ds : Fields → DRes)
    (rows rest : List (Nat × Payload)) (t : Tree) (nx : Nat) (im : List (Nat × NodeId))
    (p : Nat) (pl : Payload) (parent : NodeId) (pn : T) (did : DataId)
    (hs : fromListState typed sa ds rows = .ok (t, nx, im))
    (hl : im.lookup p = some parent) (hp : findT parent t.root = some pn)
    (hd : rowDid sa ds t im pl = some did) (hc : ∃ c ∈ pn.kids, c.did = did) :
    fromList typed sa ds (rows ++ (p, pl) :: rest) = .error .unique := by
  have i := swInv_state hs
  refine sw_fromList_error_at hs ?_
  unfold fromListStep
  simp only [hl]
  exact sw_body_unique i.wf i.hook hp hd hc

-- a plain string repeated under the same parent; a dict with the data_id of a sibling; a clone
-- reference to a sibling; a clone reference to a node elsewhere whose data_id a sibling carries
example : fromList false demoAtom demoDeser ([(0, .str "a"), (1, .str "b")] ++ (1, .str "c") :: [(0, .str "zz")]) = .error .unique := rfl
example : ∃ t pn, fromListState false demoAtom demoDeser [(0, .str "a"), (1, .str "b")] = .ok (t, 3, [(0, 0), (1, 1), (2, 2)])
    ∧ findT 1 t.root = some pn ∧ pn.kids.map T.did = [.int 1]
    ∧ rowDid demoAtom demoDeser t [(0, 0), (1, 1), (2, 2)] (.str "c") = some (.int 1) :=
  ⟨_, _, rfl, rfl, rfl, rfl⟩
example : fromList false demoAtom demoDeser ([(0, .str "a")] ++ (0, .dict [("data_id", .num 1)]) :: []) = .error .unique := rfl
example : fromList false demoAtom demoDeser ([(0, .str "a"), (0, .str "bb")] ++ (0, .ref 1) :: []) = .error .unique := rfl
example : fromList false demoAtom demoDeser ([(0, .str "a"), (1, .str "bb"), (0, .str "cc")] ++ (0, .ref 2) :: []) = .error .unique := rfl

/-- the same for arbitrary entries (the form `load` uses). -/
theorem fromListG_refuses_duplicate (typed : Bool) (sa : String → Atom) (ds : Fields → DRes)
    (rows rest : List (PKey × Cell)) (t : Tree) (nx : Nat) (im : List (Nat × NodeId))
    (p : Nat) (pl : Payload) (parent : NodeId) (pn : T) (did : DataId)
    (hs : fromListStateG typed sa ds rows = .ok (t, nx, im))
    (hl : im.lookup p = some parent) (hp : findT parent t.root = some pn)
    (hd : rowDid sa ds t im pl = some did) (hc : ∃ c ∈ pn.kids, c.did = did) :
    fromListG typed sa ds (rows ++ (.idx p, .pl pl) :: rest) = .error .unique := by
  have i := swInv_stateG hs
  refine sw_fromListG_error_at hs ?_
  unfold fromListStepG
  simp only [hl]
  exact sw_body_unique i.wf i.hook hp hd hc

example : fromListG true demoAtom demoDeser ([(.idx 0, .pl (.str "a"))] ++ (.idx 0, .pl (.ref 1)) :: [(.absent, .negRef)]) = .error .unique := rfl

/-- **`load` refuses a document with a duplicate sibling (C03).** -/
theorem loadJ_refuses_duplicate (typed : Bool) (sa : String → Atom) (ds : Fields → DRes)
    (top hdr : Fields) (nodes : List JVal) (g : String)
    (rows rest : List (PKey × Cell)) (t : Tree) (nx : Nat) (im : List (Nat × NodeId))
    (p : Nat) (pl : Payload) (parent : NodeId) (pn : T) (did : DataId)
    (hm : lookupF top "meta" = some (.obj hdr)) (hn : lookupF top "nodes" = some (.arr nodes))
    (hg : lookupF hdr "$generator" = some (.str g)) (hnut : hasNutree g = true)
    (hdec : decodeNodes (loadKm hdr) (loadVm hdr) nodes = .ok (rows ++ (.idx p, .pl pl) :: rest))
    (hs : fromListStateG typed sa ds rows = .ok (t, nx, im))
    (hl : im.lookup p = some parent) (hp : findT parent t.root = some pn)
    (hd : rowDid sa ds t im pl = some did) (hc : ∃ c ∈ pn.kids, c.did = did) :
    loadJ typed sa ds (.obj top) = .error .unique := by
  rw [loadJ_eq typed sa ds top hdr nodes g hm hn hg hnut, hdec]
  simp only [fromListG_refuses_duplicate typed sa ds rows rest t nx im p pl parent pn did hs hl hp hd hc]
  rfl

example : loadJ false demoAtom demoDeser (demoDoc [.arr [.num 0, .str "a"], .arr [.num 1, .str "b"], .arr [.num 1, .num 2]]) = .error .unique := by
  rw [demoDoc_load]; rfl
example : decodeNodes [] [] [.arr [.num 0, .str "a"], .arr [.num 1, .str "b"], .arr [.num 1, .num 2]]
    = .ok ([(.idx 0, .pl (.str "a")), (.idx 1, .pl (.str "b"))] ++ (.idx 1, .pl (.ref 2)) :: []) := rfl

/-- **`from_dict` refuses an item whose data_id a child of the target already carries (C03).** -/
theorem fromDictL_refuses_duplicate (sa : String → Atom) (ds : Option (Fields → DRes)) (f : Nat) (d : Fields)
    (rest : List JVal) (t : Tree) (parent next : NodeId) (pn : T) (did : DataId)
    (hw : WF t) (hh : t.hook = none) (hp : findT parent t.root = some pn)
    (hd : itemDid sa ds d = some did) (hc : ∃ c ∈ pn.kids, c.did = did) :
    fromDictL sa ds (f + 1) (.obj d :: rest) t parent next = .error .unique :=
  sw_fromDictL_unique hw hh hp hd hc

/-- **`from_dict` refuses an item that repeats the data_id of an earlier sibling item (C03)**:
if the items before it have been read, the item is refused with `UniqueConstraintError`
(at any nesting depth: `parent` is the node the list belongs to). -/
theorem fromDictL_refuses_sibling (sa : String → Atom) (ds : Option (Fields → DRes)) (f : Nat)
    (pre rest : List JVal) (d d0 : Fields) (t : Tree) (parent next : NodeId) (t1 : Tree) (n1 : NodeId) (did : DataId)
    (hw : WF t) (hf : Fresh t next) (hh : t.hook = none)
    (hpre : fromDictL sa ds (f + 1) pre t parent next = .ok (t1, n1))
    (hm : JVal.obj d0 ∈ pre) (hd0 : itemDid sa ds d0 = some did) (hd : itemDid sa ds d = some did) :
    fromDictL sa ds (f + 1) (pre ++ .obj d :: rest) t parent next = .error .unique := by
  obtain ⟨hw1, _, _, hh1, _⟩ := sw_fromDictL_WF sa ds (f + 1) pre t parent next t1 n1 hw hf hpre
  obtain ⟨pn, hp, hc⟩ := sw_hasKid_of_item sa ds pre t next t1 n1 hw hf hh hpre ⟨d0, hm, hd0⟩
  rw [sw_fromDictL_append sa ds _ pre t next t1 n1 hpre]
  exact sw_fromDictL_unique hw1 (hh1.trans hh) hp hd hc

-- duplicate siblings at depth 2 (found while reading the children of the first item)
example : fromDictL demoAtom none 5
    [.obj [("data", .str "a"), ("children", .arr [.obj [("data", .str "b")], .obj [("data", .str "cc")], .obj [("data", .str "d")]])]]
    {} 0 1 = .error .unique := by
  simp [fromDictL, itemData, lookupF, List.lookup, scalarAtom, didUnhashable, childItems]
  rfl
example : itemDid demoAtom none [("data", .str "b")] = some (.int 1) ∧ itemDid demoAtom none [("data", .str "d")] = some (.int 1) := by
  constructor <;> simp [itemDid, itemData, lookupF, List.lookup, scalarAtom, didUnhashable, demoAtom] <;> rfl
-- an explicit data_id equal to the hash of a sibling's data
example : fromDictL demoAtom none 5 [.obj [("data", .str "a")], .obj [("data", .str "zzz"), ("data_id", .num 1)]] {} 0 1
    = .error .unique := by
  simp [fromDictL, itemData, lookupF, List.lookup, scalarAtom, didUnhashable, childItems]
  rfl

/-! ### 5. the other malformations of the node list -/

/-- **a parent index that is not an earlier entry** (forward, the entry's own index, out of range):
`node_idx_map[parent_idx]` raises KeyError. -/
theorem fromList_unknown_parent (typed : Bool) (sa : String → Atom) (ds : Fields → DRes)
    (rows rest : List (Nat × Payload)) (t : Tree) (p : Nat) (pl : Payload)
    (h : fromList typed sa ds rows = .ok t) (hp : rows.length < p) :
    fromList typed sa ds (rows ++ (p, pl) :: rest) = .error .key := by
  obtain ⟨nx, im, hs⟩ := sw_state_of_fromList h
  refine sw_fromList_error_at hs ?_
  unfold fromListStep
  simp only [sw_lookup_none (swInv_state hs) hp]

example : fromList false demoAtom demoDeser ([(0, .str "a")] ++ (2, .str "b") :: [(0, .str "cc")]) = .error .key := rfl
example : fromList false demoAtom demoDeser ([(0, .str "a")] ++ (3, .str "b") :: [(0, .str "cc"), (0, .str "ddd")]) = .error .key := rfl

/-- **a clone reference that is not an earlier entry** (forward, the entry itself, out of range)
below a valid parent: KeyError. -/
theorem fromList_unknown_ref (typed : Bool) (sa : String → Atom) (ds : Fields → DRes)
    (rows rest : List (Nat × Payload)) (t : Tree) (p k : Nat)
    (h : fromList typed sa ds rows = .ok t) (hp : p ≤ rows.length) (hk : rows.length < k) :
    fromList typed sa ds (rows ++ (p, .ref k) :: rest) = .error .key := by
  obtain ⟨nx, im, hs⟩ := sw_state_of_fromList h
  have i := swInv_state hs
  obtain ⟨parent, hl⟩ := sw_lookup_some i hp
  refine sw_fromList_error_at hs ?_
  unfold fromListStep fromListBody
  simp only [hl, sw_lookup_none i hk]

example : fromList false demoAtom demoDeser ([(0, .str "a")] ++ (1, .ref 2) :: []) = .error .key := rfl
example : fromList false demoAtom demoDeser ([(0, .str "a")] ++ (1, .ref 3) :: [(0, .str "bb")]) = .error .key := rfl

/-- **a clone reference to index 0** (the system root) below a valid parent: not a clean refusal —
`add_child` calls `_SystemRootNode(data, parent=…)`, which raises TypeError. -/
theorem fromList_ref_root (typed : Bool) (sa : String → Atom) (ds : Fields → DRes)
    (rows rest : List (Nat × Payload)) (t : Tree) (p : Nat)
    (h : fromList typed sa ds rows = .ok t) (hp : p ≤ rows.length) :
    fromList typed sa ds (rows ++ (p, .ref 0) :: rest) = .error .type := by
  obtain ⟨nx, im, hs⟩ := sw_state_of_fromList h
  have i := swInv_state hs
  obtain ⟨parent, hl⟩ := sw_lookup_some i hp
  refine sw_fromList_error_at hs ?_
  unfold fromListStep fromListBody
  simp only [hl, i.zero, if_true]

example : fromList true demoAtom demoDeser ([(0, .str "a")] ++ (1, .ref 0) :: [(0, .str "bb")]) = .error .type := rfl

/-- **entries that `to_list_iter` never writes**, after entries `rows` that were read: a parent
index that is negative / `null` / a string → KeyError; a list / dict → TypeError; below a valid
parent a negative number as payload → KeyError, `null` / a list → AssertionError (`Tree`: the
`assert isinstance(data, dict)`) resp. AttributeError (`TypedTree`: `data.get`). -/
theorem fromListG_bad_entry (typed : Bool) (sa : String → Atom) (ds : Fields → DRes)
    (rows rest : List (PKey × Cell)) (t : Tree) (c : Cell) (p : Nat)
    (h : fromListG typed sa ds rows = .ok t) (hp : p ≤ rows.length) :
    fromListG typed sa ds (rows ++ (.absent, c) :: rest) = .error .key ∧
    fromListG typed sa ds (rows ++ (.unhashable, c) :: rest) = .error .type ∧
    fromListG typed sa ds (rows ++ (.idx p, .negRef) :: rest) = .error .key ∧
    fromListG typed sa ds (rows ++ (.idx p, .notDict) :: rest) = .error (if typed then .attribute else .assertion) := by
  obtain ⟨nx, im, hs⟩ := sw_state_of_fromListG h
  have i := swInv_stateG hs
  obtain ⟨parent, hl⟩ := sw_lookup_some i hp
  refine ⟨sw_fromListG_error_at hs rfl, sw_fromListG_error_at hs rfl, sw_fromListG_error_at hs ?_, sw_fromListG_error_at hs ?_⟩
  · unfold fromListStepG; simp only [hl]
  · unfold fromListStepG; simp only [hl]

/-- how `load` classifies the two components of an entry. -/
theorem decode_classes (km : List (String × String)) (vm : List (String × List JVal)) (i : Int) (hi : i < 0)
    (s : String) (l : List JVal) (o : Fields) (b : Bool) :
    pkeyOfJ (.num i) = .absent ∧ pkeyOfJ .null = .absent ∧ pkeyOfJ (.str s) = .absent ∧
    pkeyOfJ (.arr l) = .unhashable ∧ pkeyOfJ (.obj o) = .unhashable ∧
    pkeyOfJ (.bool b) = .idx (if b then 1 else 0) ∧
    cellOfJ km vm (.num i) = some .negRef ∧ cellOfJ km vm .null = some .notDict ∧ cellOfJ km vm (.arr l) = some .notDict ∧
    cellOfJ km vm (.bool b) = some (.pl (.ref (if b then 1 else 0))) := by
  refine ⟨?_, rfl, rfl, rfl, rfl, rfl, ?_, rfl, rfl, rfl⟩
  · simp [pkeyOfJ, hi]
  · simp [cellOfJ, hi]

example : loadJ false demoAtom demoDeser (demoDoc [.arr [.num 0, .str "a"], .arr [.num (-1), .str "b"]]) = .error .key := by rw [demoDoc_load]; rfl
example : loadJ false demoAtom demoDeser (demoDoc [.arr [.num 0, .str "a"], .arr [.arr [], .str "b"]]) = .error .type := by rw [demoDoc_load]; rfl
example : loadJ false demoAtom demoDeser (demoDoc [.arr [.num 0, .str "a"], .arr [.num 1, .num (-2)]]) = .error .key := by rw [demoDoc_load]; rfl
example : loadJ false demoAtom demoDeser (demoDoc [.arr [.num 0, .str "a"], .arr [.num 1, .null]]) = .error .assertion := by rw [demoDoc_load]; rfl
example : loadJ true demoAtom demoDeser (demoDoc [.arr [.num 0, .str "a"], .arr [.num 1, .arr []]]) = .error .attribute := by rw [demoDoc_load]; rfl
example : loadJ true demoAtom demoDeser (demoDoc [.arr [.num 0, .str "a"], .arr [.num 1, .bool false]]) = .error .type := by rw [demoDoc_load]; rfl
-- an entry that is not a pair is found by the first loop of `load`, before any node is built
example : loadJ false demoAtom demoDeser (demoDoc [.arr [.num 0, .str "a"], .arr [.num 0, .str "a"], .arr [.num 0]]) = .error .value := by rw [demoDoc_load]; rfl

end Nutree.C03
