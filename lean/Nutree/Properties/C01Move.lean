/-
  C01 (continued) — `move_to`, `remove(keep_children=True)` and the general `remove` keep the
  state a well-formed tree; their effects (C04) and refusals (C03/C13).
  Property theorems only; helper lemmas live in Nutree/Lemmas/WFMove.lean and
  Nutree/Lemmas/WFRemoveKeep.lean.
-/
import Nutree.Properties.C01
import Nutree.Lemmas.WFMove
import Nutree.Lemmas.WFRemoveKeep
namespace Nutree.C01
open Nutree T

/-! ### move_to -/

/-- move_to preserves WF -/
theorem moveTo_WF (t t' : Tree) (n newParent : NodeId) (before : Before) (h : WF t)
    (hr : t.moveTo n newParent before = .ok t') : WF t' := by
  obtain ⟨x, par, np, ins, m, hu, hroot, hi, hd⟩ := moveTo_move h hr
  exact WF_move h m hu hroot hi hd

/-- …and changes neither the registries nor the set of nodes: same node records, same registries -/
theorem moveTo_frame (t t' : Tree) (n newParent : NodeId) (before : Before) (h : WF t)
    (hr : t.moveTo n newParent before = .ok t') :
    t'.byId = t.byId ∧ t'.byData = t.byData ∧
      ((T.flat t'.root).map T.info).Perm ((T.flat t.root).map T.info) := by
  obtain ⟨x, par, np, ins, m, _, hroot, hi, hd⟩ := moveTo_move h hr
  refine ⟨hi, hd, ?_⟩
  rw [hroot]
  exact m.infos_perm

/-- effect (C04): the moved branch (unchanged as a value) is a child of the new parent afterwards,
and nothing else moved: every node other than the old and the new parent keeps its child list -/
theorem moveTo_effect (t t' : Tree) (n newParent : NodeId) (before : Before) (x : T) (h : WF t)
    (hx : findT n t.root = some x) (hr : t.moveTo n newParent before = .ok t') :
    findT n t'.root = some x ∧ t'.parentId n = some newParent ∧
    (∀ m, m ≠ newParent → t.parentId n ≠ some m → ∀ y, findT m t.root = some y →
      ∃ y', findT m t'.root = some y' ∧ y'.kids.map T.id = y.kids.map T.id) := by
  obtain ⟨x', par, np, ins, m, _, hroot, _, _⟩ := moveTo_move h hr
  have : x' = x := Option.some.inj (m.hx.symm.trans hx)
  subst this
  refine ⟨?_, ?_, ?_⟩
  · rw [hroot]; exact m.findT_x
  · have hp : findParent n t'.root = some m.q2 := by rw [hroot]; exact m.findParent_x
    rw [parentId_of_findParent hp]
    show some (modT par.id (eraseId n) np).info.id = some newParent
    rw [modT_info]
    exact congrArg some (findT_some_id m.hnp)
  · intro c h1 h2 y hy
    rw [hroot]
    refine m.findT_other hy h1 (fun e => h2 ?_)
    rw [parentId_of_findParent m.hpar, e]

set_option linter.unusedVariables false in
/-- refusal (C03/C13) (a): moving below itself or a descendant is a ValueError; a refusal carries
no new state by type (`Except`).  (`h`, `hnp` are not needed: `hnp` follows from `hd`.) -/
theorem moveTo_below_self (t : Tree) (n newParent : NodeId) (before : Before) (x : T) (h : WF t)
    (ht : t.typed = false) (hx : findT n t.root = some x) (hp : t.parentId n ≠ none)
    (hd : (findT newParent x).isSome) (hnp : (findT newParent t.root).isSome) :
    t.moveTo n newParent before = .error .value := by
  obtain ⟨oldP, hp'⟩ := Option.ne_none_iff_exists'.1 hp
  obtain ⟨np, hnp'⟩ := Option.isSome_iff_exists.1 hnp
  rw [moveTo_eq]
  simp only [ht, hx, hp', hnp', hd, or_true, if_true, Bool.false_eq_true, if_false]

/-- the `before` argument is acceptable for a target with children `ks`: a `before` node must be
one of them (everything else is accepted when the target has children). -/
def BeforeValid (ks : List T) (before : Before) : Prop := ∀ b, before = .node b → b ∈ ks.map T.id

/-- the `before` validation against a non-empty child list that does not contain the moved node. -/
theorem moveIns_nonempty {n : NodeId} {rest : List T} (before : Before) (hne : rest ≠ [])
    (hn : n ∉ rest.map T.id) :
    (BeforeValid rest before → ∃ ins, moveIns n rest before = .ok ins) ∧
      (¬ BeforeValid rest before → moveIns n rest before = .error .value) := by
  have hemp : rest.isEmpty = false := by cases rest with
    | nil => exact absurd rfl hne
    | cons => rfl
  unfold BeforeValid
  cases before with
  | none => exact ⟨fun _ => ⟨_, rfl⟩, fun h => absurd (fun b hb => by cases hb) h⟩
  | bTrue =>
    refine ⟨fun _ => ?_, fun h => absurd (fun b hb => by cases hb) h⟩
    simp [moveIns, hemp]
  | bFalse => exact ⟨fun _ => ⟨_, rfl⟩, fun h => absurd (fun b hb => by cases hb) h⟩
  | idx i =>
    refine ⟨fun _ => ?_, fun h => absurd (fun b hb => by cases hb) h⟩
    simp [moveIns, hemp]
  | node b =>
    constructor
    · intro hv
      have hb := hv b rfl
      have hbn : b ≠ n := fun e => hn (e ▸ hb)
      have hany : rest.any (fun k => k.id == b) = true := any_id_eq.2 hb
      simp [moveIns, insertPosition, hbn, hany]
    · intro hv
      have hb : b ∉ rest.map T.id := fun hb => hv (fun b' e => by cases e; exact hb)
      by_cases hbn : b = n
      · simp [moveIns, hbn]
      · have hany : rest.any (fun k => k.id == b) = false := by
          cases ha : rest.any (fun k => k.id == b) with
          | false => rfl
          | true => exact absurd (any_id_eq.1 ha) hb
        simp [moveIns, insertPosition, hbn, hany]

/-- in the collision situation `moveTo` answers with the error of the `before` validation if there is
one and with the uniqueness error otherwise; the target has children and `n` is not among them. -/
theorem moveTo_collision_eq (t : Tree) (n newParent : NodeId) (before : Before) (x np : T)
    (h : WF t) (ht : t.typed = false)
    (hx : findT n t.root = some x) (hnp : findT newParent t.root = some np)
    (hnd : (findT newParent x).isNone) (hne : newParent ≠ n)
    (hop : t.parentId n ≠ some newParent) (hopS : t.parentId n ≠ none)
    (hc : ∃ k ∈ np.kids, k.did = x.did) :
    np.kids ≠ [] ∧ n ∉ np.kids.map T.id ∧
    t.moveTo n newParent before =
      match moveIns n np.kids before with
      | .error e => .error e
      | .ok _ => .error .unique := by
  obtain ⟨oldP, hp'⟩ := Option.ne_none_iff_exists'.1 hopS
  obtain ⟨par, hpar, rfl⟩ := parentId_eq_some hp'
  have hpn : par.id ≠ newParent := fun e => hop (by rw [hp', e])
  have d : Detach t.root x par n := ⟨h.idsN, hx, hpar⟩
  have hnk : n ∉ np.kids.map T.id :=
    d.not_kid_of_ne (findT_some_mem hnp) (by rw [findT_some_id hnp]; exact fun e => hpn e.symm)
  have hrest : eraseId n np.kids = np.kids := eraseId_of_not_mem hnk
  obtain ⟨k, hk, hkd⟩ := hc
  have hnd' : (findT newParent x).isSome = false := by simpa using hnd
  have hany : np.kids.any (fun k => k.did == x.did) = true :=
    List.any_eq_true.2 ⟨k, hk, by simpa using hkd⟩
  have hbne : (par.id != newParent) = true := by simpa using hpn
  refine ⟨List.ne_nil_of_mem hk, hnk, ?_⟩
  rw [moveTo_eq]
  simp only [ht, hx, hp', hnp, hne, hnd', hrest, hany, hbne, or_self, if_false, Bool.false_eq_true,
    Bool.and_self, if_true]
  cases moveIns n np.kids before <;> rfl

/-- refusal (C03/C13) (b), the intended form: if the `before` argument is accepted (insertion `ins`)
then a sibling with the same data_id at a different target is refused with exactly the uniqueness error. -/
theorem moveTo_collision_unique (t : Tree) (n newParent : NodeId) (before : Before) (x np : T)
    (ins : List T → T → List T) (h : WF t) (ht : t.typed = false)
    (hx : findT n t.root = some x) (hnp : findT newParent t.root = some np)
    (hnd : (findT newParent x).isNone) (hne : newParent ≠ n)
    (hop : t.parentId n ≠ some newParent) (hopS : t.parentId n ≠ none)
    (hc : ∃ k ∈ np.kids, k.did = x.did)
    (hb : moveIns n np.kids before = .ok ins) : t.moveTo n newParent before = .error .unique := by
  rw [(moveTo_collision_eq t n newParent before x np h ht hx hnp hnd hne hop hopS hc).2.2, hb]

/-- refusal (C03/C13) (b), exact form: a sibling with the same data_id at a different target.
An invalid `before` node is reported first (ValueError); otherwise the answer is exactly the
uniqueness error.  (An AssertionError is impossible here: the target has a child.) -/
theorem moveTo_collision_exact (t : Tree) (n newParent : NodeId) (before : Before) (x np : T)
    (h : WF t) (ht : t.typed = false)
    (hx : findT n t.root = some x) (hnp : findT newParent t.root = some np)
    (hnd : (findT newParent x).isNone) (hne : newParent ≠ n)
    (hop : t.parentId n ≠ some newParent) (hopS : t.parentId n ≠ none)
    (hc : ∃ k ∈ np.kids, k.did = x.did) :
    (BeforeValid np.kids before → t.moveTo n newParent before = .error .unique) ∧
      (¬ BeforeValid np.kids before → t.moveTo n newParent before = .error .value) := by
  obtain ⟨hnonempty, hnk, hmv⟩ := moveTo_collision_eq t n newParent before x np h ht hx hnp hnd hne hop hopS hc
  obtain ⟨h1, h2⟩ := moveIns_nonempty (n := n) before hnonempty hnk
  constructor
  · intro hv
    obtain ⟨ins, hins⟩ := h1 hv
    rw [hmv, hins]
  · intro hv
    rw [hmv, h2 hv]

/-- refusal (C03/C13) (b): a sibling with the same data_id at a different target is refused
(uniqueness error, or ValueError if the `before` node is invalid; `moveTo_collision_exact` says
which).  The unused binder `ins` of the original statement is dropped. -/
theorem moveTo_collision (t : Tree) (n newParent : NodeId) (before : Before) (x np : T)
    (h : WF t) (ht : t.typed = false)
    (hx : findT n t.root = some x) (hnp : findT newParent t.root = some np)
    (hnd : (findT newParent x).isNone) (hne : newParent ≠ n)
    (hop : t.parentId n ≠ some newParent) (hopS : t.parentId n ≠ none)
    (hc : ∃ k ∈ np.kids, k.did = x.did) :
    t.moveTo n newParent before = .error .unique ∨ t.moveTo n newParent before = .error .value ∨
      t.moveTo n newParent before = .error .assertion := by
  obtain ⟨h1, h2⟩ := moveTo_collision_exact t n newParent before x np h ht hx hnp hnd hne hop hopS hc
  by_cases hv : BeforeValid np.kids before
  · exact Or.inl (h1 hv)
  · exact Or.inr (Or.inl (h2 hv))

/-! ### remove(keep_children=True) -/

/-- remove(keep_children=True) of one node preserves WF -/
theorem removeKeep_WF (t t' : Tree) (n : NodeId) (h : WF t) (hr : t.removeKeep n = .ok t') : WF t' := by
  obtain ⟨x, par, hx, hpar, ⟨_, rfl⟩ | ⟨_, ⟨par', hpar', hu⟩, rfl⟩⟩ := removeKeep_cases hr
  · exact removeOne_WF' t n h
  · have d : Detach t.root x par n := ⟨h.idsN, hx, hpar⟩
    have : par' = par := Option.some.inj (hpar'.symm.trans d.findT_par)
    subst this
    exact WF_removeKeep_splice h hx hpar hu rfl rfl rfl

/-- effect: the children take the node's place, in order; the node is gone (not reachable, not
registered); its children's branches are unchanged (they are the values `x.kids`). -/
theorem removeKeep_effect (t t' : Tree) (n p : NodeId) (x par : T) (h : WF t) (hn : n ≠ 0)
    (hx : findT n t.root = some x) (hp : t.parentId n = some p) (hpar : findT p t.root = some par)
    (hr : t.removeKeep n = .ok t') :
    (∃ par', findT p t'.root = some par' ∧
      par'.kids = par.kids.take (idxOf n par.kids) ++ x.kids ++ par.kids.drop (idxOf n par.kids + 1)) ∧
    n ∉ (T.flat t'.root).map T.id ∧ n ∉ t'.byId := by
  have h' := removeKeep_WF t t' n h hr
  obtain ⟨par0, hpar0, rfl⟩ := parentId_eq_some hp
  have d : Detach t.root x par0 n := ⟨h.idsN, hx, hpar0⟩
  have : par0 = par := Option.some.inj (d.findT_par.symm.trans hpar)
  subst this
  have hgone : (∃ par', findT par0.id t'.root = some par' ∧
      par'.kids = par0.kids.take (idxOf n par0.kids) ++ x.kids ++ par0.kids.drop (idxOf n par0.kids + 1)) ∧
      n ∉ (T.flat t'.root).map T.id := by
    rw [removeKeep_eq hx hp hpar] at hr
    split at hr
    · -- a leaf: plain remove
      rename_i he
      have hleaf : x.kids = [] := by simpa using he
      cases hr
      refine ⟨?_, ?_⟩
      · rw [removeOne_root hx hp, modT_eq_self_of h.idsN hx (by rw [hleaf]), findT_modT_self_of hpar]
        refine ⟨_, rfl, ?_⟩
        rw [T.kids_node, hleaf, List.append_nil]
        exact eraseId_eq_take_drop (kids_ids_nodup d.parN) (List.mem_map.2 ⟨x, d.x_kid, d.x_id⟩)
      · have := (removeOne_gone t n x h hn hx x (self_mem_flat x)).1
        rwa [d.x_id] at this
    · split at hr
      · cases hr
      · cases hr
        rename_i hany
        refine ⟨?_, ?_⟩
        · rw [unregister_root]
          show ∃ par', findT par0.id (modT par0.id (spliceKids n x.kids) t.root) = some par' ∧ _
          rw [findT_modT_self_of hpar]
          exact ⟨_, rfl, rfl⟩
        · rw [unregister_root]
          show n ∉ (T.flat (modT par0.id (spliceKids n x.kids) t.root)).map T.id
          have hu : ∀ c ∈ x.kids, ∀ s ∈ par0.kids, s.id ≠ n → s.did ≠ c.did := by
            intro c hc s hs hsn hsd
            apply hany
            refine List.any_eq_true.2 ⟨c, hc, List.any_eq_true.2 ⟨s, hs, ?_⟩⟩
            simp [hsn, hsd]
          obtain ⟨h1, _, _⟩ := splice_facts d (h.sib par0 d.par_mem) (h.sib x d.x_mem) hu
          have hperm := cut_ids_perm h.idsN hpar h1
          have hnd := hperm.nodup_iff.2 h.ids
          intro hm
          exact (List.nodup_append.1 hnd).2.2 n hm x.info.id (by simp) d.x_id.symm
  refine ⟨hgone.1, hgone.2, fun hm => hgone.2 ?_⟩
  rw [ids_eq]
  exact List.mem_cons_of_mem _ (h'.mem_byId.1 hm)

set_option linter.unusedVariables false in
/-- refusal: a child whose data_id equals that of a sibling of the removed node → uniqueness error -/
theorem removeKeep_collision (t : Tree) (n p : NodeId) (x par : T) (h : WF t)
    (hx : findT n t.root = some x) (hp : t.parentId n = some p) (hpar : findT p t.root = some par)
    (hk : x.kids ≠ [])
    (hc : ∃ c ∈ x.kids, ∃ s ∈ par.kids, s.id ≠ n ∧ s.did = c.did) : t.removeKeep n = .error .unique := by
  obtain ⟨c, hc, s, hs, hsn, hsd⟩ := hc
  have he : x.kids.isEmpty = false := by
    cases hxk : x.kids with
    | nil => exact absurd hxk hk
    | cons => rfl
  have hany : x.kids.any (fun c => par.kids.any fun s => s.id != n && s.did == c.did) = true := by
    refine List.any_eq_true.2 ⟨c, hc, List.any_eq_true.2 ⟨s, hs, ?_⟩⟩
    simp [hsn, hsd]
  rw [removeKeep_eq hx hp hpar, he, hany]
  rfl

/-! ### the general remove -/

/-- the general remove (keep_children ±, with_clones ±) preserves WF — also when it stops at a
refusal (C13: the state reached is well-formed) -/
theorem remove_WF (t : Tree) (n : NodeId) (keep clones : Bool) (h : WF t) : WF (t.remove n keep clones).1 :=
  remove_invariant (P := WF) (fun t c h => removeOne_WF' t c h) (fun t t' c h hr => removeKeep_WF t t' c h hr)
    t n keep clones h

/-- without clones a refused remove leaves the state unchanged -/
theorem remove_refused_unchanged (t : Tree) (n : NodeId) (keep : Bool) (e : Err)
    (h : (t.remove n keep false).2 = some e) : (t.remove n keep false).1 = t := by
  rw [remove_eq] at h ⊢
  cases hx : findT n t.root with
  | none => rfl
  | some x =>
    rw [hx] at h
    simp only [Bool.false_eq_true, if_false, List.nil_append, List.foldl_cons, List.foldl_nil] at h ⊢
    unfold removeStep at h ⊢
    simp only [hx, Option.isNone_some, Bool.false_eq_true, if_false] at h ⊢
    cases keep with
    | false => simp at h
    | true =>
      simp only [if_true] at h ⊢
      cases hk : t.removeKeep n with
      | ok t1 => rw [hk] at h; simp at h
      | error e' => rfl

/-- Fresh is preserved by move and remove -/
theorem move_remove_Fresh (t : Tree) (next : NodeId) (hf : Fresh t next) :
    (∀ n p b t', t.moveTo n p b = .ok t' → Fresh t' next) ∧ (∀ n k c, Fresh (t.remove n k c).1 next) := by
  have hsub : ∀ {t t' : Tree}, (∀ a, a ∈ (flat t'.root).map T.id → a ∈ (flat t.root).map T.id) →
      Fresh t next → Fresh t' next := by
    intro t t' hs hf
    refine ⟨hf.1, fun x hx => ?_⟩
    obtain ⟨y, hy, hyx⟩ := mem_ids.1 (hs _ (mem_ids.2 ⟨x, hx, rfl⟩))
    rw [← hyx]; exact hf.2 y hy
  constructor
  · intro n p b t' hr
    obtain ⟨x, par, np, ins, _, hx, _, _, _, _, hins, _, rfl⟩ := moveTo_ok hr
    exact hsub (fun a ha => ids_move_subset hx (fun l => moveIns_perm hins l x) ha) hf
  · intro n k c
    exact remove_invariant (P := fun t => Fresh t next)
      (fun t c h => hsub (fun a ha => ids_removeOne_subset ha) h)
      (fun t t' c h hr => hsub (fun a ha => ids_removeKeep_subset hr ha) h) t n k c hf

end Nutree.C01
