/-
  C04 for every history: the effect theorems of `remove()`, `remove_children()`/`clear()` and of `set_meta()` hold for every
  tree of every reached state, whatever sequence of operations led there (`C01.C01_main` discharges the
  well-formedness hypothesis of `removeChildren_effect` and `setMeta_effect`).
-/
import Nutree.Properties.C01Main
import Nutree.Properties.C04
namespace Nutree.C04
open Nutree T

/-- **after any history**: `remove_children()` on any node `n` of any tree of the reached state empties `n`, keeps every
node outside the removed branches with its record, parent and child order, and leaves the strict descendants neither
reachable nor registered. -/
theorem removeChildren_effect_after_any_history (ops : List Op) (t : Tree) (ht : t ∈ (World.run ops).trees)
    (n : NodeId) (x : T) (hx : findT n t.root = some x) :
    findT n (t.removeChildren n).root = some (.node x.info []) ∧
    (flat (t.removeChildren n).root).map T.info =
      ((flat t.root).map T.info).filter (fun i => decide (i.id ∉ (flatL x.kids).map T.id)) ∧
    (∀ m y, findT m t.root = some y → m ∉ (flatL x.kids).map T.id →
      ∃ y', findT m (t.removeChildren n).root = some y' ∧ y'.info = y.info ∧
        (t.removeChildren n).parentId m = t.parentId m ∧
        (m ≠ n → y'.kids.map T.info = y.kids.map T.info) ∧
        (n ∉ (flat y).map T.id → y' = y)) ∧
    (∀ a ∈ (flatL x.kids).map T.id,
      a ∉ (flat (t.removeChildren n).root).map T.id ∧ a ∉ (t.removeChildren n).byId) ∧
    (t.removeChildren n).byId = t.byId.filter (fun a => decide (a ∉ (flatL x.kids).map T.id)) ∧
    (t.removeChildren n).byData =
      (t.byData.map fun e => (e.1, e.2.filter fun a => decide (a ∉ (flatL x.kids).map T.id))).filter
        (fun e => !e.2.isEmpty) ∧
    (t.removeChildren n).typed = t.typed ∧ (t.removeChildren n).hook = t.hook ∧
    (t.removeChildren n).rootNone = (t.rootNone || n == 0) :=
  removeChildren_effect t n x ((C01.C01_main ops).2 t ht).1 hx

/-- **after any history**: `set_meta()` on any node of any tree of the reached state changes that node's `meta` field
and nothing else. -/
theorem setMeta_effect_after_any_history (ops : List Op) (t : Tree) (ht : t ∈ (World.run ops).trees)
    (n : NodeId) (m : Meta) (x : T) (hx : findT n t.root = some x) :
    findT n (setInfoT n (fun inf => { inf with nmeta := m }) t.root) =
      some (.node { x.info with nmeta := m } x.kids) ∧
    (flat (setInfoT n (fun inf => { inf with nmeta := m }) t.root)).map T.info =
      ((flat t.root).map T.info).map (fun i => if i.id = n then { i with nmeta := m } else i) ∧
    (∀ c y, findT c t.root = some y → c ≠ n →
      ∃ y', findT c (setInfoT n (fun inf => { inf with nmeta := m }) t.root) = some y' ∧
        y'.info = y.info ∧ y'.kids.map T.id = y.kids.map T.id ∧
        (n ∉ (flat y).map T.id → y' = y)) ∧
    (∀ c, (findParent c (setInfoT n (fun inf => { inf with nmeta := m }) t.root)).map T.id =
      (findParent c t.root).map T.id) :=
  setMeta_effect t n m x ((C01.C01_main ops).2 t ht).1 hx

/-- **after any history**: `remove()` of any node `n` (not the invisible root) of any tree of the reached state takes exactly
the branch of `n` out: the parent's child list is the old one without `n`, every node outside the branch keeps its record,
parent and child order, the branch is neither reachable nor registered. -/
theorem removeOne_effect_after_any_history (ops : List Op) (t : Tree) (ht : t ∈ (World.run ops).trees)
    (n p : NodeId) (x par : T) (hn : n ≠ 0)
    (hx : findT n t.root = some x) (hp : t.parentId n = some p) (hpar : findT p t.root = some par) :
    findT p (t.removeOne n).root = some (.node par.info (eraseId n par.kids)) ∧
    (flat (t.removeOne n).root).map T.info =
      ((flat t.root).map T.info).filter (fun i => decide (i.id ∉ (flat x).map T.id)) ∧
    (∀ m y, findT m t.root = some y → m ∉ (flat x).map T.id →
      ∃ y', findT m (t.removeOne n).root = some y' ∧ y'.info = y.info ∧
        (t.removeOne n).parentId m = t.parentId m ∧
        y'.kids.map T.info = (eraseId n y.kids).map T.info ∧
        (m ≠ p → y'.kids.map T.info = y.kids.map T.info) ∧
        (n ∉ (flatL y.kids).map T.id → y' = y)) ∧
    (∀ a ∈ (flat x).map T.id, a ∉ (flat (t.removeOne n).root).map T.id ∧ a ∉ (t.removeOne n).byId) ∧
    (t.removeOne n).byId = t.byId.filter (fun a => decide (a ∉ (flat x).map T.id)) ∧
    (t.removeOne n).byData =
      (t.byData.map fun e => (e.1, e.2.filter fun a => decide (a ∉ (flat x).map T.id))).filter
        (fun e => !e.2.isEmpty) ∧
    (t.removeOne n).typed = t.typed ∧ (t.removeOne n).hook = t.hook :=
  removeOne_effect t n p x par ((C01.C01_main ops).2 t ht).1 hn hx hp hpar

end Nutree.C04
