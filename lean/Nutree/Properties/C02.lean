/-
  C02 — the data-id index answers the queries exactly (from the invariant `WF`).
  Property theorems only; helper lemmas live in Nutree/Lemmas (Queries, Registry, WFAdd).
-/
import Nutree.Model.Ops
import Nutree.Spec.WF
import Nutree.Model.Search
import Nutree.Lemmas.Queries
import Nutree.Properties.C01
namespace Nutree.C02
open Nutree T Nutree.Search

/-- the empty tree satisfies the decidable check. -/
theorem init_ok : wfB ({} : Tree) = true := by decide

/-- the index as the queries of Model/Search.lean see it: data_id ↦ node values -/
def indexOf (t : Tree) : Index := t.byData.map fun e => (e.1, e.2.filterMap fun i => findT i t.root)

theorem indexOf_eq (t : Tree) : indexOf t = nodeIndex t := rfl

/-- `find_all(data_id=)` returns exactly the reachable nodes carrying the id -/
theorem findAll_exact (t : Tree) (h : WF t) (d : DataId) (x : T) :
    x ∈ treeFindAllId (indexOf t) d none ↔ (x ∈ T.flatL t.root.kids ∧ x.did = d) :=
  mem_findAll h

/-- … each of them once -/
theorem findAll_nodup (t : Tree) (h : WF t) (d : DataId) : ((treeFindAllId (indexOf t) d none).map T.id).Nodup :=
  findAll_ids_nodup h d

/-- `find_first(data_id=)`: a reachable node with the id, `None` iff there is none -/
theorem findFirst_exact (t : Tree) (h : WF t) (d : DataId) :
    (∀ x, treeFindFirstId (indexOf t) d = some x → x ∈ T.flatL t.root.kids ∧ x.did = d) ∧
    (treeFindFirstId (indexOf t) d = none ↔ ∀ x ∈ T.flatL t.root.kids, x.did ≠ d) := by
  rw [treeFindFirstId_eq]
  constructor
  · intro x hx
    refine (findAll_exact t h d x).1 ?_
    cases hl : treeFindAllId (indexOf t) d none with
    | nil => rw [hl] at hx; cases hx
    | cons a l => rw [hl] at hx; cases hx; exact List.mem_cons_self
  · rw [List.head?_eq_none_iff]
    constructor
    · intro hnil x hx hd
      have := (findAll_exact t h d x).2 ⟨hx, hd⟩
      rw [hnil] at this; cases this
    · intro hall
      cases hl : treeFindAllId (indexOf t) d none with
      | nil => rfl
      | cons a l =>
        have := (findAll_exact t h d a).1 (by rw [hl]; exact List.mem_cons_self)
        exact absurd this.2 (hall a this.1)

/-- `data in tree` -/
theorem contains_iff (t : Tree) (h : WF t) (d : DataId) :
    contains (indexOf t) d = true ↔ ∃ x ∈ T.flatL t.root.kids, x.did = d := by
  unfold contains
  cases hf : treeFindFirstId (indexOf t) d with
  | none =>
    have := (findFirst_exact t h d).2.1 hf
    simp only [Option.isSome_none, Bool.false_eq_true, false_iff]
    rintro ⟨x, hx, hd⟩
    exact this x hx hd
  | some x =>
    have := (findFirst_exact t h d).1 x hf
    simp only [Option.isSome_some, true_iff]
    exact ⟨x, this.1, this.2⟩

/-- `max_results` cuts the result -/
theorem findAll_limit (t : Tree) (d : DataId) (k : Nat) :
    treeFindAllId (indexOf t) d (some (k+1)) = (treeFindAllId (indexOf t) d none).take (k+1) :=
  treeFindAllId_limit _ d k

/-- clone queries: get_clones(add_self) and is_clone, count_unique -/
theorem clones_exact (t : Tree) (h : WF t) (x : T) (hx : x ∈ T.flatL t.root.kids) :
    (∀ y, y ∈ (treeFindAllId (indexOf t) x.did none).filter (fun y => y.id != x.id) ↔
        (y ∈ T.flatL t.root.kids ∧ y.did = x.did ∧ y.id ≠ x.id)) ∧
    (decide ((treeFindAllId (indexOf t) x.did none).length > 1) = true ↔
        ∃ y ∈ T.flatL t.root.kids, y.did = x.did ∧ y.id ≠ x.id) := by
  have hxm : x ∈ treeFindAllId (indexOf t) x.did none := (findAll_exact t h x.did x).2 ⟨hx, rfl⟩
  have hnd := findAll_nodup t h x.did
  constructor
  · intro y
    rw [List.mem_filter, findAll_exact t h x.did y]
    simp only [bne_iff_ne, ne_eq, and_assoc]
  · rw [decide_eq_true_eq]
    constructor
    · intro hlen
      match hl : treeFindAllId (indexOf t) x.did none, hlen with
      | a :: b :: l, _ =>
        rw [hl] at hnd hxm
        have hab : a.id ≠ b.id := by
          simp only [List.map_cons, List.nodup_cons, List.mem_cons, not_or] at hnd
          exact hnd.1.1
        have ha := (findAll_exact t h x.did a).1 (by rw [hl]; simp)
        have hb := (findAll_exact t h x.did b).1 (by rw [hl]; simp)
        by_cases hax : a.id = x.id
        · exact ⟨b, hb.1, hb.2, fun e => hab (hax.trans e.symm)⟩
        · exact ⟨a, ha.1, ha.2, hax⟩
    · rintro ⟨y, hy, hyd, hyx⟩
      have hym := (findAll_exact t h x.did y).2 ⟨hy, hyd⟩
      match hl : treeFindAllId (indexOf t) x.did none with
      | [] => rw [hl] at hxm; cases hxm
      | [a] =>
        rw [hl] at hxm hym
        simp only [List.mem_singleton] at hxm hym
        exact absurd (by rw [hxm, hym]) hyx
      | _ :: _ :: _ => simp

/-- `count_unique`: the number of keys is the number of distinct data ids -/
theorem countUnique_eq (t : Tree) (h : WF t) :
    t.byData.length = ((T.flatL t.root.kids).map T.did).eraseDups.length := by
  rw [← List.length_map (·.1)]
  refine List.Perm.length_eq ((List.perm_ext_iff_of_nodup h.index.keys (nodup_eraseDups _)).2 (fun d => ?_))
  rw [mem_eraseDups]
  exact mem_keys_iff h

/-- `count` (`len(tree)`): the number of registered nodes is the number of reachable nodes -/
theorem count_eq (t : Tree) (h : WF t) : t.byId.length = (T.flatL t.root.kids).length := by
  rw [h.registry.length_eq, List.length_map]

/-- the hypothesis `NoEmpty` of `C09.getItem_spec` holds for the index of a well-formed state -/
theorem noEmpty (t : Tree) (h : WF t) : ∀ p ∈ indexOf t, p.2 ≠ [] := by
  intro p hp
  obtain ⟨e, he, rfl⟩ := List.mem_map.1 hp
  cases hl : e.2 with
  | nil => exact absurd hl (h.index.noEmpty e he)
  | cons i l =>
    obtain ⟨y, hy, h1, _⟩ := (h.index.listed e.1 i).1 ⟨e.2, he, by rw [hl]; simp⟩
    have hf : findT i t.root = some y := by
      rw [← h1]; exact findT_of_mem h.idsN (mem_flat_of_mem_flatL_kids hy)
    simp only [List.filterMap_cons, hf]
    exact List.cons_ne_nil _ _

/-- the data_id rule for added data (explicit id, else the callback, else hash) — from
`addData_effect` of Nutree.C01 -/
theorem dataId_rule (t t' : Tree) (next parent : NodeId) (a : Atom) (before : Before) (did? : Option DataId)
    (kind : Option String)
    (hr : t.addData next parent a before did? kind = .ok t') (h : WF t) (hf : Nutree.C01.Fresh t next) :
    ∃ x, findT next t'.root = some x ∧ x.data = a ∧
      x.did = (match did? with
        | some d => d
        | none => match t.hook with
          | none => a.hid
          | some tbl => match tbl.lookup a.obj with
            | some (some d) => d
            | _ => a.hid) := by
  obtain ⟨p, ins, did, hp, hins, hroot, hdid⟩ := Nutree.C01.addData_effect' t t' next parent a before did? kind hr
  have h' := (Nutree.C01.addData_WF t t' next parent a before did? kind h hf hr).1
  refine ⟨T.node { id := next, data := a, did := did, kind := if t.typed then some (kind.getD "child") else none } [],
    (findT_eq_some_iff h'.idsN).2 ⟨?_, rfl⟩, rfl, ?_⟩
  · rw [hroot]
    refine mem_flat_modT_new hp (mem_flatL.2 ⟨_, ?_, self_mem_flat _⟩)
    exact (insertPosition_perm hins p.kids _).mem_iff.2 List.mem_cons_self
  · show did = _
    rcases hdid with rfl | ⟨rfl, hc⟩
    · rfl
    · unfold Tree.calcId at hc
      cases hh : t.hook with
      | none => rw [hh] at hc; cases hc; rfl
      | some tbl =>
        rw [hh] at hc
        simp only at hc ⊢
        cases hl : tbl.lookup a.obj with
        | none => rw [hl] at hc; cases hc; rfl
        | some o =>
          rw [hl] at hc
          cases o with
          | none => cases hc
          | some d => cases hc; rfl

end Nutree.C02
