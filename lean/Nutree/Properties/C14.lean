/-
  C14 — the nested dict form: `to_dict_list()` mirrors the tree, and `from_dict(to_dict_list())`
  rebuilds it (string data without mapper: D2; any data objects with a pair of inverse mappers: D3).
  Property theorems only; helper lemmas live in Nutree/Lemmas/SerialDict.lean (and SerialAdd.lean).
-/
import Nutree.Model.Serial
import Nutree.Model.Filter
import Nutree.Spec.WF
import Nutree.Lemmas.SerialDict
import Nutree.Lemmas.SerialDictMap
namespace Nutree.C14
open Nutree T Nutree.Ser Nutree.Flt.Spec

/-! ### D1 — `to_dict` / `to_dict_list` without mapper mirror the tree -/

/-- `node.to_dict()` without mapper is the documented mirror of the branch (`Ser.mirror`):
`{"data": str(data)}`, plus `"data_id"` iff the id is not the default `hash(data)`, plus
`"children"` (the mirrored child list) iff the node has children — in this key order. -/
theorem toDict_mirror (t : T) : toDict (fun _ _ => none) t = mirror t := Ser.toDict_mirror t

/-- `to_dict_list()` without mapper: the mirrors of the nodes, in order. -/
theorem toDictL_mirror (ks : List T) : toDictL (fun _ _ => none) ks = mirrorL ks := Ser.toDictL_mirror ks

/-- `to_dict_list(mapper=)` has one object per node, whatever the mapper does. -/
theorem toDictL_length (ser : T → Fields → Option Fields) (ks : List T) :
    (toDictL ser ks).length = ks.length := Ser.toDictL_length ser ks

/-- the same, key by key and without reference to `mirror`: the object of node `n` has
`"data" = str(n.data)`, has `"data_id"` (= the node's id) iff that id is not `hash(data)`, and has
`"children"` (= the list for `n.kids`) iff `n` has children. -/
theorem toDict_keys (n : T) :
    ∃ d, toDict (fun _ _ => none) n = .obj d ∧
      lookupF d "data" = some (.str n.name) ∧
      lookupF d "data_id" = (if n.did ≠ n.data.hid then some (didJ n.did) else none) ∧
      lookupF d "children" =
        (if n.kids.isEmpty then none else some (.arr (toDictL (fun _ _ => none) n.kids))) := by
  refine ⟨mirrorFields n, ?_, lookup_mirror_data n, lookup_mirror_data_id n, ?_⟩
  · rw [Ser.toDict_mirror, mirror_eq]
  · rw [lookup_mirror_children, Ser.toDictL_mirror]

/-! ### D2 — `from_dict(to_dict_list())` rebuilds the forest -/

/-- **Round trip through the nested dict form, with the id counter.**  As `fromDict_toDict`, and in
addition: exactly one fresh node id per node is consumed (the rebuilt nodes are numbered
`1 … |ks|` in pre-order) and the rebuilt tree is a plain, hook-free tree. -/
theorem fromDict_toDict_counter (strAtom : String → Atom) (ks : List T) (fuel : Nat)
    (hdata : ∀ n ∈ flatL ks, strAtom n.name = n.data)
    (htop : (ks.map T.did).Nodup)
    (hsib : ∀ x ∈ flatL ks, (x.kids.map T.did).Nodup)
    (hkind : ∀ n ∈ flatL ks, n.kind = none)
    (hfuel : heightL ks ≤ fuel) :
    ∃ t', fromDictL strAtom none fuel (toDictL (fun _ _ => none) ks) {} 0 1
          = .ok (t', 1 + (flatL ks).length) ∧
      shL t'.root.kids = shL ks ∧ WF t' ∧ C01.Fresh t' (1 + (flatL ks).length) ∧
      t'.typed = false ∧ t'.hook = none := by
  have hroot : findT 0 ({} : Tree).root = some (mkRoot []) := by
    show findT 0 (mkRoot []) = some (mkRoot [])
    rw [mkRoot, findT_node]; rfl
  have hfresh : C01.Fresh ({} : Tree) 1 := by
    refine ⟨Nat.one_pos, ?_⟩
    intro x hx
    have : x = mkRoot [] := by
      have : x ∈ flat (mkRoot []) := hx
      rw [mkRoot, flat_node, flatL_nil] at this
      simpa [mkRoot] using this
    subst this
    exact Nat.one_pos
  obtain ⟨t', ks', hrun, hr, hsh, hwf, hf, hty, hhk⟩ :=
    fromDictL_mirrorL strAtom ks fuel {} 0 1 (mkRoot []) C01.WF_init hfresh rfl rfl hroot
      (by intro c hc; simp [mkRoot] at hc) htop hsib hfuel hdata hkind
  refine ⟨t', ?_, ?_, hwf, hf, hty, hhk⟩
  · rw [Ser.toDictL_mirror]; exact hrun
  · have : t'.root = mkRoot ks' := by
      rw [hr]; exact modT_root_append ks'
    rw [this]; exact hsh

/-- **Round trip through the nested dict form** (`Tree.from_dict(tree.to_dict_list())`, string data,
no mapper).  `ks` is the source forest (its node identities are irrelevant and not constrained).
Hypotheses: every data object is the string that `strAtom` finds again from `str(data)`; data ids
are unique among siblings (top level included); the source is a plain tree (no kinds — the rebuilt
tree is untyped); the recursion fuel covers the nesting depth, `heightL ks ≤ fuel` (this bound is
sharp: `fromDictL` with exhausted fuel returns silently, so any smaller fuel loses the deepest nodes).
Then `from_dict` succeeds on the empty tree, the rebuilt forest has the same shape, data objects,
data ids (custom and default ones) as the source, and the rebuilt tree is well-formed. -/
theorem fromDict_toDict (strAtom : String → Atom) (ks : List T) (fuel : Nat)
    (hdata : ∀ n ∈ flatL ks, strAtom n.name = n.data)
    (htop : (ks.map T.did).Nodup)
    (hsib : ∀ x ∈ flatL ks, (x.kids.map T.did).Nodup)
    (hkind : ∀ n ∈ flatL ks, n.kind = none)
    (hfuel : heightL ks ≤ fuel) :
    ∃ t' next', fromDictL strAtom none fuel (toDictL (fun _ _ => none) ks) {} 0 1 = .ok (t', next') ∧
      shL t'.root.kids = shL ks ∧ WF t' := by
  obtain ⟨t', hrun, hsh, hwf, _⟩ := fromDict_toDict_counter strAtom ks fuel hdata htop hsib hkind hfuel
  exact ⟨t', _, hrun, hsh, hwf⟩

/-! ### D3 — objects with a pair of inverse mappers -/

/-- **Round trip through the nested dict form with a pair of inverse mappers**
(`Tree.from_dict(tree.to_dict_list(mapper=ser), mapper=deser)`), for ANY data objects.
"Inverse" is `Ser.MapperOK` at every node: the serialisation mapper leaves the entries `data_id` /
`children` alone, and the reading side (`deser`, or `item["data"]` when `deser = none`) finds the node's
data object again from the object written for that node.  Other hypotheses as in `fromDict_toDict`.
Then `from_dict` succeeds on the empty tree, consumes one fresh id per node, and the rebuilt forest has
the same shape, data objects and data ids (custom and default ones); the result is a well-formed plain tree. -/
theorem fromDict_toDict_mapper (sa : String → Atom) (ser : T → Fields → Option Fields)
    (deser : Option (Fields → DRes)) (ks : List T) (fuel : Nat)
    (hmap : ∀ n ∈ flatL ks, MapperOK sa ser deser n)
    (htop : (ks.map T.did).Nodup)
    (hsib : ∀ x ∈ flatL ks, (x.kids.map T.did).Nodup)
    (hkind : ∀ n ∈ flatL ks, n.kind = none)
    (hfuel : heightL ks ≤ fuel) :
    ∃ t', fromDictL sa deser fuel (toDictL ser ks) {} 0 1 = .ok (t', 1 + (flatL ks).length) ∧
      shL t'.root.kids = shL ks ∧ WF t' ∧ t'.typed = false ∧ t'.hook = none := by
  have hroot : findT 0 ({} : Tree).root = some (mkRoot []) := by
    show findT 0 (mkRoot []) = some (mkRoot [])
    rw [mkRoot, findT_node]; rfl
  have hfresh : C01.Fresh ({} : Tree) 1 := by
    refine ⟨Nat.one_pos, ?_⟩
    intro x hx
    have : x = mkRoot [] := by
      have : x ∈ flat (mkRoot []) := hx
      rw [mkRoot, flat_node, flatL_nil] at this
      simpa [mkRoot] using this
    subst this
    exact Nat.one_pos
  obtain ⟨t', ks', hrun, hr, hsh, hwf, _, hty, hhk⟩ :=
    fromDictL_toDictL_gen sa ser deser ks fuel {} 0 1 (mkRoot []) C01.WF_init hfresh rfl rfl hroot
      (by intro c hc; simp [mkRoot] at hc) htop hsib hfuel hmap hkind
  refine ⟨t', hrun, ?_, hwf, hty, hhk⟩
  have : t'.root = mkRoot ks' := by
    rw [hr]; exact modT_root_append ks'
  rw [this]; exact hsh

/-- without mapper the pair (identity, `item["data"]`) is inverse at every node whose string `sa` finds again:
`fromDict_toDict` is the instance `ser = fun _ _ => none`, `deser = none` of `fromDict_toDict_mapper`. -/
theorem mapperOK_none (sa : String → Atom) (n : T) (h : sa n.name = n.data) :
    MapperOK sa (fun _ _ => none) none n := by
  have hm : mapped (fun _ _ => none) n = baseFields n := rfl
  refine ⟨by rw [hm], ?_, ?_⟩
  · rw [hm]; by_cases hc : n.did = n.data.hid <;> simp [lookupF, baseFields, List.lookup, hc]
  · have hd : lookupF (encFields (fun _ _ => none) n) "data" = some (.str n.name) := by
      unfold encFields
      split
      · rw [hm]; simp [lookupF, baseFields]
      · rw [lookupF, lookup_setField_of_ne _ _ (by decide), hm]; simp [baseFields]
    simp only [itemData, hd, scalarAtom, h]

/-- non-vacuity of D3: two dataclass-like objects (no `str` data), one of them twice (a clone under an explicit id
and under its default id), a mapper that stores the object number under `"o"` and its inverse. -/
example :
    let a : Atom := { obj := 5, eqc := 5, hid := .int 55, truthy := true, isStr := false, name := "Item(5)" }
    let b : Atom := { obj := 6, eqc := 6, hid := .int 66, truthy := false, isStr := false, name := "Item(6)" }
    let ks : List T := [.node { id := 1, data := a, did := .int 55 } [.node { id := 2, data := b, did := .str "x" } []],
                        .node { id := 3, data := b, did := .int 66 } []]
    let ser : T → Fields → Option Fields := fun n d => some (d ++ [("o", .num n.data.obj)])
    let deser : Fields → DRes := fun d => match lookupF d "o" with
      | some (.num 5) => .atom a | some (.num 6) => .atom b | _ => .error
    ∀ n ∈ flatL ks, MapperOK (fun _ => a) ser (some deser) n := by
  intro a b ks ser deser n hn
  simp only [ks, flatL, flat, List.append_nil, List.cons_append, List.nil_append, List.mem_cons, List.not_mem_nil, or_false] at hn
  rcases hn with rfl | rfl | rfl <;> exact ⟨rfl, rfl, rfl⟩

end Nutree.C14
