/-
  C14 — the nested dict form: `to_dict_list()` mirrors the tree, and `from_dict(to_dict_list())`
  rebuilds it (string data, no mapper).
  Property theorems only; helper lemmas live in Nutree/Lemmas/SerialDict.lean (and SerialAdd.lean).
-/
import Nutree.Model.Serial
import Nutree.Model.Filter
import Nutree.Spec.WF
import Nutree.Lemmas.SerialDict
namespace Nutree.C14
open Nutree T Nutree.Ser Nutree.Flt.Spec

/-! ### D1 — `to_dict` / `to_dict_list` without mapper mirror the tree -/

/-- `node.to_dict()` without mapper is the documented mirror of the branch (`Ser.mirror`):
`{"data": str(data)}`, plus `"data_id"` iff the id is not the default `hash(data)`, plus
`"children"` (the mirrored child list) iff the node has children — in this key order. -/
theorem toDict_mirror (t : T) : toDict (fun _ _ => none) t = mirror t := Ser.toDict_mirror t

/-- `to_dict_list()` without mapper: the mirrors of the nodes, in order. -/
theorem toDictL_mirror (ks : List T) : toDictL (fun _ _ => none) ks = mirrorL ks := Ser.toDictL_mirror ks

/-- `to_dict_list(mapper=)` has one object per node, whatever the mapper does. -/
theorem toDictL_length (ser : T → Fields → Option Fields) (ks : List T) :
    (toDictL ser ks).length = ks.length := Ser.toDictL_length ser ks

/-- the same, key by key and without reference to `mirror`: the object of node `n` has
`"data" = str(n.data)`, has `"data_id"` (= the node's id) iff that id is not `hash(data)`, and has
`"children"` (= the list for `n.kids`) iff `n` has children. -/
theorem toDict_keys (n : T) :
    ∃ d, toDict (fun _ _ => none) n = .obj d ∧
      lookupF d "data" = some (.str n.name) ∧
      lookupF d "data_id" = (if n.did ≠ n.data.hid then some (didJ n.did) else none) ∧
      lookupF d "children" =
        (if n.kids.isEmpty then none else some (.arr (toDictL (fun _ _ => none) n.kids))) := by
  refine ⟨mirrorFields n, ?_, lookup_mirror_data n, lookup_mirror_data_id n, ?_⟩
  · rw [Ser.toDict_mirror, mirror_eq]
  · rw [lookup_mirror_children, Ser.toDictL_mirror]

/-! ### D2 — `from_dict(to_dict_list())` rebuilds the forest -/

/-- **Round trip through the nested dict form, with the id counter.**  As `fromDict_toDict`, and in
addition: exactly one fresh node id per node is consumed (the rebuilt nodes are numbered
`1 … |ks|` in pre-order) and the rebuilt tree is a plain, hook-free tree. -/
theorem fromDict_toDict_counter (strAtom : String → Atom) (ks : List T) (fuel : Nat)
    (hdata : ∀ n ∈ flatL ks, strAtom n.name = n.data)
    (htop : (ks.map T.did).Nodup)
    (hsib : ∀ x ∈ flatL ks, (x.kids.map T.did).Nodup)
    (hkind : ∀ n ∈ flatL ks, n.kind = none)
    (hfuel : heightL ks ≤ fuel) :
    ∃ t', fromDictL strAtom none fuel (toDictL (fun _ _ => none) ks) {} 0 1
          = .ok (t', 1 + (flatL ks).length) ∧
      shL t'.root.kids = shL ks ∧ WF t' ∧ C01.Fresh t' (1 + (flatL ks).length) ∧
      t'.typed = false ∧ t'.hook = none := by
  have hroot : findT 0 ({} : Tree).root = some (mkRoot []) := by
    show findT 0 (mkRoot []) = some (mkRoot [])
    rw [mkRoot, findT_node]; rfl
  have hfresh : C01.Fresh ({} : Tree) 1 := by
    refine ⟨Nat.one_pos, ?_⟩
    intro x hx
    have : x = mkRoot [] := by
      have : x ∈ flat (mkRoot []) := hx
      rw [mkRoot, flat_node, flatL_nil] at this
      simpa [mkRoot] using this
    subst this
    exact Nat.one_pos
  obtain ⟨t', ks', hrun, hr, hsh, hwf, hf, hty, hhk⟩ :=
    fromDictL_mirrorL strAtom ks fuel {} 0 1 (mkRoot []) C01.WF_init hfresh rfl rfl hroot
      (by intro c hc; simp [mkRoot] at hc) htop hsib hfuel hdata hkind
  refine ⟨t', ?_, ?_, hwf, hf, hty, hhk⟩
  · rw [Ser.toDictL_mirror]; exact hrun
  · have : t'.root = mkRoot ks' := by
      rw [hr]; exact modT_root_append ks'
    rw [this]; exact hsh

/-- **Round trip through the nested dict form** (`Tree.from_dict(tree.to_dict_list())`, string data,
no mapper).  `ks` is the source forest (its node identities are irrelevant and not constrained).
Hypotheses: every data object is the string that `strAtom` finds again from `str(data)`; data ids
are unique among siblings (top level included); the source is a plain tree (no kinds — the rebuilt
tree is untyped); the recursion fuel covers the nesting depth, `heightL ks ≤ fuel` (this bound is
sharp: `fromDictL` with exhausted fuel returns silently, so any smaller fuel loses the deepest nodes).
Then `from_dict` succeeds on the empty tree, the rebuilt forest has the same shape, data objects,
data ids (custom and default ones) as the source, and the rebuilt tree is well-formed. -/
theorem fromDict_toDict (strAtom : String → Atom) (ks : List T) (fuel : Nat)
    (hdata : ∀ n ∈ flatL ks, strAtom n.name = n.data)
    (htop : (ks.map T.did).Nodup)
    (hsib : ∀ x ∈ flatL ks, (x.kids.map T.did).Nodup)
    (hkind : ∀ n ∈ flatL ks, n.kind = none)
    (hfuel : heightL ks ≤ fuel) :
    ∃ t' next', fromDictL strAtom none fuel (toDictL (fun _ _ => none) ks) {} 0 1 = .ok (t', next') ∧
      shL t'.root.kids = shL ks ∧ WF t' := by
  obtain ⟨t', hrun, hsh, hwf, _⟩ := fromDict_toDict_counter strAtom ks fuel hdata htop hsib hkind hfuel
  exact ⟨t', _, hrun, hsh, hwf⟩

end Nutree.C14
