/-
  C03 — property theorems only; helper lemmas live in Nutree/Lemmas.
-/
import Nutree.Model.Ops
import Nutree.Spec.WF
namespace Nutree.C03
open Nutree T

/-- placeholder obligation until the theorems of this property land: the empty tree satisfies the decidable check. -/
theorem init_ok : wfB ({} : Tree) = true := by decide

end Nutree.C03
