/-
  C08 for every history: the in-place filter implements the specification on ANY reachable tree
  (`C01.C01_main` discharges the well-formedness hypothesis of `filterInPlace_spec`), and leaves a
  well-formed tree whatever the predicate does.
-/
import Nutree.Properties.C08
import Nutree.Properties.C01Main
namespace Nutree.C08
open Nutree T Nutree.Flt

/-- **after any history**, filtering the node `x` (identity `start`) of a reachable tree with a predicate that
gives recognised answers only: the call succeeds, `x` is still there and its children are exactly the
specification's forest; for ANY predicate (raising, unrecognised answers) the state stays well-formed. -/
theorem filter_after_any_history (ops : List Op) (t : Tree) (ht : t ∈ (World.run ops).trees)
    (start : NodeId) (v : T → Verdict) (x : T) (hx : findT start t.root = some x) :
    WF (filterInPlace t start v).1 ∧
    ((∀ m ∈ flatL x.kids, v m ≠ .other ∧ v m ≠ .error) →
      ∃ x', findT start (filterInPlace t start v).1.root = some x' ∧ x'.info = x.info ∧
        x'.kids = Spec.filterSpec v x.kids ∧ (filterInPlace t start v).2 = none) := by
  have h : WF t := ((C01.C01_main ops).2 t ht).1
  exact ⟨filterInPlace_WF t start v h, fun hv => filterInPlace_spec t start v x h hx hv⟩

end Nutree.C08
