/-
  C15 — Kind-aware queries of a typed tree equal filtering the child list by kind.
  Property theorems only; helper lemmas live in Nutree/Lemmas.
-/
import Nutree.Model.Typed
import Nutree.Lemmas.Typed
namespace Nutree.C15
open Nutree T Nutree.Typed

/-- `get_children(kind)` is the child list filtered by kind; with ANY_KIND the full list. -/
theorem getChildren_eq (self : T) (k : Option String) : getChildren self k = Spec.children self k := by
  unfold getChildren Spec.children Spec.byKind
  cases h : self.kids with
  | nil => cases k <;> simp
  | cons a as => cases k <;> simp

/-- `has_children(kind)` ↔ the filtered list is non-empty. -/
theorem hasChildren_eq (self : T) (k : Option String) : hasChildren self k = Spec.hasChildren self k := by
  unfold hasChildren Spec.hasChildren
  cases k with
  | none => simp [Spec.byKind]
  | some k =>
    simp only [getChildren_eq, Spec.children]
    cases (Spec.byKind self.kids (some k)) <;> simp

/-- `first_child(kind)`: the loop's first hit is the head of the filtered child list. -/
theorem firstChild_eq (self : T) (k : Option String) : firstChild self k = Spec.firstChild self k :=
  firstChild_spec self k

/-- `last_child(kind)`: the backward loop's first hit is the last of the filtered child list. -/
theorem lastChild_eq (self : T) (k : Option String) : lastChild self k = Spec.lastChild self k :=
  lastChild_spec self k

/-- `get_siblings(add_self=, any_kind=)` (no hypotheses needed). -/
theorem siblings_eq (root self : T) (addSelf anyKind : Bool) :
    Typed.getSiblings root self addSelf anyKind
      = Spec.siblings (siblingsAll root self) self addSelf anyKind := by
  cases anyKind with
  | true => simp [Typed.getSiblings, Nutree.getSiblings, Spec.siblings, Spec.sibList]
  | false => simpa [Typed.getSiblings] using siblings_spec (siblingsAll root self) self addSelf

/-- `first_sibling(any_kind=)` (no hypotheses needed). -/
theorem firstSibling_eq (root self : T) (anyKind : Bool) :
    Typed.firstSibling root self anyKind = Spec.first (siblingsAll root self) self anyKind :=
  first_spec (siblingsAll root self) self anyKind

/-- `last_sibling(any_kind=)` (no hypotheses needed). -/
theorem lastSibling_eq (root self : T) (anyKind : Bool) :
    Typed.lastSibling root self anyKind = Spec.last (siblingsAll root self) self anyKind :=
  last_spec (siblingsAll root self) self anyKind

/-- `get_index(any_kind=)` (no hypotheses needed). -/
theorem index_eq (root self : T) (anyKind : Bool) :
    Typed.getIndex root self anyKind = Spec.index (siblingsAll root self) self anyKind := rfl

/-- `prev_sibling(any_kind=)`, sharp form: with `any_kind=True` no hypothesis at all; with
`any_kind=False` it suffices that every sibling carrying self's identity has self's kind
(implied by `self ∈ pc` + pairwise distinct ids, see `prev_eq`). -/
theorem prev_eq_of_kind (root self : T) (anyKind : Bool)
    (hk : anyKind = false → ∀ n ∈ siblingsAll root self, n.id = self.id → n.kind = self.kind) :
    Typed.prevSibling root self anyKind = Spec.prev (siblingsAll root self) self anyKind :=
  prev_spec_of_sel root self anyKind (sel_of_kind hk)

/-- `next_sibling(any_kind=)`, sharp form (see `prev_eq_of_kind`). -/
theorem next_eq_of_kind (root self : T) (anyKind : Bool)
    (hk : anyKind = false → ∀ n ∈ siblingsAll root self, n.id = self.id → n.kind = self.kind) :
    Typed.nextSibling root self anyKind = Spec.next (siblingsAll root self) self anyKind :=
  next_spec_of_sel root self anyKind (sel_of_kind hk)

/-- `prev_sibling(any_kind=)`: needs `self` among its parent's children and distinct ids
(both are necessary for `any_kind=False`, see the counterexamples below). -/
theorem prev_eq (root self : T) (anyKind : Bool) (hmem : self ∈ siblingsAll root self)
    (hnd : ((siblingsAll root self).map T.id).Nodup) :
    Typed.prevSibling root self anyKind = Spec.prev (siblingsAll root self) self anyKind :=
  prev_eq_of_kind root self anyKind fun _ => kind_of_mem_nodup hmem hnd

/-- `next_sibling(any_kind=)`: needs `self` among its parent's children and distinct ids. -/
theorem next_eq (root self : T) (anyKind : Bool) (hmem : self ∈ siblingsAll root self)
    (hnd : ((siblingsAll root self).map T.id).Nodup) :
    Typed.nextSibling root self anyKind = Spec.next (siblingsAll root self) self anyKind :=
  next_eq_of_kind root self anyKind fun _ => kind_of_mem_nodup hmem hnd

/-- `is_first_sibling(any_kind=)` (no hypotheses needed). -/
theorem isFirst_eq (root self : T) (anyKind : Bool) :
    Typed.isFirstSibling root self anyKind = Spec.isFirst (siblingsAll root self) self anyKind := by
  unfold Typed.isFirstSibling Spec.isFirst
  rw [firstSibling_eq, Spec.first]
  exact headIs_eq_pos _ self

/-- `is_last_sibling(any_kind=)`: needs distinct ids only. -/
theorem isLast_eq (root self : T) (anyKind : Bool)
    (hnd : ((siblingsAll root self).map T.id).Nodup) :
    Typed.isLastSibling root self anyKind = Spec.isLast (siblingsAll root self) self anyKind := by
  unfold Typed.isLastSibling Spec.isLast
  rw [lastSibling_eq, Spec.last]
  refine lastIs_eq_pos _ self ?_
  rw [sibList_eq_filter]
  exact nodup_filter_ids _ hnd

/-- `iter_by_type(kind)`: the pre-order node list filtered by kind. -/
theorem iterByType_eq (root : T) (k : Option String) : iterByType root k = Spec.iterByType root k := by
  cases k <;> simp [iterByType, Spec.iterByType, Spec.byKind, iterPre_flat]

/-- `any_kind=True` gives exactly the untyped accessors of `Node` (Model/Rel). -/
theorem anyKind_untyped (root self : T) :
    Typed.getSiblings root self false true = Nutree.getSiblings root self false ∧
    Typed.getSiblings root self true true = Nutree.getSiblings root self true ∧
    Typed.firstSibling root self true = Nutree.firstSibling root self ∧
    Typed.lastSibling root self true = Nutree.lastSibling root self ∧
    Typed.getIndex root self true = Nutree.getIndex root self ∧
    Typed.isFirstSibling root self true = Nutree.isFirstSibling root self ∧
    Typed.isLastSibling root self true = Nutree.isLastSibling root self :=
  ⟨rfl, rfl, rfl, rfl, rfl, rfl, rfl⟩

/-- `prev_sibling(any_kind=True)` is the untyped `prev_sibling` (no hypotheses needed). -/
theorem anyKind_prev (root self : T) :
    Typed.prevSibling root self true = Nutree.prevSibling root self :=
  prev_anyKind_untyped root self

/-- `next_sibling(any_kind=True)` is the untyped `next_sibling` when ids are pairwise distinct
(the untyped version first tests `is_last_sibling`, which is fooled by a duplicate id). -/
theorem anyKind_next (root self : T) (hnd : ((siblingsAll root self).map T.id).Nodup) :
    Typed.nextSibling root self true = Nutree.nextSibling root self :=
  next_anyKind_untyped root self hnd

/-- Only `hnd` is needed (`hmem` of the original statement is superfluous). -/
theorem anyKind_prev_next (root self : T) (hnd : ((siblingsAll root self).map T.id).Nodup) :
    Typed.prevSibling root self true = Nutree.prevSibling root self ∧
    Typed.nextSibling root self true = Nutree.nextSibling root self :=
  ⟨anyKind_prev root self, anyKind_next root self hnd⟩

/-! ### Non-vacuity and necessity of the hypotheses (concrete trees) -/
section Examples

private def atom (n : Nat) : Atom :=
  { obj := n, eqc := n, hid := .int n, truthy := true, isStr := false, name := "n" }
private def leaf (i : Nat) (k : String) : T :=
  .node { id := i, data := atom i, did := .int i, kind := some k } []

private def a1 := leaf 1 "A"
private def b2 := leaf 2 "B"
private def a3 := leaf 3 "A"
private def b4 := leaf 4 "B"
private def a5 := leaf 5 "A"
/-- five siblings of two kinds below the system root. -/
private def r5 := mkRoot [a1, b2, a3, b4, a5]

/-- Non-vacuity: `hmem` and `hnd` hold for `a3` in a sibling list of 5 nodes of 2 kinds, and the
queries return the expected nodes. -/
example :
    siblingsAll r5 a3 = [a1, b2, a3, b4, a5] ∧
    a3 ∈ siblingsAll r5 a3 ∧ ((siblingsAll r5 a3).map T.id).Nodup ∧
    Typed.prevSibling r5 a3 false = some a1 ∧ Typed.nextSibling r5 a3 false = some a5 ∧
    Typed.prevSibling r5 a3 true = some b2 ∧ Typed.nextSibling r5 a3 true = some b4 ∧
    Typed.getIndex r5 a3 false = some 1 ∧ Typed.getIndex r5 a3 true = some 2 ∧
    Typed.isFirstSibling r5 a3 false = false ∧ Typed.isLastSibling r5 a5 false = true := by
  decide

example : Typed.prevSibling r5 a3 false = Spec.prev (siblingsAll r5 a3) a3 false :=
  prev_eq r5 a3 false (by decide) (by decide)

/-- `hmem` is necessary for `prev_eq`/`next_eq` (`any_kind=False`): a node value with id 3 but
kind "B" (the tree's node 3 has kind "A") is not a member of the sibling list. -/
example :
    let s := leaf 3 "B"
    s ∉ siblingsAll r5 s ∧ ((siblingsAll r5 s).map T.id).Nodup ∧
    Typed.prevSibling r5 s false = some b2 ∧ Spec.prev (siblingsAll r5 s) s false = none ∧
    Typed.nextSibling r5 s false = some b4 ∧ Spec.next (siblingsAll r5 s) s false = none := by
  decide

/-- a sibling list with a duplicated id: `[x(1,"A"), b(2,"B"), s(1,"B")]`. -/
private def rDup := mkRoot [leaf 1 "A", leaf 2 "B", leaf 1 "B"]

/-- `hnd` is necessary for `prev_eq` (`any_kind=False`). -/
example :
    let s := leaf 1 "B"
    s ∈ siblingsAll rDup s ∧
    Typed.prevSibling rDup s false = none ∧
    Spec.prev (siblingsAll rDup s) s false = some (leaf 2 "B") := by
  decide

/-- `[s(1,"A"), x(1,"A")]`: `hnd` is necessary for `isLast_eq` and for `anyKind_next`. -/
private def rDup2 := mkRoot [leaf 1 "A", .node { id := 1, data := atom 7, did := .int 7, kind := some "A" } []]

example :
    let s := leaf 1 "A"
    s ∈ siblingsAll rDup2 s ∧
    Typed.isLastSibling rDup2 s false = true ∧ Spec.isLast (siblingsAll rDup2 s) s false = false ∧
    Typed.isLastSibling rDup2 s true = true ∧ Spec.isLast (siblingsAll rDup2 s) s true = false ∧
    (Typed.nextSibling rDup2 s true).isSome = true ∧ Nutree.nextSibling rDup2 s = none := by
  decide

end Examples

end Nutree.C15
