/-
  C15 — Kind-aware queries of a typed tree equal filtering the child list by kind.
  Property theorems only; helper lemmas live in Nutree/Lemmas.
-/
import Nutree.Model.Typed
namespace Nutree.C15
open Nutree T Nutree.Typed

/-- `get_children(kind)` is the child list filtered by kind; with ANY_KIND the full list. -/
theorem getChildren_eq (self : T) (k : Option String) : getChildren self k = Spec.children self k := by
  unfold getChildren Spec.children Spec.byKind
  cases h : self.kids with
  | nil => cases k <;> simp
  | cons a as => cases k <;> simp

/-- `has_children(kind)` ↔ the filtered list is non-empty. -/
theorem hasChildren_eq (self : T) (k : Option String) : hasChildren self k = Spec.hasChildren self k := by
  unfold hasChildren Spec.hasChildren
  cases k with
  | none => simp [Spec.byKind]
  | some k =>
    simp only [getChildren_eq, Spec.children]
    cases (Spec.byKind self.kids (some k)) <;> simp

end Nutree.C15
