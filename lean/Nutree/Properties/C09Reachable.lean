/-
  C09 for every history: index access (`tree[key]`) and the id searches on the index of ANY reachable state.
  `C09.getItem_spec` needs the index invariant "no empty clone list"; `C02.noEmpty` derives it from `WF`, and
  `C01.C01_main` proves `WF` for every state reachable by any sequence of operations.
-/
import Nutree.Properties.C09
import Nutree.Properties.C02Reachable
namespace Nutree.C09
open Nutree T Nutree.Search

/-- **after any history**: `tree[key]` is the specification's decision (unique hit / ambiguous / KeyError /
ValueError) on the tree's index as it is now, and `find_all(data_id=, max_results=)` / `find_first(data_id=)` /
`in` are the (limited) clone list of the specification — for every tree of every reachable state, whatever
`node_id` table `byId` the lookup is given. -/
theorem index_access_after_any_history (ops : List Op) (t : Tree) (ht : t ∈ (World.run ops).trees)
    (byId : List (Int × T)) (key : Key) (d : DataId) (k : Option Nat) :
    getItem byId (C02.indexOf t) key = Spec.getItem byId (C02.indexOf t) key ∧
    treeFindAllId (C02.indexOf t) d k = Spec.limit k (Spec.clones (C02.indexOf t) d) ∧
    treeFindFirstId (C02.indexOf t) d = (Spec.clones (C02.indexOf t) d).head? ∧
    contains (C02.indexOf t) d = !(Spec.clones (C02.indexOf t) d).isEmpty := by
  have hne : NoEmpty (C02.indexOf t) := C02.noEmpty t (C02.wf_of_reachable ops t ht)
  exact ⟨getItem_spec byId _ key hne, treeFindAll_spec _ d k, treeFindFirst_spec _ d, contains_spec _ d hne⟩

end Nutree.C09
