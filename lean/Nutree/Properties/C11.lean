/-
  C11 — diff() marks exactly the one-sided children and projects back to both inputs.
  Property theorems only; helper lemmas live in Nutree/Lemmas.
-/
import Nutree.Model.Diff
namespace Nutree.C11
open Nutree T Nutree.Diff

/-- comparing two empty trees yields an empty result, for every setting. -/
theorem diff_empty (ordered reduce : Bool) : diffTree ordered reduce [] [] none = [] := by
  cases ordered <;> cases reduce <;> simp [diffTree, cmpNode, cmpL, addL, reclassify, addedIds, reduceL, T.flatL]

end Nutree.C11
