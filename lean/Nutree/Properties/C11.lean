/-
  C11 — diff() marks exactly the one-sided children and projects back to both inputs.
  Property theorems only; helper lemmas live in Nutree/Lemmas/Diff*.lean.

  Vocabulary (all in `Nutree.Diff`, see the `Lemmas/Diff*` files):
  * `rawDiff ordered t0 t1`  the forest built by `compare` before the re-classification loop;
  * `ValidOrder ordered t0 t1 o`  the iteration order `o` of the set `added_nodes` mentions only
    members of that set (`none` = creation order is always valid).  The loop of the implementation
    iterates over the *set* `added_nodes`, i.e. over a permutation of `addedIds (rawDiff …)`; for a
    list that contains identities of other nodes the statements T2–T6 are FALSE (the model is
    total in `order?`; counterexample in the doc comment of `proj_first`).
  * `SibU`, `IdFaithful`  hypotheses on the inputs;  `plainShape`, `dropMarked`, `PEquiv`,
    `FirstProj`  projections of a result;  `Matched` / `Spec` / `Local`  the matched-pairs traversal
    and the level-wise specification.

  T8 (`inputs_unchanged`) is not a theorem: the inputs of `diffTree` are values, the function
  returns a new forest (whose node identities are fresh, `1, 2, …` in pre-order, see
  `Diff.cmpNode_ids`), so there is nothing that could be mutated.
-/
import Nutree.Lemmas.DiffReduce
import Nutree.Lemmas.DiffMoved
import Nutree.Lemmas.DiffIdent
import Nutree.Lemmas.DiffSecond
namespace Nutree.C11
open Nutree T C10 Nutree.Diff

/-- comparing two empty trees yields an empty result, for every setting. -/
theorem diff_empty (ordered reduce : Bool) : diffTree ordered reduce [] [] none = [] := by
  cases ordered <;> cases reduce <;> simp [diffTree, cmpNode, cmpL, addL, reclassify, addedIds, reduceL]

/-! ## T7 — `reduce=True` -/

/-- T7: `reduceL` keeps exactly the nodes that carry a `dc` mark or have a descendant that does,
in order, with unchanged records (payload and marks): the pre-order list of records of the
reduced forest is the pre-order list of records of the forest filtered by `hasMarkedDesc`. -/
theorem reduce_spec (f : List T) :
    (flatL (reduceL f)).map T.info = ((flatL f).filter hasMarkedDesc).map T.info :=
  infosL_reduceL f

/-- T7: the reduced diff is the reduction of the un-reduced diff. -/
theorem reduce_diffTree (ordered : Bool) (t0 t1 : List T) (o : Option (List NodeId)) :
    diffTree ordered true t0 t1 o = reduceL (diffTree ordered false t0 t1 o) := rfl

/-! ## T6 — re-classification -/

/-- T6: in the result every node marked MOVED_HERE has a node marked MOVED_TO with the same
data_id, and vice versa. -/
theorem moved_pairs (ordered : Bool) (t0 t1 : List T) (o : Option (List NodeId))
    (hv : ValidOrder ordered t0 t1 o) :
    (∀ x ∈ flatL (diffTree ordered false t0 t1 o), dcOf x = some "MOVED_HERE" →
      ∃ y ∈ flatL (diffTree ordered false t0 t1 o), dcOf y = some "MOVED_TO" ∧ y.did = x.did) ∧
    (∀ x ∈ flatL (diffTree ordered false t0 t1 o), dcOf x = some "MOVED_TO" →
      ∃ y ∈ flatL (diffTree ordered false t0 t1 o), dcOf y = some "MOVED_HERE" ∧ y.did = x.did) := by
  obtain ⟨h1, h2⟩ := diffTree_pairs hv
  constructor
  · intro x hx hd
    obtain ⟨y, hy, hyd, hydid⟩ := h1 x.info (infosL_mem_of_mem_flatL hx) hd
    obtain ⟨n, hn, rfl⟩ := mem_infosL.1 hy
    exact ⟨n, hn, hyd, hydid⟩
  · intro x hx hd
    obtain ⟨y, hy, hyd, hydid⟩ := h2 x.info (infosL_mem_of_mem_flatL hx) hd
    obtain ⟨n, hn, rfl⟩ := mem_infosL.1 hy
    exact ⟨n, hn, hyd, hydid⟩

/-- T6: the loop never changes shape or payload (every forest, every order). -/
theorem reclassify_shape (order : List NodeId) (f : List T) :
    plainShape (reclassify order f) = plainShape f :=
  plainShape_reclassify order f

/-- T6 (partial — the statement "ADDED→MOVED_HERE and REMOVED→MOVED_TO are the only transitions"
is FALSE): position by position the final result has the records of the raw result (identity,
payload, kind, `dc_renumbered` unchanged — `SameBut`), and the `dc` mark is unchanged, or the
node belongs to `added_nodes`, was marked ADDED *or was an unmarked copy below an ADDED node*, and
is now MOVED_HERE, or it was REMOVED and is now MOVED_TO.

Counterexample to the stronger claim (checked with `#eval`): `t0 = [b]`, `t1 = [a[x[b]]]`.  The raw
result is `b:REMOVED, a:ADDED[x:ADDED[b:–]]` (`_copy_children` marks only the first level and puts
*all* copies into `added_nodes`); the loop turns the unmarked copy of `b` into MOVED_HERE (and
`b` into MOVED_TO), so an unmarked node changes its mark. -/
theorem moved_transitions_partial (ordered : Bool) (t0 t1 : List T) (o : Option (List NodeId))
    (hv : ValidOrder ordered t0 t1 o) :
    SimL (fun i j => SameBut i j ∧
        (dcI j = dcI i ∨
         ((dcI i = some "ADDED" ∨ dcI i = none) ∧ i.id ∈ addedIds (rawDiff ordered t0 t1) ∧
            dcI j = some "MOVED_HERE") ∨
         (dcI i = some "REMOVED" ∧ dcI j = some "MOVED_TO")))
      (rawDiff ordered t0 t1) (diffTree ordered false t0 t1 o) := by
  refine simL_mono ?_ _ _ (diffTree_simL hv)
  rintro i j ⟨hi, hs, ht⟩
  refine ⟨hs, ?_⟩
  rcases ht with ht | ⟨ha, ht⟩ | ht
  · exact Or.inl ht
  · exact Or.inr (Or.inl ⟨rawDiff_added_marks _ _ _ i hi ha, ha, ht⟩)
  · exact Or.inr (Or.inr ht)

/-- T6, positional form: only nodes marked ADDED and nodes below them can become MOVED_HERE
(`ReclL false`: the flag becomes `true` below a node marked ADDED). -/
theorem moved_positional (ordered : Bool) (t0 t1 : List T) (o : Option (List NodeId))
    (hv : ValidOrder ordered t0 t1 o) :
    ReclL false (rawDiff ordered t0 t1) (diffTree ordered false t0 t1 o) :=
  diffTree_reclL hv

/-! ## T1 — identical trees -/

/-- T1: comparing a tree with an identical copy yields no change marks and the same shape
(every iteration order, no validity hypothesis needed). -/
theorem diff_identical (ordered : Bool) {t : List T} (hS : SibU t) (hF : IdFaithful t t)
    (o : Option (List NodeId)) :
    (∀ n ∈ flatL (diffTree ordered false t t o), dcOf n = none) ∧
      plainShape (diffTree ordered false t t o) = plainShape t := by
  rw [ident_diffTree ⟨hS, hF⟩]
  obtain ⟨h1, h2⟩ := ident_raw ⟨hS, hF⟩ ordered
  exact ⟨fun n hn => (h1 n hn).1, h2⟩

/-- T1, addendum: no `dc_renumbered` either, and the reduced diff is empty. -/
theorem diff_identical_reduced (ordered : Bool) {t : List T} (hS : SibU t) (hF : IdFaithful t t)
    (o : Option (List NodeId)) :
    (∀ n ∈ flatL (diffTree ordered false t t o), hasRen n = false) ∧
      diffTree ordered true t t o = [] := by
  have h1 := (ident_raw ⟨hS, hF⟩ ordered).1
  rw [reduce_diffTree, ident_diffTree ⟨hS, hF⟩]
  refine ⟨fun n hn => (h1 n hn).2, ?_⟩
  have hany : (flatL (rawDiff ordered t t)).any (fun x => (dcOf x).isSome) = false := by
    rw [List.any_eq_false]
    intro x hx
    rw [(h1 x hx).1]; simp
  have := infosL_reduceL (rawDiff ordered t t)
  rw [filter_hasMarkedDesc_eq_nil hany] at this
  cases hr : reduceL (rawDiff ordered t t) with
  | nil => rfl
  | cons a as =>
    rw [hr] at this
    cases a
    simp [infosL_cons, infos_node] at this

/-! ## T2 — projection onto the first tree -/

/-- T2: dropping the ADDED / MOVED_HERE nodes from the result gives, below every node that is not
marked REMOVED / MOVED_TO, exactly `t0`'s child list in `t0`'s order (`FirstProj`).
`SibU` / `IdFaithful` are not needed.

`ValidOrder` is needed: for `t0 = [a[b], b]`, `t1 = [a, b]` the raw result is
`a:–[b:REMOVED], b:–`; with `order? = some [3]` (the identity of the matched top-level `b`, which
is not in `added_nodes`) the model marks that matched node MOVED_HERE, so it would be dropped
from the projection although it is a child of `t0`. -/
theorem proj_first (ordered : Bool) (t0 t1 : List T) (o : Option (List NodeId))
    (hv : ValidOrder ordered t0 t1 o) : FirstProj (diffTree ordered false t0 t1 o) t0 :=
  firstProj_of_spec ordered _ _ _ (spec_diffTree hv)

/-! ## T3 — projection onto the second tree -/

/-- T3: dropping the REMOVED / MOVED_TO nodes (with their subtrees) from the result gives `t1`'s
parent→child relation: the same payload shape up to the order of the children at every level
(`PEquiv`; matched elements have `==` data — the result carries `t0`'s data object — and the same
data_id). -/
theorem proj_second (ordered : Bool) {t0 t1 : List T} (h0 : SibU t0) (h1 : SibU t1)
    (hF : IdFaithful t0 t1) (o : Option (List NodeId)) (hv : ValidOrder ordered t0 t1 o) :
    PEquiv (plainShape (dropMarked ["REMOVED", "MOVED_TO"] (diffTree ordered false t0 t1 o)))
      (plainShape t1) :=
  secondProj_of_spec ordered _ _ _ h0 h1 hF (spec_diffTree hv)

/-! ## T4 — the marks are exact -/

/-- T4: at every level reached by the matched-pairs traversal (`k0`, `k1` the children of the
matched `p0`, `p1`; `r` the children of the result node):
* `r` consists of one child per child of `p0` (same position, same payload) followed by one child
  per child of `p1` whose data_id does not occur among `p0`'s children (`addedSrc`, in `p1` order);
* the child for `c0` is marked REMOVED / MOVED_TO iff `c0` has no `==` peer among `p1`'s children
  (then it is a leaf), it is never marked ADDED / MOVED_HERE, and if `c0` has a peer at index `i1`
  its mark is `orderMark ordered j i1` (no mark, or the order mark);
* the children for `addedSrc` are marked ADDED / MOVED_HERE (not REMOVED / MOVED_TO), and below
  them are plain copies (`CopyQ`: payload equal, unmarked or ADDED / MOVED_HERE);
* so a child is marked ADDED / MOVED_HERE iff its position is `≥ k0.length`. -/
theorem marks_exact (ordered : Bool) (t0 t1 : List T) (o : Option (List NodeId))
    (hv : ValidOrder ordered t0 t1 o) {k0 k1 r : List T}
    (hm : Matched t0 t1 (diffTree ordered false t0 t1 o) k0 k1 r) :
    r.length = k0.length + (addedSrc k0 k1).length ∧
    (∀ (j : Nat) (c0 : T), k0[j]? = some c0 → ∃ c2, r[j]? = some c2 ∧
        c2.data = c0.data ∧ c2.did = c0.did ∧
        (isRemoved c2 = true ↔ findChild k1 c0 = none) ∧ isAdded c2 = false ∧
        (findChild k1 c0 = none → c2.kids = []) ∧
        (∀ i1 c1, findChild k1 c0 = some (i1, c1) → dcOf c2 = orderMark ordered j i1)) ∧
    (∀ (j : Nat) (c1 : T), (addedSrc k0 k1)[j]? = some c1 → ∃ c2, r[k0.length + j]? = some c2 ∧
        c2.data = c1.data ∧ c2.did = c1.did ∧ isAdded c2 = true ∧ isRemoved c2 = false ∧
        SimL CopyQ c1.kids c2.kids) ∧
    (∀ (j : Nat) (c2 : T), r[j]? = some c2 → (isAdded c2 = true ↔ k0.length ≤ j)) := by
  have hl : Local ordered k0 k1 r := spec_diffTree hv _ _ _ hm
  have hsrc : ∀ (j : Nat) (c0 : T), k0[j]? = some c0 → ∃ c2, r[j]? = some c2 ∧
        c2.data = c0.data ∧ c2.did = c0.did ∧
        (isRemoved c2 = true ↔ findChild k1 c0 = none) ∧ isAdded c2 = false ∧
        (findChild k1 c0 = none → c2.kids = []) ∧
        (∀ i1 c1, findChild k1 c0 = some (i1, c1) → dcOf c2 = orderMark ordered j i1) := by
    intro j c0 h0
    obtain ⟨c2, h2, hd, hi, hmk⟩ := hl.src j c0 h0
    exact ⟨c2, h2, hd, hi, srcMark_removed_iff hmk, srcMark_not_added hmk,
      fun hf => (srcMark_none hmk hf).2.1, fun i1 c1 hf => (srcMark_found hmk hf).1⟩
  have hadd : ∀ (j : Nat) (c1 : T), (addedSrc k0 k1)[j]? = some c1 → ∃ c2, r[k0.length + j]? = some c2 ∧
        c2.data = c1.data ∧ c2.did = c1.did ∧ isAdded c2 = true ∧ isRemoved c2 = false ∧
        SimL CopyQ c1.kids c2.kids := by
    intro j c1 h1
    obtain ⟨c2, h2, hd, hi, ha, _, hs⟩ := hl.add j c1 h1
    refine ⟨c2, h2, hd, hi, ha, ?_, hs⟩
    unfold isAdded isAddedS at ha
    unfold isRemoved isRemovedS
    simp only [Bool.or_eq_true, beq_iff_eq] at ha
    rcases ha with ha | ha <;> rw [ha] <;> decide
  refine ⟨hl.len, hsrc, hadd, ?_⟩
  intro j c2 h2
  have hjr := (List.getElem?_eq_some_iff.1 h2).1
  by_cases hj : j < k0.length
  · obtain ⟨c2', h2', _, _, _, hna, _⟩ := hsrc j k0[j] (List.getElem?_eq_getElem hj)
    rw [h2] at h2'; injection h2' with h2'; subst h2'
    rw [hna]
    constructor
    · intro h; cases h
    · intro h; omega
  · have hlen := hl.len
    have hja : j - k0.length < (addedSrc k0 k1).length := by omega
    obtain ⟨c2', h2', _, _, ha, _⟩ := hadd (j - k0.length) _ (List.getElem?_eq_getElem hja)
    have : k0.length + (j - k0.length) = j := by omega
    rw [this, h2] at h2'; injection h2' with h2'; subst h2'
    exact ⟨fun _ => by omega, fun _ => ha⟩

/-! ## T5 — order marks and `dc_renumbered` -/

/-- T5 (matched children): at every matched level the result child for the `p0` child at index
`j` whose peer sits at index `i1` among `p1`'s children carries `dc = "(j, i1)"` iff
`ordered = true` and `j ≠ i1` (`orderMark`), and no mark otherwise; and it carries
`dc_renumbered` iff `ordered = true` and one of its own matched children is renumbered (some child
of `c0` has its peer at a different index among the children of `c1`). -/
theorem order_marks (ordered : Bool) (t0 t1 : List T) (o : Option (List NodeId))
    (hv : ValidOrder ordered t0 t1 o) {k0 k1 r : List T}
    (hm : Matched t0 t1 (diffTree ordered false t0 t1 o) k0 k1 r)
    {j i1 : Nat} {c0 c1 c2 : T} (h0 : k0[j]? = some c0) (hf : findChild k1 c0 = some (i1, c1))
    (h2 : r[j]? = some c2) :
    dcOf c2 = (if ordered && j != i1 then some (DC.order j i1).str else none) ∧
    (hasRen c2 = true ↔ ordered = true ∧
      ∃ j' d0 i' d1, c0.kids[j']? = some d0 ∧ findChild c1.kids d0 = some (i', d1) ∧ j' ≠ i') := by
  have hl : Local ordered k0 k1 r := spec_diffTree hv _ _ _ hm
  obtain ⟨c2', h2', _, _, hmk⟩ := hl.src j c0 h0
  rw [h2] at h2'; injection h2' with h2'; subst h2'
  exact srcMark_found hmk hf

/-- T5 (children without a peer, added children): no `dc_renumbered`. -/
theorem order_marks_onesided (ordered : Bool) (t0 t1 : List T) (o : Option (List NodeId))
    (hv : ValidOrder ordered t0 t1 o) {k0 k1 r : List T}
    (hm : Matched t0 t1 (diffTree ordered false t0 t1 o) k0 k1 r) :
    (∀ (j : Nat) (c0 c2 : T), k0[j]? = some c0 → findChild k1 c0 = none → r[j]? = some c2 →
      hasRen c2 = false) ∧
    (∀ (j : Nat) (c2 : T), k0.length ≤ j → r[j]? = some c2 →
      hasRen c2 = false ∧ ∀ x ∈ infosL c2.kids, renI x = false) := by
  have hl : Local ordered k0 k1 r := spec_diffTree hv _ _ _ hm
  constructor
  · intro j c0 c2 h0 hf h2
    obtain ⟨c2', h2', _, _, hmk⟩ := hl.src j c0 h0
    rw [h2] at h2'; injection h2' with h2'; subst h2'
    exact (srcMark_none hmk hf).2.2
  · intro j c2 hj h2
    have hjr := (List.getElem?_eq_some_iff.1 h2).1
    have hlen := hl.len
    have hja : j - k0.length < (addedSrc k0 k1).length := by omega
    obtain ⟨c2', h2', _, _, _, hren, hsim⟩ := hl.add (j - k0.length) _ (List.getElem?_eq_getElem hja)
    have : k0.length + (j - k0.length) = j := by omega
    rw [this, h2] at h2'; injection h2' with h2'; subst h2'
    refine ⟨hren, fun x hx => ?_⟩
    obtain ⟨y, _, hq⟩ := simL_right _ _ hsim x hx
    exact hq.2.2.2

/-- T5 (`ordered = false`): no order mark and no `dc_renumbered` anywhere in the result. -/
theorem order_marks_unordered (t0 t1 : List T) (o : Option (List NodeId))
    (hv : ValidOrder false t0 t1 o) :
    ∀ n ∈ flatL (diffTree false false t0 t1 o),
      hasRen n = false ∧ ∀ i0 i1, dcOf n ≠ some (DC.order i0 i1).str :=
  diffTree_unordered hv

/-! ## the default order is valid -/

/-- the creation order (`order? = none`) is a valid iteration order: T2–T6 hold for it without
any hypothesis on the order. -/
theorem validOrder_default (ordered : Bool) (t0 t1 : List T) : ValidOrder ordered t0 t1 none :=
  validOrder_none ordered t0 t1

/-- every list of members of `added_nodes` (in particular every permutation of it) is valid. -/
theorem validOrder_of_subset (ordered : Bool) (t0 t1 : List T) (l : List NodeId)
    (h : ∀ n ∈ l, n ∈ addedIds (rawDiff ordered t0 t1)) : ValidOrder ordered t0 t1 (some l) := by
  intro l' hl'; injection hl' with hl'; subst hl'; exact h

/-! ## non-vacuity: a concrete diff with a moved clone -/

section Example

private def lbl (k : Nat) (s : String) : Atom :=
  { obj := k, eqc := k, hid := .int k, truthy := true, isStr := true, name := s }
private def nd (id k : Nat) (s : String) (ks : List T) : T :=
  .node { id := id, data := lbl k s, did := .int k } ks

/-- `A[x, y], B` -/
private def ex0 : List T := [nd 1 1 "A" [nd 2 3 "x" [], nd 3 4 "y" []], nd 4 2 "B" []]
/-- `A[y], B[x], C`: `x` moved from `A` to `B`, `y` renumbered, `C` new. -/
private def ex1 : List T := [nd 1 1 "A" [nd 2 4 "y" []], nd 3 2 "B" [nd 4 3 "x" []], nd 5 5 "C" []]

private def marks (f : List T) : List (String × Option String × Bool) :=
  (flatL f).map fun n => (n.name, dcOf n, hasRen n)

/-- the result of `diff(ordered=True)` on the two forests: names, `dc` marks, `dc_renumbered`. -/
example : marks (diffTree true false ex0 ex1 none) =
    [("A", none, true), ("x", some "MOVED_TO", false), ("y", some "(1, 0)", false),
     ("B", none, false), ("x", some "MOVED_HERE", false), ("C", some "ADDED", false)] := by
  have f1 : findChild ex1 (nd 1 1 "A" [nd 2 3 "x" [], nd 3 4 "y" []]) =
      some (0, nd 1 1 "A" [nd 2 4 "y" []]) := by decide
  have f2 : findChild ex1 (nd 4 2 "B" []) = some (1, nd 3 2 "B" [nd 4 3 "x" []]) := by decide
  have f3 : findChild [nd 2 4 "y" []] (nd 2 3 "x" []) = none := by decide
  have f4 : findChild [nd 2 4 "y" []] (nd 3 4 "y" []) = some (0, nd 2 4 "y" []) := by decide
  have a1 : addedSrc ([] : List T) [] = [] := by decide
  have a2 : addedSrc [nd 2 3 "x" [], nd 3 4 "y" []] [nd 2 4 "y" []] = [] := by decide
  have a3 : addedSrc [] [nd 4 3 "x" []] = [nd 4 3 "x" []] := by decide
  have a4 : addedSrc ex0 ex1 = [nd 5 5 "C" []] := by decide
  rw [diffTree_false]
  unfold rawDiff
  simp only [ex0, nd] at f1 f2 f3 f4 a1 a2 a3 a4 ⊢
  simp only [cmpNode_eq, cmpL_cons, cmpL_nil, f1, f2, f3, f4, subFor, kids_node, a1, a2, a3, a4,
    addL_cons, addL_nil, copyKidsL_nil]
  decide

private theorem sibU_of_decide (f : List T)
    (h : (decide ((f.map T.did).Nodup) &&
      (flatL f).all (fun x => decide ((x.kids.map T.did).Nodup))) = true) : SibU f := by
  rw [Bool.and_eq_true, List.all_eq_true] at h
  exact ⟨of_decide_eq_true h.1, fun x hx => of_decide_eq_true (h.2 x hx)⟩

/-- the hypotheses of T1–T3 are satisfiable by these inputs. -/
example : SibU ex0 ∧ SibU ex1 ∧ IdFaithful ex0 ex1 := by
  refine ⟨sibU_of_decide _ (by decide), sibU_of_decide _ (by decide), ?_⟩
  have h : (flatL ex0).all (fun a => (flatL ex1).all fun b =>
      decide (a.data.pyEq b.data = true ↔ a.did = b.did)) = true := by decide
  intro a ha b hb
  rw [List.all_eq_true] at h
  have := h a ha
  rw [List.all_eq_true] at this
  exact of_decide_eq_true (this b hb)

end Example

end Nutree.C11
