/-
  C13 for every history: whatever sequence of operations led to the current state, the NEXT operation, if it is
  refused, changes nothing (single-node operations and copies), and, if a user callback fails in it, leaves
  a well-formed state.  (`refused_unchanged` needs no invariant; `refused_unchanged_copies` and
  `callback_failure_WFW` need `WFW`, which `C01_main` provides for every reachable state.)
-/
import Nutree.Properties.C01Main
namespace Nutree.C13
open Nutree T

/-- **after any history** `ops`, for the next operation `op`:
* a refused single-node operation (`add` and its shortcuts, `move_to`, `set_data`, `remove` without clones,
  `del tree[key]`, the metadata calls) or copy (`add(node)`, `add(tree)`, `copy_to`, `copy`) leaves the world — every
  tree, both registries, the identity counter — exactly as it was;
* whatever `op` is and however it ends (also with a failing callback), the state afterwards is well-formed. -/
theorem next_operation_after_any_history (ops : List Op) (op : Op) :
    let w := World.run ops
    (∀ e, (w.step op).2 = some e → (op.atomic = true ∨ op.copies = true) → (w.step op).1 = w) ∧
    C01.WFW (w.step op).1 := by
  intro w
  have hW : C01.WFW w := C01.C01_main ops
  refine ⟨fun e he hk => ?_, C01.step_preserves_WFW w op hW⟩
  rcases hk with hk | hk
  · exact C01.refused_unchanged w op e he hk
  · exact C01.refused_unchanged_copies w op e hW he hk

/-- non-vacuity: after a history that builds `A[a1]`, adding a second top node with A's data is refused
(uniqueness) and the world is unchanged. -/
example :
    let mk (i : Nat) (s : String) : Atom := { obj := i, eqc := i, hid := .int i, truthy := true, isStr := false, name := s }
    let ops : List Op := [.newTree false none, .add 0 0 (mk 1 "A") .none none none, .add 0 1 (mk 2 "a1") .none none none]
    let op : Op := .add 0 0 (mk 1 "A") .none none none
    ((World.run ops).step op).2.isSome = true ∧ (Op.atomic op) = true := by
  decide +kernel

end Nutree.C13
