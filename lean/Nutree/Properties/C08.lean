/-
  C08 — Filtering keeps exactly the accepted nodes and their ancestors.
  Property theorems only; helper lemmas live in Nutree/Lemmas.
-/
import Nutree.Model.Filter
namespace Nutree.C08
open Nutree T Nutree.Flt

/-- every spelling of a control signal — returned instance, returned class, raised — is
classified alike. -/
theorem spellings :
    callPredicate .retSkipInst = .skip ∧ callPredicate .retSkipCls = .skip ∧ callPredicate .raiseSkip = .skip ∧
    callPredicate .retSkipSelfInst = .skipKeepSelf ∧ callPredicate .raiseSkipSelf = .skipKeepSelf ∧
    callPredicate .retSelectInst = .select ∧ callPredicate .retSelectCls = .select ∧ callPredicate .raiseSelect = .select ∧
    callPredicate .retStopInst = .stop ∧ callPredicate .retStopCls = .stop ∧ callPredicate .raiseStop = .stop ∧
    callPredicate .raiseStopIter = .stop ∧ callPredicate .retFalse = .reject ∧ callPredicate .retNone = .reject ∧
    callPredicate .retTrue = .accept := by
  simp [callPredicate]

end Nutree.C08
