/-
  C08 — Filtering keeps exactly the accepted nodes and their ancestors.
  Property theorems only; helper lemmas live in Nutree/Lemmas (Filter, FilterScan, FilterInPlace, …).
-/
import Nutree.Model.Filter
import Nutree.Properties.C01
import Nutree.Lemmas.FilterStrip
import Nutree.Lemmas.FilterKeepSet
namespace Nutree.C08
open Nutree T Nutree.Flt

/-- every spelling of a control signal — returned instance, returned class, raised — is
classified alike. -/
theorem spellings :
    callPredicate .retSkipInst = .skip ∧ callPredicate .retSkipCls = .skip ∧ callPredicate .raiseSkip = .skip ∧
    callPredicate .retSkipSelfInst = .skipKeepSelf ∧ callPredicate .raiseSkipSelf = .skipKeepSelf ∧
    callPredicate .retSelectInst = .select ∧ callPredicate .retSelectCls = .select ∧ callPredicate .raiseSelect = .select ∧
    callPredicate .retStopInst = .stop ∧ callPredicate .retStopCls = .stop ∧ callPredicate .raiseStop = .stop ∧
    callPredicate .raiseStopIter = .stop ∧ callPredicate .retFalse = .reject ∧ callPredicate .retNone = .reject ∧
    callPredicate .retTrue = .accept := by
  simp [callPredicate]

/-! ### in-place `filter` -/

/-- **(1) the registry-free description of a batch of `remove()` calls.**  On the tree value,
folding `removeOne` over a removal list is exactly the erasure `eraseIds` of the listed subtrees
(`Nutree/Lemmas/Filter.lean`): the order is irrelevant and removing a node whose ancestor was
already removed is a no-op (`eraseIds_append`, `eraseIdsL_congr`). -/
theorem removals_eq_erase (t : Tree) (rm : List NodeId) (h : IdsNodup t) :
    (rm.foldl (fun t n => t.removeOne n) t).root = eraseIds rm t.root :=
  foldl_removeOne_root rm h

/-- (1), for `filter`: the tree value after the in-place filter is the old one without the
subtrees the scan decided to remove. -/
theorem filterInPlace_root (t : Tree) (start : NodeId) (v : T → Verdict) (x : T) (h : IdsNodup t)
    (hx : findT start t.root = some x) :
    (filterInPlace t start v).1.root = eraseIds (visitT v x).removed t.root := by
  unfold filterInPlace
  rw [hx]
  exact foldl_removeOne_root _ h

/-- a batch of plain removals keeps the state well-formed. -/
theorem removals_WF : ∀ (rm : List NodeId) (t : Tree), WF t → WF (rm.foldl (fun t n => t.removeOne n) t)
  | [], _, h => h
  | n :: rm, t, h => by
    rw [List.foldl_cons]
    exact removals_WF rm _ (C01.removeOne_WF' t n h)

/-- **(3) the in-place filter keeps the state well-formed, for every predicate** — including one
that gives unrecognised answers or raises (the removals made before the exception escapes are
complete removals: C13 for a raising predicate). -/
theorem filterInPlace_WF (t : Tree) (start : NodeId) (v : T → Verdict) (h : WF t) :
    WF (filterInPlace t start v).1 := by
  unfold filterInPlace
  cases findT start t.root with
  | none => exact h
  | some x => exact removals_WF _ t h

/-- **(2) the in-place filter implements the specification.**  For a well-formed state, an
existing start node `x` and a predicate that gives no unrecognised answer and raises no foreign
exception on `x`'s branch, the filter succeeds, the start node is still there (same identity),
and its children afterwards are *exactly* the specification's forest: kept nodes keep their
identity, record, order and their kept descendants. -/
theorem filterInPlace_spec (t : Tree) (start : NodeId) (v : T → Verdict) (x : T) (h : WF t)
    (hx : findT start t.root = some x) (hv : ∀ m ∈ flatL x.kids, v m ≠ .other ∧ v m ≠ .error) :
    ∃ x', findT start (filterInPlace t start v).1.root = some x' ∧ x'.info = x.info ∧
      x'.kids = Spec.filterSpec v x.kids ∧ (filterInPlace t start v).2 = none := by
  have hN := h.idsN
  have hxN : C10.IdsNodupL x.kids := idsNodupL_kids (idsNodup_of_mem_flat hN (findT_some_mem hx))
  obtain ⟨D, A, K, S, hr, hres⟩ := visitT_spec v (Spec.effective v x.kids) x hxN hv (agree_effective v hxN)
  refine ⟨eraseIds (D ++ A) x, ?_, eraseIds_info _ _, ?_, ?_⟩
  · rw [filterInPlace_root t start v x h.ids hx, hr]
    exact findT_eraseIds hN hx hres.sub
  · rw [eraseIds_kids, hres.erase]; rfl
  · unfold filterInPlace
    rw [hx]
    simp [hr]

/-! ### what is kept -/

/-- **(4) kept nodes appear once each, in their original order, with unchanged records.**
The identities (indeed the whole records) of the specification's forest, in pre-order, are a
sub-sequence of those of the source forest; hence every kept node is a source node with the same
`info`, and distinct source identities stay distinct. -/
theorem kept_once_in_order (v : T → Verdict) (ks : List T) :
    ((flatL (Spec.filterSpec v ks)).map T.id).Sublist ((flatL ks).map T.id) ∧
    ((flatL (Spec.filterSpec v ks)).map T.info).Sublist ((flatL ks).map T.info) ∧
    (∀ n' ∈ flatL (Spec.filterSpec v ks), ∃ n ∈ flatL ks, n.id = n'.id ∧ n.info = n'.info) ∧
    (C10.IdsNodupL ks → C10.IdsNodupL (Spec.filterSpec v ks)) := by
  have h : ((flatL (Spec.filterSpec v ks)).map T.info).Sublist ((flatL ks).map T.info) :=
    infosL_keepL_sublist _ ks
  have hid : ((flatL (Spec.filterSpec v ks)).map T.id).Sublist ((flatL ks).map T.id) := by
    have := h.map Info.id
    simpa [List.map_map, Function.comp_def] using this
  refine ⟨hid, h, ?_, fun hN => List.Nodup.sublist hid hN⟩
  intro n' hn'
  obtain ⟨n, hn, e⟩ := List.mem_map.1 (h.subset (List.mem_map_of_mem (f := T.info) hn'))
  exact ⟨n, hn, by show n.info.id = n'.info.id; rw [e], e⟩

/-- **(5) the kept set, by an explicit ancestor relation** (`Anc a n`: `n` lies strictly below
`a`; ancestors are taken within the filtered forest `ks`, whose identities are distinct).  With
the effective verdicts `w := Spec.effective v ks`, a node `n` of `ks` is kept (occurs, by
identity, in `filterSpec v ks`; by (4) with its record) iff
* no proper ancestor of `n` blocks (`skip` / `skipKeepSelf`), and
* `n` has an ancestor-or-self with verdict `select`, or a descendant-or-self `m` with an
  accepting verdict (`accept` / `skipKeepSelf` / `select`) such that no node from `n` down to
  (excluding) `m` blocks.
The version for arbitrary verdict functions is `Flt.keptL_iff`. -/
theorem keepSet_characterisation (v : T → Verdict) (ks : List T) (hN : C10.IdsNodupL ks) (n : T)
    (hn : n ∈ flatL ks) :
    (∃ n' ∈ flatL (Spec.filterSpec v ks), n'.id = n.id) ↔
      (∀ b ∈ flatL ks, Anc b n → ¬ Blocks (Spec.effective v ks b)) ∧
      ((∃ a ∈ flatL ks, n ∈ flat a ∧ Spec.effective v ks a = .select) ∨
       (∃ m ∈ flat n, Accepting (Spec.effective v ks m) ∧
          ∀ b ∈ flat n, Anc b m → ¬ Blocks (Spec.effective v ks b))) := by
  have hA := agree_effective v hN
  have hE := agree_below v (Spec.effective v ks) ks false hN hA
  unfold Spec.filterSpec
  rw [keptL_iff _ hN hn]
  constructor
  · rintro (⟨a, ha, hna, hwa, hfree⟩ | ⟨hfree, hwit⟩)
    · refine ⟨fun b hb hbn hblk => ?_, Or.inl ⟨a, ha, hna, hwa⟩⟩
      have hsel : ¬ Blocks (Spec.effective v ks a) := by rw [hwa]; rintro (h | h) <;> cases h
      rcases anc_comparable hN ha hb hna (mem_flat_of_mem_flatL_kids hbn) with h | h
      · rw [flat_eq, List.mem_cons] at h
        rcases h with rfl | h
        · exact hsel hblk
        · exact hfree b hb h hblk
      · rw [flat_eq, List.mem_cons] at h
        rcases h with rfl | h
        · exact hsel hblk
        · have := hE a ha (by rw [hwa]; rfl) b h
          rw [this] at hblk
          rcases hblk with h | h <;> cases h
    · exact ⟨hfree, Or.inr hwit⟩
  · rintro ⟨hfree, ⟨a, ha, hna, hwa⟩ | hwit⟩
    · exact Or.inl ⟨a, ha, hna, hwa, fun b hb hba => hfree b hb (anc_trans hba hna)⟩
    · exact Or.inr ⟨hfree, hwit⟩

/-- the scanned nodes are those before the first stop in scan order. -/
theorem scanned_eq_before_first_stop (v : T → Verdict) (ks : List T) (pre post : List T) (m : T)
    (h : Spec.scanL v ks = pre ++ m :: post) (hm : v m = .stop) (hpre : ∀ x ∈ pre, v x ≠ .stop) :
    Spec.scanned v ks = pre := by
  unfold Spec.scanned
  rw [h, List.takeWhile_append_of_pos (fun x hx => by simpa using hpre x hx), List.takeWhile_cons,
    if_neg (by simp [hm]), List.append_nil]

/-- **(8) a stop keeps what was accepted so far.**  Everything accepted (`accept`,
`skipKeepSelf`, `select`) among the nodes scanned before the first stop (`Spec.scanned`) is kept;
and a node that was *not* scanned (in particular: the stopping node and everything after it in
scan order) is kept only as a proper ancestor of such an accepted scanned node, or below a node
that answered `select` before the stop. -/
theorem stop_keeps_accepted_so_far (v : T → Verdict) (ks : List T) (hN : C10.IdsNodupL ks) :
    (∀ x ∈ Spec.scanned v ks, Accepting (v x) → ∃ n' ∈ flatL (Spec.filterSpec v ks), n'.id = x.id) ∧
    (∀ n ∈ flatL ks, n ∉ Spec.scanned v ks → (∃ n' ∈ flatL (Spec.filterSpec v ks), n'.id = n.id) →
      (∃ x ∈ Spec.scanned v ks, Accepting (v x) ∧ Anc n x) ∨
      (∃ a ∈ Spec.scanned v ks, v a = .select ∧ Anc a n)) := by
  have hA := agree_effective v hN
  have hE := agree_below v (Spec.effective v ks) ks false hN hA
  have hacc : ∀ x ∈ flatL ks, Accepting (Spec.effective v ks x) →
      x ∈ Spec.scanned v ks ∧ Spec.effective v ks x = v x := by
    intro x hx h
    by_cases hs : x ∈ Spec.scanned v ks
    · exact ⟨hs, hA.onPre x hs⟩
    · rw [hA.offPre x hx hs] at h
      rcases h with h | h | h <;> cases h
  constructor
  · intro x hx hacc'
    have hxm : x ∈ flatL ks := mem_pre_flatL (v := v) (s := false) hx
    have hw : Spec.effective v ks x = v x := hA.onPre x hx
    refine (keepSet_characterisation v ks hN x hxm).2 ⟨fun b hb hbx hblk => ?_, Or.inr
      ⟨x, self_mem_flat x, by rw [hw]; exact hacc', fun b hb hbx => absurd hbx (not_anc_of_mem_flat hb)⟩⟩
    have := hE b hb (not_descends_of_blocks hblk) x hbx
    rw [hw] at this
    rw [this] at hacc'
    rcases hacc' with h | h | h <;> cases h
  · intro n hn hns hk
    have hwn : Spec.effective v ks n = .reject := hA.offPre n hn hns
    obtain ⟨_, ⟨a, ha, hna, hwa⟩ | ⟨m, hm, hmacc, _⟩⟩ := (keepSet_characterisation v ks hN n hn).1 hk
    · right
      obtain ⟨has, hav⟩ := hacc a ha (Or.inr (Or.inr hwa))
      rw [flat_eq, List.mem_cons] at hna
      rcases hna with rfl | hna
      · rw [hwn] at hwa; cases hwa
      · exact ⟨a, has, hav ▸ hwa, hna⟩
    · left
      rw [flat_eq, List.mem_cons] at hm
      rcases hm with rfl | hm
      · rw [hwn] at hmacc; rcases hmacc with h | h | h <;> cases h
      · obtain ⟨hms, hmv⟩ := hacc m (mem_flatL_of_anc hn hm) hmacc
        exact ⟨m, hms, hmv ▸ hmacc, hm⟩

/-! ### the copying form -/

/-- **(6) the copying filter, up to the known duplicate.**  Source: distinct node identities,
sibling-unique data ids, plain tree whose nodes carry no kind (the copies of a plain tree have
kind `none`; hypothesis added because the model's well-formedness does not speak about kinds),
id counter `next > 0` (0 is the system root); predicate without unrecognised answers / foreign
exceptions; and `NoSelfCloneChild`: no accepted node has a *kept* child with the node's own data
id (otherwise the duplicate collides with that child and the real code raises
`UniqueConstraintError`).  Then `Tree.filtered(pred)` succeeds, returns a well-formed tree, and
after removing the recorded duplicates (`stripDupL`) its shape is that of the specification.

The source is unchanged by type: `treeFiltered` returns a new state and has no access to modify
`src` (`filtered_source_unchanged` is this remark, not a theorem). -/
theorem filtered_dupSpec (src : Tree) (next : NodeId) (v : T → Verdict)
    (hids : IdsNodup src) (hsib : SibUnique src) (hun : src.typed = false)
    (hkind : ∀ m ∈ flatL src.root.kids, m.kind = none) (hnext : 0 < next)
    (hv : ∀ m ∈ flatL src.root.kids, v m ≠ .other ∧ v m ≠ .error)
    (hns : NoSelfCloneChild (Spec.effective v src.root.kids) src.root.kids) :
    (treeFiltered src next v).2.2 = none ∧ WF (treeFiltered src next v).1 ∧
      Spec.shL (Spec.stripDupL (Spec.effective v src.root.kids) src.root.kids
          (treeFiltered src next v).1.root.kids) = Spec.shL (Spec.filterSpec v src.root.kids) := by
  have hN : C10.IdsNodupL src.root.kids := idsNodupL_kids hids
  have hS : SibUL src.root.kids :=
    ⟨hsib _ (self_mem_flat _), fun x hx => hsib x (mem_flat_of_mem_flatL_kids hx)⟩
  have hwf : WF ({ typed := src.typed } : Tree) := WF.congr (t := {}) rfl rfl rfl C01.WF_init
  have hgood : Good ({ typed := src.typed } : Tree) next :=
    ⟨hwf, ⟨hnext, by intro x hx; simp [mkRoot, T.flat, T.flatL] at hx; subst hx; exact hnext⟩, hun⟩
  have ctx : Ctx { t := { typed := src.typed }, next := next } [.existing 0]
      { t := { typed := src.typed }, next := next } [.existing 0] 0 (mkRoot []) :=
    ⟨idem_root _ rfl, rfl, idem_root, hgood, by simp [mkRoot, findT, rootInfo]⟩
  obtain ⟨C, out⟩ := mainL v (Spec.effective v src.root.kids) src.root.kids _ _ _ _ _ _ hN hv
    (agree_effective v hN) hS hkind hns rfl ctx (by intro c hc; simp [mkRoot] at hc)
  have hrun : treeFiltered src next v =
      ((addFilteredL v src.root.kids { t := { typed := src.typed }, next := next } [.existing 0]).1.t,
       (addFilteredL v src.root.kids { t := { typed := src.typed }, next := next } [.existing 0]).1.next,
       (addFilteredL v src.root.kids { t := { typed := src.typed }, next := next } [.existing 0]).1.err) := by
    unfold treeFiltered addFiltered; rw [addFilteredT_eq]
  rw [hrun]
  have hkids : (addFilteredL v src.root.kids { t := { typed := src.typed }, next := next }
      [.existing 0]).1.t.root.kids = C := by
    by_cases hC : C = []
    · rw [out.nil hC, hC]; rfl
    · rw [(out.cons hC).2]; simp [mkRoot, modT_node, rootInfo]
  refine ⟨out.err, ?_, ?_⟩
  · by_cases hC : C = []
    · show WF (addFilteredL v src.root.kids _ _).1.t
      rw [out.nil hC]; exact hwf
    · exact (out.cons hC).1.wf
  · show Spec.shL (Spec.stripDupL _ _ (addFilteredL v src.root.kids _ _).1.t.root.kids) = _
    rw [hkids]
    exact strip_ok _ _ hkind C out.shape

/-- the boundary of (6): **without** stripping the duplicate the copy does *not* have the shape of
the specification — the recorded known finding (an accepted node gets a leaf copy of itself as
first child), on the one-node tree with verdict `accept`. -/
theorem filtered_not_spec_witness :
    ∃ (src : Tree) (v : T → Verdict),
      Spec.shL (treeFiltered src 1 v).1.root.kids ≠ Spec.shL (Spec.filterSpec v src.root.kids) :=
  ⟨{ root := mkRoot [.node { id := 1, data := rootAtom, did := .int 1 } []], byId := [1],
     byData := [(.int 1, [1])] }, fun _ => .accept, by decide⟩

/-- the hypothesis `NoSelfCloneChild` of (6) cannot be dropped: an accepted node with an accepted
child carrying the same data id makes the copy fail with the uniqueness error (the duplicate of
the node collides with the copy of the child). -/
theorem filtered_selfclone_collides :
    ∃ (src : Tree) (v : T → Verdict), (treeFiltered src 10 v).2.2 = some .unique :=
  ⟨{ root := mkRoot [.node { id := 1, data := rootAtom, did := .int 1 }
        [.node { id := 2, data := rootAtom, did := .int 1 } []]] }, fun _ => .accept, by decide⟩

/-- **(7) in place and copying agree up to the duplicate**: on a well-formed plain tree,
`Tree.filter(pred)` (the in-place filter started at the system root) leaves exactly the forest
whose shape is that of `Tree.filtered(pred)` with the duplicates removed.  Corollary of (2) and (6). -/
theorem inplace_eq_copy_modulo_dup (t : Tree) (next : NodeId) (v : T → Verdict) (h : WF t)
    (hun : t.typed = false) (hkind : ∀ m ∈ flatL t.root.kids, m.kind = none) (hnext : 0 < next)
    (hv : ∀ m ∈ flatL t.root.kids, v m ≠ .other ∧ v m ≠ .error)
    (hns : NoSelfCloneChild (Spec.effective v t.root.kids) t.root.kids) :
    Spec.shL (Spec.stripDupL (Spec.effective v t.root.kids) t.root.kids (treeFiltered t next v).1.root.kids) =
      Spec.shL (filterInPlace t 0 v).1.root.kids ∧
    (filterInPlace t 0 v).2 = none ∧ (treeFiltered t next v).2.2 = none := by
  have hroot : findT 0 t.root = some t.root := by rw [← h.rootId]; exact findT_self _
  obtain ⟨x', hx', _, hk, he⟩ := filterInPlace_spec t 0 v t.root h hroot hv
  obtain ⟨c1, _, c3⟩ := filtered_dupSpec t next v h.ids h.sib hun hkind hnext hv hns
  have hid : (filterInPlace t 0 v).1.root.id = 0 := (filterInPlace_WF t 0 v h).rootId
  have : x' = (filterInPlace t 0 v).1.root := by
    have := findT_self (filterInPlace t 0 v).1.root
    rw [hid, hx'] at this
    exact Option.some.inj this
  rw [← this, hk]
  exact ⟨c3, he, c1⟩

end Nutree.C08
