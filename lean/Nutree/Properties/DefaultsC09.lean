/-
C09, source-level obligation: the default values of the documented keyword arguments, as read from the
signatures in the source text on this run (`Generated.defaultsC09`, translate/gen_defaults.py), are the
documented ones (`Spec.Defaults.documentedC09`).  The correspondence harness leaves out arguments that
equal their documented default; this table also covers the parameters and call paths it does not sample.
-/
import Nutree.Generated.Defaults
import Nutree.Spec.Defaults

namespace Nutree.C09

theorem defaults_as_documented : Generated.defaultsC09 = Spec.Defaults.documentedC09 := by decide

end Nutree.C09
