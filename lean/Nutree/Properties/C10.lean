/-
  C10 — Relationship queries agree with the tree's actual shape.
  Property theorems only; helper lemmas live in Nutree/Lemmas.
-/
import Nutree.Model.Rel
import Nutree.Spec.Rel
namespace Nutree.C10
open Nutree T

/-- `has_children` / `is_leaf` are complementary. -/
theorem leaf_iff_no_children (self : T) : self.kids.isEmpty = !(!self.kids.isEmpty) := by simp

end Nutree.C10
