/-
  C10 — Relationship queries agree with the tree's actual shape.
  Property theorems only; helper lemmas live in Nutree/Lemmas.

  Setting: `root` is the system root, `self` the node at the non-empty path `p`
  (`root.sub p = some self`), and all node identities of the tree are pairwise distinct
  (`IdsNodup root`, defined in Nutree/Lemmas/Rel.lean).  Each operational accessor of
  Nutree/Model/Rel.lean (which *searches* parents by identity) equals its path specification
  of Nutree/Spec/Rel.lean.
-/
import Nutree.Model.Rel
import Nutree.Spec.Rel
import Nutree.Lemmas.Iter
import Nutree.Lemmas.Rel
import Nutree.Lemmas.RelChain
import Nutree.Lemmas.RelSib
namespace Nutree.C10
open Nutree T

/-- `has_children` / `is_leaf` are complementary. -/
theorem leaf_iff_no_children (self : T) : self.kids.isEmpty = !(!self.kids.isEmpty) := by simp

/-! ### non-vacuity: a concrete tree with distinct identities (6 nodes, depth 3) -/

private def mkI (n : Nat) : Info := { id := n, data := rootAtom, did := .int n }

/-- system root 0 with tops 1 and 5; 1 has children 2 and 4; 2 has child 3 -/
def exampleTree : T :=
  .node (mkI 0) [.node (mkI 1) [.node (mkI 2) [.node (mkI 3) []], .node (mkI 4) []],
                 .node (mkI 5) []]

example : IdsNodup exampleTree ∧ (T.flat exampleTree).length = 6
    ∧ exampleTree.sub [0, 0, 0] = some (.node (mkI 3) []) := by
  refine ⟨?_, ?_, ?_⟩
  · simp [IdsNodup, exampleTree, T.flat, T.flatL, mkI, T.id, T.info]
  · simp [exampleTree, T.flat, T.flatL]
  · simp [exampleTree, T.sub]

/-! ### the two key facts, restated -/

/-- the searched `_parent` is the node one step up the path -/
theorem findParent_eq (root self : T) (p : List Nat) (hN : IdsNodup root) (hp : p ≠ [])
    (hs : root.sub p = some self) : findParent self.id root = root.sub p.dropLast :=
  findParent_eq_sub_dropLast hN hp hs

/-- the `_parent` chain (fuel `root.size`) is: parent, grand-parent, …, system root -/
theorem chain_eq (root self : T) (p : List Nat) (hN : IdsNodup root) (hp : p ≠ [])
    (hs : root.sub p = some self) :
    chain root self = (pathNodes root p.dropLast).reverse ++ [root] := by
  obtain ⟨p', i, par, rfl, hpar, hi⟩ := snoc_cases hp hs
  rw [List.dropLast_concat]; exact chain_snoc hN hpar hi

/-- the same, by prefixes of the path: the nodes at `p.take (n-1)`, …, `p.take 1`, `p.take 0` -/
theorem chain_range (root self : T) (p : List Nat) (hN : IdsNodup root) (hp : p ≠ [])
    (hs : root.sub p = some self) :
    chain root self =
      (List.range p.length).reverse.filterMap (fun k => root.sub (p.take k)) := by
  obtain ⟨p', i, par, rfl, hpar, hi⟩ := snoc_cases hp hs
  rw [chain_snoc hN hpar hi, pathNodes_reverse_range _ p' par rfl hpar]
  simp only [List.length_append, List.length_singleton]
  apply filterMap_congr'
  intro k hk
  have : k ≤ p'.length := by simp at hk; omega
  rw [List.take_append_of_le_length this]

/-! ### single-node accessors -/

theorem parent_eq (root self : T) (p : List Nat) (hN : IdsNodup root) (hp : p ≠ [])
    (hs : root.sub p = some self) : parentOf root self = SpecRel.parent root p := by
  obtain ⟨p', i, par, rfl, hpar, hi⟩ := snoc_cases hp hs
  obtain ⟨rest, hc, hl⟩ := chain_cons hN hpar hi
  simp only [parentOf, hc, SpecRel.parent, List.dropLast_concat, hpar, List.length_append,
    List.length_singleton]
  cases rest with
  | nil => rw [if_pos (by simp at hl; omega)]
  | cons a r => rw [if_neg (by simp at hl; omega)]

theorem up_eq (root self : T) (p : List Nat) (hN : IdsNodup root) (hp : p ≠ [])
    (hs : root.sub p = some self) (k : Int) : up root self k = SpecRel.up root p k := by
  obtain ⟨p', i, par, rfl, hpar, hi⟩ := snoc_cases hp hs
  unfold up SpecRel.up
  by_cases hk : k < 1
  · simp [hk]
  · rw [if_neg hk, chain_getElem? hN hpar hi]
    simp only [List.length_append, List.length_singleton]
    by_cases hle : (k - 1).toNat ≤ p'.length
    · have h2 : ¬ (k < 1 ∨ k.toNat > p'.length + 1) := by omega
      rw [if_pos hle, if_neg h2]
      have h3 : p'.length + 1 - k.toNat = p'.length - (k - 1).toNat := by omega
      rw [h3, List.take_append_of_le_length (by omega)]
    · have h2 : k < 1 ∨ k.toNat > p'.length + 1 := by omega
      rw [if_neg hle, if_pos h2]

theorem depth_eq (root self : T) (p : List Nat) (hN : IdsNodup root) (hp : p ≠ [])
    (hs : root.sub p = some self) : calcDepth root self = SpecRel.depth p := by
  obtain ⟨p', i, par, rfl, hpar, hi⟩ := snoc_cases hp hs
  simp [calcDepth, SpecRel.depth, chain_length hN hpar hi]

/-- the accumulator version `_ch` of `calc_height` computes the structural height -/
theorem height_eq (t : T) : calcHeight t = t.height := by
  simp [calcHeight, chT_eq]

theorem siblings_eq (root self : T) (p : List Nat) (hN : IdsNodup root) (hp : p ≠ [])
    (hs : root.sub p = some self) (addSelf : Bool) :
    getSiblings root self addSelf = SpecRel.siblings root p addSelf := by
  obtain ⟨p', i, par, rfl, hpar, hi⟩ := snoc_cases hp hs
  unfold getSiblings SpecRel.siblings
  rw [siblingsAll_model hN hpar hi, siblingsAll_spec hpar]
  cases addSelf with
  | true => simp
  | false =>
    simp only [Bool.false_eq_true, if_false, List.getLast?_concat]
    exact filter_not_eq_eraseIdx (g := fun n => n.id == self.id) (idx_lt hi)
      (kid_id_iff hN hpar hi)

theorem index_eq (root self : T) (p : List Nat) (hN : IdsNodup root) (hp : p ≠ [])
    (hs : root.sub p = some self) : getIndex root self = SpecRel.index p := by
  obtain ⟨p', i, par, rfl, hpar, hi⟩ := snoc_cases hp hs
  rw [getIndex_model hN hpar hi, SpecRel.index, List.getLast?_concat]

theorem prev_eq (root self : T) (p : List Nat) (hN : IdsNodup root) (hp : p ≠ [])
    (hs : root.sub p = some self) : prevSibling root self = SpecRel.prev root p := by
  obtain ⟨p', i, par, rfl, hpar, hi⟩ := snoc_cases hp hs
  unfold prevSibling SpecRel.prev
  rw [isFirst_model hN hpar hi, getIndex_model hN hpar hi, siblingsAll_model hN hpar hi,
    siblingsAll_spec hpar, List.getLast?_concat]
  cases i with
  | zero => simp
  | succ j => simp

theorem next_eq (root self : T) (p : List Nat) (hN : IdsNodup root) (hp : p ≠ [])
    (hs : root.sub p = some self) : nextSibling root self = SpecRel.next root p := by
  obtain ⟨p', i, par, rfl, hpar, hi⟩ := snoc_cases hp hs
  unfold nextSibling SpecRel.next
  rw [isLast_model hN hpar hi, getIndex_model hN hpar hi, siblingsAll_model hN hpar hi,
    siblingsAll_spec hpar, List.getLast?_concat]
  by_cases h : i + 1 = par.kids.length
  · simp only [h, beq_self_eq_true, if_true]
    rw [List.getElem?_eq_none (Nat.le_refl _)]
  · simp [h]

theorem first_last_eq (root self : T) (p : List Nat) (hN : IdsNodup root) (hp : p ≠ [])
    (hs : root.sub p = some self) :
    isFirstSibling root self = SpecRel.isFirst p ∧ isLastSibling root self = SpecRel.isLast root p
      ∧ firstSibling root self = (SpecRel.siblingsAll root p).head?
      ∧ lastSibling root self = (SpecRel.siblingsAll root p).getLast? := by
  obtain ⟨p', i, par, rfl, hpar, hi⟩ := snoc_cases hp hs
  refine ⟨?_, ?_, ?_, ?_⟩
  · rw [isFirst_model hN hpar hi, SpecRel.isFirst, List.getLast?_concat]
    rw [Bool.eq_iff_iff]; simp
  · rw [isLast_model hN hpar hi, SpecRel.isLast, List.getLast?_concat, siblingsAll_spec hpar]
  · rw [firstSibling, siblingsAll_model hN hpar hi, siblingsAll_spec hpar]
  · rw [lastSibling, siblingsAll_model hN hpar hi, siblingsAll_spec hpar]

theorem isTop_eq (root self : T) (p : List Nat) (hN : IdsNodup root) (hp : p ≠ [])
    (hs : root.sub p = some self) : isTop root self = SpecRel.isTop p := by
  obtain ⟨p', i, par, rfl, hpar, hi⟩ := snoc_cases hp hs
  simp [isTop, SpecRel.isTop, chain_length hN hpar hi]

theorem parentList_eq (root self : T) (p : List Nat) (hN : IdsNodup root) (hp : p ≠ [])
    (hs : root.sub p = some self) (addSelf bottomUp : Bool) :
    getParentList root self addSelf bottomUp =
      (if bottomUp then (SpecRel.parentList root p addSelf).reverse
       else SpecRel.parentList root p addSelf) := by
  obtain ⟨p', i, par, rfl, hpar, hi⟩ := snoc_cases hp hs
  have hup : ((if addSelf then [self] else []) ++ chain root self).dropLast =
      (SpecRel.parentList root (p' ++ [i]) addSelf).reverse := by
    rw [chain_snoc hN hpar hi, SpecRel.parentList, List.dropLast_concat,
      pathNodes_concat hpar hi, ← List.append_assoc, List.dropLast_concat]
    cases addSelf <;> simp
  unfold getParentList
  simp only [hup]
  cases bottomUp <;> simp

theorem top_eq (root self : T) (p : List Nat) (hN : IdsNodup root) (hp : p ≠ [])
    (hs : root.sub p = some self) : getTop root self = SpecRel.top root p := by
  rw [getTop, parentList_eq root self p hN hp hs true true]
  simp [SpecRel.top, SpecRel.parentList]

theorem path_eq (root self : T) (p : List Nat) (hN : IdsNodup root) (hp : p ≠ [])
    (hs : root.sub p = some self) (addSelf : Bool) :
    getPath root self addSelf = SpecRel.path root p addSelf := by
  rw [getPath, parentList_eq root self p hN hp hs addSelf false]
  simp [SpecRel.path]

theorem count_eq (t : T) (leavesOnly : Bool) :
    countDescendants t leavesOnly = SpecRel.countDescendants t leavesOnly := by
  rw [countDescendants, SpecRel.countDescendants, iterPre_flat]

/-! ### pairs of nodes -/

theorem descendant_iff (root self other : T) (p q : List Nat) (hN : IdsNodup root)
    (hp : p ≠ []) (hs : root.sub p = some self) (hq : q ≠ []) (ho : root.sub q = some other) :
    isDescendantOf root self other = SpecRel.isDescendantOf p q := by
  rw [isDescendantOf, parentList_eq root self p hN hp hs false true]
  obtain ⟨p', i, par, rfl, hpar, hi⟩ := snoc_cases hp hs
  simp only [if_true, List.any_reverse, SpecRel.parentList, Bool.false_eq_true, if_false,
    List.dropLast_concat, SpecRel.isDescendantOf]
  rw [Bool.eq_iff_iff, List.any_eq_true]
  simp only [beq_iff_eq, Bool.and_eq_true, bne_iff_ne, ne_eq, decide_eq_true_eq,
    List.isPrefixOf_iff_prefix]
  rw [id_mem_pathNodes_iff hN hq ho, prefix_dropLast_concat (i := i)]
  simp [hq]

theorem ancestor_iff (root self other : T) (p q : List Nat) (hN : IdsNodup root)
    (hp : p ≠ []) (hs : root.sub p = some self) (hq : q ≠ []) (ho : root.sub q = some other) :
    isAncestorOf root self other = SpecRel.isDescendantOf q p := by
  rw [isAncestorOf]; exact descendant_iff root other self q p hN hq ho hp hs

/-- search along `self`'s path, deepest first, for the first node on `other`'s path -/
private theorem lca_aux {root : T} {q : List Nat} (hN : IdsNodup root) :
    ∀ (n : Nat) (p : List Nat) (self : T), p.length = n → root.sub p = some self →
      (pathNodes root p).reverse.find?
          (fun x => ((pathNodes root q).map T.id).contains x.id) =
        SpecRel.lca root p q := by
  intro n
  induction n with
  | zero =>
    intro p self hn hs
    have : p = [] := List.length_eq_zero_iff.1 hn
    subst this
    simp [pathNodes, SpecRel.lca, commonPrefix_nil_left]
  | succ n ih =>
    intro p self hn hs
    have hp : p ≠ [] := by intro h; subst h; simp at hn
    obtain ⟨p', i, par, rfl, hpar, hi⟩ := snoc_cases hp hs
    rw [pathNodes_concat hpar hi, List.reverse_concat, List.find?_cons]
    have hc : (((pathNodes root q).map T.id).contains self.id = true) ↔ (p' ++ [i]) <+: q := by
      rw [← id_mem_pathNodes_iff hN hp hs]
      simp
    by_cases hpre : (p' ++ [i]) <+: q
    · rw [hc.2 hpre]
      simp only [SpecRel.lca, commonPrefix_of_prefix hpre]
      rw [if_neg (by simp), hs]
    · have : ((pathNodes root q).map T.id).contains self.id = false := by
        cases h : ((pathNodes root q).map T.id).contains self.id with
        | false => rfl
        | true => exact absurd (hc.1 h) hpre
      rw [this]
      simp only
      rw [ih p' par (by simpa using hn) hpar]
      simp only [SpecRel.lca, commonPrefix_concat_of_not_prefix hpre]

theorem lca_eq (root self other : T) (p q : List Nat) (hN : IdsNodup root)
    (hp : p ≠ []) (hs : root.sub p = some self) (hq : q ≠ []) (ho : root.sub q = some other) :
    getCommonAncestor root self other = SpecRel.lca root p q := by
  unfold getCommonAncestor
  simp only [parentList_eq root self p hN hp hs true true,
    parentList_eq root other q hN hq ho true false, if_true, Bool.false_eq_true, if_false,
    SpecRel.parentList]
  exact lca_aux hN _ p self rfl hs

/-! ### mutual consistency -/

theorem depth_parentList (root self : T) (p : List Nat) (hN : IdsNodup root) (hp : p ≠ [])
    (hs : root.sub p = some self) :
    calcDepth root self = (getParentList root self false false).length + 1 := by
  rw [depth_eq root self p hN hp hs, parentList_eq root self p hN hp hs false false]
  obtain ⟨p', i, par, rfl, hpar, hi⟩ := snoc_cases hp hs
  simp [SpecRel.depth, SpecRel.parentList, pathNodes_length hpar]

theorem next_prev (root self : T) (p : List Nat) (hN : IdsNodup root) (hp : p ≠ [])
    (hs : root.sub p = some self) :
    ∀ n, prevSibling root self = some n →
      ∃ q', q' ≠ [] ∧ root.sub q' = some n ∧ nextSibling root n = some self := by
  intro n hn
  rw [prev_eq root self p hN hp hs] at hn
  obtain ⟨p', i, par, rfl, hpar, hi⟩ := snoc_cases hp hs
  rw [SpecRel.prev, List.getLast?_concat, siblingsAll_spec hpar] at hn
  cases i with
  | zero => simp at hn
  | succ j =>
    simp only at hn
    have hq : root.sub (p' ++ [j]) = some n := by rw [sub_concat j hpar, hn]
    refine ⟨p' ++ [j], by simp, hq, ?_⟩
    rw [next_eq root n (p' ++ [j]) hN (by simp) hq, SpecRel.next, List.getLast?_concat,
      siblingsAll_spec hpar]
    exact hi

end Nutree.C10
