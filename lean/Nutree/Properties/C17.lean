/-
  C17 — DOT, Mermaid and RDF exports describe exactly the tree's edges.

  Model: Nutree/Model/Graph.lean (`node_to_dot`, `_node_to_mermaid_flowchart_iter`,
  `node_to_rdf` / `tree_to_rdf`), specification: Nutree/Spec/Graph.lean (`nodesSpec`,
  `edgesSpec`, path based).  Hypotheses are explicit:

  * `IdsNodup t`: node identities are pairwise distinct (C01) — needed because the edge loops
    recognise the start node by identity (`n._parent is node`) and because with
    `unique_nodes=False` the node id is the key;
  * DOT with `add_self=True` on the system root: the root is labelled with `tree.name`, which is
    the system root's own name (`_SystemRootNode._data = tree.name`): `treeName = t.name`;
  * Mermaid: kinds are non-empty (an empty kind is falsy and gives an unlabelled edge).
-/
import Nutree.Lemmas.Graph
import Nutree.Lemmas.GraphNodes
import Nutree.Lemmas.GraphRdf
namespace Nutree
namespace C17
open T C10 Graph Graph.Spec

/-! ### DOT -/

/-- **DOT nodes**: the declared keys are exactly the specified graph nodes (one per distinct
data_id resp. one per tree node, first-occurrence order), each labelled with its name — also with
`add_self` on an inner node and with a clone of the start node among its descendants. -/
theorem dot_nodes_spec (treeName : String) (unique addSelf hasParent : Bool) (t : T)
    (hname : hasParent = false → treeName = t.name) :
    dotNodes treeName unique addSelf hasParent t
      = (nodesSpec unique addSelf t).map (fun y => (y.1, some y.2)) := by
  unfold dotNodes
  have hl : (if hasParent then t.name else treeName) = t.name := by
    cases hasParent
    · simp [hname rfl]
    · simp
  rw [hl]
  cases addSelf
  · simp [dotDeclLoop_spec]
  · cases unique
    · rw [iterPre_flat, dotDeclLoop_false]
      simp [nodesSpec, exported_true, keyOf]
    · simp only [if_true]
      rw [dotDeclLoop_seeded, nodesSpec_true true, dedup_exported_true, ← nodesSpec_true false]
      simp [kn]

/-- **DOT edges**: one edge per node of the branch whose parent is exported, in pre-order, from
the parent's key to the node's key, labelled with the kind (typed trees). -/
theorem dot_edges_spec (unique addSelf typed : Bool) (t : T) (hN : IdsNodup t)
    (hplain : typed = false → ∀ n ∈ flatL t.kids, n.kind = none) :
    dotEdges unique addSelf typed t
      = (edgesSpec unique addSelf t).map (fun e => (e.parent, e.child, e.kind)) := by
  unfold dotEdges edgesSpec
  rw [edgePairs_eq_filter hN, List.map_map]
  have h1 : (fun (x : T × T) => if (!addSelf && x.1.id == t.id) = true then none
        else some (keyOf unique x.1, keyOf unique x.2, if typed = true then x.2.kind else none))
      = (fun x => if (fun (x : T × T) => !addSelf && x.1.id == t.id) x = true then none
        else some ((fun (x : T × T) => (keyOf unique x.1, keyOf unique x.2, if typed = true then x.2.kind else none)) x)) := rfl
  have h0 : ∀ l : List (T × T), l.filterMap (fun (p, n) => if (!addSelf && p.id == t.id) = true then none
        else some (keyOf unique p, keyOf unique n, if typed = true then n.kind else none))
      = l.filterMap (fun (x : T × T) => if (!addSelf && x.1.id == t.id) = true then none
        else some (keyOf unique x.1, keyOf unique x.2, if typed = true then x.2.kind else none)) := fun _ => rfl
  rw [h0, h1, filterMap_ite_none]
  have hf : (withParent t).filter (fun x => !(!addSelf && x.1.id == t.id))
      = (withParent t).filter (fun pn => addSelf || !(pn.1.id == t.id)) := by
    apply List.filter_congr
    intro x _
    cases addSelf <;> simp
  rw [hf]
  apply List.map_congr_left
  intro pn hpn
  have hn : pn.2 ∈ flatL t.kids := by
    have := (List.mem_filter.1 hpn).1
    rw [withParent_eq] at this
    obtain ⟨x, hx, rfl⟩ := List.mem_map.1 this
    exact (mem_annL hx).1
  cases typed
  · simp [toEdge, hplain rfl _ hn]
  · simp [toEdge]

/-! ### Mermaid -/

/-- **Mermaid nodes**: the graph nodes of the specification, numbered consecutively in order of
declaration: the root (if exported) is number 0, the others are numbered from 1. -/
theorem mermaid_nodes_spec (unique addRoot : Bool) (t : T) (hN : unique = false → IdsNodup t) :
    mermaidNodes unique addRoot t = numbered (firstIdx addRoot) (nodesSpec unique addRoot t) := by
  rw [mermaidNodes_eq, nodesSpec_eq_dedup unique addRoot hN]

/-- the declared keys are pairwise distinct … -/
theorem mermaid_keys_nodup (unique addRoot : Bool) (t : T) (hN : unique = false → IdsNodup t) :
    (keysSpec unique addRoot t).Nodup := keysSpec_nodup unique addRoot hN

/-- … so the numbering is a bijection between the declared keys and their numbers:
the `i`-th declared key has number `firstIdx + i`, and `idxOf` inverts it. -/
theorem mermaid_idx_bijection (unique addRoot : Bool) (t : T) (hN : unique = false → IdsNodup t)
    (i : Nat) (h : i < (keysSpec unique addRoot t).length) :
    (keysSpec unique addRoot t).idxOf (keysSpec unique addRoot t)[i] = i :=
  (mermaid_keys_nodup unique addRoot t hN).idxOf_getElem i h

/-- **Mermaid edges**: `id_to_idx[...]` never fails, and the edges are the specified edges with
each key replaced by its number. -/
theorem mermaid_edges_spec (unique addRoot : Bool) (t : T) (hN : IdsNodup t)
    (hk : ∀ n ∈ flatL t.kids, n.kind ≠ some "") :
    mermaidEdges unique addRoot t
      = some ((edgesSpec unique addRoot t).map fun e =>
          (firstIdx addRoot + (keysSpec unique addRoot t).idxOf e.parent,
           firstIdx addRoot + (keysSpec unique addRoot t).idxOf e.child, e.kind)) := by
  have hN' : unique = false → IdsNodup t := fun _ => hN
  unfold mermaidEdges
  rw [mermaidTable_eq, ← nodesSpec_eq_dedup unique addRoot hN']
  have hmem : ∀ pn ∈ withParent t, pn.2 ∈ flatL t.kids ∧ (pn.1 = t ∨ pn.1 ∈ flatL t.kids) := by
    intro pn hpn
    rw [withParent_eq] at hpn
    obtain ⟨x, hx, rfl⟩ := List.mem_map.1 hpn
    obtain ⟨h1, h2⟩ := mem_annL hx
    exact ⟨h1, h2.elim (fun h => Or.inl h.2) (fun h => Or.inr h.2)⟩
  rw [mermaidEdgeLoop_spec]
  · unfold edgesSpec
    rw [edgePairs_eq_filter hN, List.map_map]
    congr 1
    apply List.map_congr_left
    intro pn hpn
    have hn := (hmem pn (List.mem_filter.1 hpn).1).1
    simp [toEdge, keysSpec, mermaidKind_eq (hk _ hn)]
  · intro pn hpn hc
    obtain ⟨h1, h2⟩ := hmem pn hpn
    have hx2 : pn.2 ∈ exported addRoot t := by simp [exported, branch, h1]
    have hx1 : pn.1 ∈ exported addRoot t := by
      rcases h2 with h2 | h2
      · rw [h2] at hc ⊢
        have : addRoot = true := by simpa using hc
        subst this
        simp [exported]
      · simp [exported, branch, h2]
    exact ⟨mem_keysSpec unique addRoot hN' hx1, mem_keysSpec unique addRoot hN' hx2⟩

/-! ### RDF -/

/-- the graph is a set. -/
theorem rdf_set (treeName : String) (isTree addSelf : Bool) (t : T) :
    (rdfTriples treeName isTree addSelf t).Nodup :=
  graphAddAll_nodup _ List.nodup_nil

/-- **RDF edges**: the `has_child` statements are exactly the image of the edge list. -/
theorem rdf_edges_spec (treeName : String) (isTree addSelf : Bool) (t : T) (s : Subj) (d : DataId) :
    Triple.hasChild s d ∈ rdfTriples treeName isTree addSelf t ↔ (s, d) ∈ rdfEdgesSpec isTree addSelf t := by
  rw [mem_rdfTriples, calls_eq, List.mem_append, rdfEdgesSpec_eq, List.mem_filterMap, List.mem_flatMap]
  have hhead : Triple.hasChild s d ∉
      (if isTree then [Triple.name .sysRoot treeName] else if addSelf then rdfNodeAdds none t none else []) := by
    cases isTree <;> cases addSelf <;> simp [mem_rdfNodeAdds_hasChild]
  constructor
  · rintro (h | ⟨x, hx, h⟩)
    · exact absurd h hhead
    · obtain ⟨h1, h3⟩ := mem_rdfNodeAdds_hasChild.1 h
      refine ⟨x, hx, ?_⟩
      obtain ⟨_, hp⟩ := mem_annL hx
      cases hxt : x.top
      · simp only [itemSubj, hxt, Bool.false_eq_true, if_false, Option.some.injEq] at h1
        simp [h1, h3]
      · have hpar : x.parent = t := by
          rcases hp with ⟨_, h⟩ | ⟨h, _⟩
          · exact h
          · rw [hxt] at h; exact absurd h (by simp)
        simp only [itemSubj, hxt, if_true, startSubj] at h1
        cases isTree <;> cases addSelf <;> simp_all
  · rintro ⟨x, hx, h⟩
    refine Or.inr ⟨x, hx, mem_rdfNodeAdds_hasChild.2 ⟨?_, ?_⟩⟩
    · obtain ⟨_, hp⟩ := mem_annL hx
      cases hxt : x.top
      · simp only [hxt] at h
        simp only [itemSubj, hxt, Bool.false_eq_true, if_false]
        cases isTree <;> cases addSelf <;> simp_all
      · have hpar : x.parent = t := by
          rcases hp with ⟨_, h⟩ | ⟨h, _⟩
          · exact h
          · rw [hxt] at h; exact absurd h (by simp)
        simp only [hxt] at h
        simp only [itemSubj, hxt, if_true, startSubj]
        cases isTree <;> cases addSelf <;> simp_all
    · cases hc : (isTree || addSelf || !x.top) <;> simp_all

/-- **RDF names**: one `name` statement per exported node (keyed by its data_id), plus the name
of the tree for the system root of `Tree.to_rdf_graph()`. -/
theorem rdf_names_spec (treeName : String) (isTree addSelf : Bool) (t : T) (s : Subj) (v : String) :
    Triple.name s v ∈ rdfTriples treeName isTree addSelf t
      ↔ (isTree = true ∧ s = .sysRoot ∧ v = treeName)
        ∨ ∃ n ∈ exported (!isTree && addSelf) t, s = .lit n.did ∧ v = n.name := by
  rw [mem_rdfTriples, calls_eq, List.mem_append, List.mem_flatMap]
  simp only [mem_exported_iff, itemAdds, mem_rdfNodeAdds_name]
  cases isTree <;> cases addSelf <;> simp [mem_rdfNodeAdds_name] <;> constructor <;>
    first
      | (rintro ⟨x, hx, h1, h2⟩; exact ⟨_, ⟨x, hx, rfl⟩, h1, h2⟩)
      | (rintro ⟨n, ⟨x, hx, rfl⟩, h1, h2⟩; exact ⟨x, hx, h1, h2⟩)
      | (rintro (h | ⟨x, hx, h1, h2⟩)
         · exact Or.inl h
         · exact Or.inr ⟨_, ⟨x, hx, rfl⟩, h1, h2⟩)
      | (rintro (h | ⟨n, ⟨x, hx, rfl⟩, h1, h2⟩)
         · exact Or.inl h
         · exact Or.inr ⟨x, hx, h1, h2⟩)

/-- **RDF kinds**: one `kind` statement per exported typed node. -/
theorem rdf_kinds_spec (treeName : String) (isTree addSelf : Bool) (t : T) (d : DataId) (k : String) :
    Triple.kind d k ∈ rdfTriples treeName isTree addSelf t
      ↔ ∃ n ∈ exported (!isTree && addSelf) t, n.did = d ∧ n.kind = some k := by
  rw [mem_rdfTriples, calls_eq, List.mem_append, List.mem_flatMap]
  simp only [mem_exported_iff, itemAdds, mem_rdfNodeAdds_kind]
  cases isTree <;> cases addSelf <;> simp [mem_rdfNodeAdds_kind] <;> constructor <;>
    first
      | (rintro ⟨x, hx, h1, h2⟩; exact ⟨_, ⟨x, hx, rfl⟩, h1, h2⟩)
      | (rintro ⟨n, ⟨x, hx, rfl⟩, h1, h2⟩; exact ⟨x, hx, h1, h2⟩)
      | (rintro (h | ⟨x, hx, h1, h2⟩)
         · exact Or.inl h
         · exact Or.inr ⟨_, ⟨x, hx, rfl⟩, h1, h2⟩)
      | (rintro (h | ⟨n, ⟨x, hx, rfl⟩, h1, h2⟩)
         · exact Or.inl h
         · exact Or.inr ⟨x, hx, h1, h2⟩)

/-- **RDF index**: one `index` statement per node of the branch: its position among its siblings
(the start node itself has none). -/
theorem rdf_index_spec (treeName : String) (isTree addSelf : Bool) (t : T) (d : DataId) (i : Nat) :
    Triple.index d i ∈ rdfTriples treeName isTree addSelf t ↔ (d, i) ∈ rdfIndexSpec t := by
  rw [mem_rdfTriples, calls_eq, List.mem_append, List.mem_flatMap, rdfIndexSpec_eq, List.mem_map]
  simp only [itemAdds, mem_rdfNodeAdds_index]
  have hhead : Triple.index d i ∉
      (if isTree then [Triple.name .sysRoot treeName] else if addSelf then rdfNodeAdds none t none else []) := by
    cases isTree <;> cases addSelf <;> simp [mem_rdfNodeAdds_index]
  constructor
  · rintro (h | ⟨x, hx, h1, h2⟩)
    · exact absurd h hhead
    · exact ⟨x, hx, by simp at h2; rw [h1, h2]⟩
  · rintro ⟨x, hx, h⟩
    simp only [Prod.mk.injEq] at h
    exact Or.inr ⟨x, hx, h.1, by rw [h.2]⟩

/-- **The RDF graph as a whole** is exactly the specified set of statements. -/
theorem rdf_triples_spec (treeName : String) (isTree addSelf : Bool) (t : T) (x : Triple) :
    x ∈ rdfTriples treeName isTree addSelf t ↔ x ∈ rdfSpec treeName isTree addSelf t := by
  cases x with
  | hasChild s d =>
    rw [rdf_edges_spec]
    simp only [rdfSpec, List.mem_append, List.mem_map, List.mem_filterMap]
    constructor
    · intro h1
      exact Or.inl (Or.inl (Or.inl (Or.inl ⟨_, h1, rfl⟩)))
    · intro h1
      rcases h1 with (((⟨e, he, h⟩ | h) | ⟨n, _, h⟩) | ⟨n, _, h⟩) | ⟨e, _, h⟩
      · injection h with h1 h2; rw [← h1, ← h2]; exact he
      · cases isTree <;> simp at h
      · simp at h
      · cases hk : n.kind <;> simp [hk] at h
      · simp at h
  | name s v =>
    rw [rdf_names_spec]
    simp only [rdfSpec, List.mem_append, List.mem_map, List.mem_filterMap]
    constructor
    · rintro (⟨h1, h2, h3⟩ | ⟨n, hn, h1, h2⟩)
      · refine Or.inl (Or.inl (Or.inl (Or.inr ?_)))
        simp [h1, h2, h3]
      · exact Or.inl (Or.inl (Or.inr ⟨n, hn, by rw [h1, h2]⟩))
    · intro h1
      rcases h1 with (((⟨e, _, h⟩ | h) | ⟨n, hn, h⟩) | ⟨n, _, h⟩) | ⟨e, _, h⟩
      · simp at h
      · cases isTree
        · simp at h
        · simp at h; exact Or.inl ⟨rfl, h.1, h.2⟩
      · injection h with h1 h2; exact Or.inr ⟨n, hn, h1.symm, h2.symm⟩
      · cases hk : n.kind <;> simp [hk] at h
      · simp at h
  | kind d k =>
    rw [rdf_kinds_spec]
    simp only [rdfSpec, List.mem_append, List.mem_map, List.mem_filterMap]
    constructor
    · rintro ⟨n, hn, h1, h2⟩
      exact Or.inl (Or.inr ⟨n, hn, by simp [h1, h2]⟩)
    · intro h1
      rcases h1 with (((⟨e, _, h⟩ | h) | ⟨n, hn, h⟩) | ⟨n, hn, h⟩) | ⟨e, _, h⟩
      · simp at h
      · cases isTree <;> simp at h
      · simp at h
      · cases hk : n.kind with
        | none => simp [hk] at h
        | some k' => simp [hk] at h; exact ⟨n, hn, h.1, by rw [hk, h.2]⟩
      · simp at h
  | index d i =>
    rw [rdf_index_spec]
    simp only [rdfSpec, List.mem_append, List.mem_map, List.mem_filterMap]
    constructor
    · intro h
      exact Or.inr ⟨_, h, rfl⟩
    · intro h1
      rcases h1 with (((⟨e, _, h⟩ | h) | ⟨n, hn, h⟩) | ⟨n, hn, h⟩) | ⟨e, he, h⟩
      · simp at h
      · cases isTree <;> simp at h
      · simp at h
      · cases hk : n.kind <;> simp [hk] at h
      · injection h with h1 h2; rw [← h1, ← h2]; exact he

/-! ### excluding the root; counting -/

/-- **Excluding the root omits the root node and the edges leaving it, and nothing else.**
With `add_self/add_root = false`
1. the edges are the edges of the full export whose parent is not the start node (same order);
2. the omitted edges are exactly the edges start node → child, one per child;
3. the graph nodes of the full export are the start node's declaration followed by the graph
   nodes of the export without root, except the start node's own key (which stays a graph node
   of the export without root only when a descendant carries it). -/
theorem no_root (unique : Bool) (t : T) (hN : IdsNodup t) :
    edgesSpec unique false t
        = ((edgePairs true t).filter (fun pn => !(pn.1.id == t.id))).map (toEdge unique)
    ∧ (edgePairs true t).filter (fun pn => pn.1.id == t.id) = t.kids.map (fun c => (t, c))
    ∧ nodesSpec unique true t
        = (keyOf unique t, t.name) :: (nodesSpec unique false t).filter (fun y => y.1 != keyOf unique t) := by
  refine ⟨?_, ?_, ?_⟩
  · rw [edgesSpec, edgePairs_eq_filter hN, edgePairs_true]; simp
  · rw [edgePairs_true, withParent_eq, List.filter_map]
    have : (ann t).filter ((fun pn : T × T => pn.1.id == t.id) ∘ fun x => (x.parent, x.node))
        = (ann t).filter (·.top) := by
      apply List.filter_congr
      intro x hx
      simp only [Function.comp, top_iff_id hN hx]
    rw [this]
    exact annL_top_items t 0 t.kids
  · have hN' : unique = false → IdsNodup t := fun _ => hN
    rw [nodesSpec_eq_dedup unique true hN', nodesSpec_eq_dedup unique false hN', dedup_exported_true]
    rfl

/-- the same for the model of the DOT export, without any hypothesis: the declarations and edges
with `add_self=False` are those with `add_self=True` minus the start node's declaration (with
`unique_nodes` the start node's key may be declared for a descendant instead) and minus the
edges whose parent is (identical to) the start node. -/
theorem no_root_dot (treeName : String) (unique hasParent typed : Bool) (t : T) :
    dotNodes treeName unique true hasParent t
        = (keyOf unique t, some (if hasParent then t.name else treeName)) ::
          (if unique then (dotNodes treeName unique false hasParent t).filter (fun y => y.1 != keyOf unique t)
           else dotNodes treeName unique false hasParent t)
    ∧ dotEdges unique true typed t
        = (withParent t).map (fun pn => (keyOf unique pn.1, keyOf unique pn.2, if typed then pn.2.kind else none))
    ∧ dotEdges unique false typed t
        = ((withParent t).filter (fun pn => !(pn.1.id == t.id))).map
            (fun pn => (keyOf unique pn.1, keyOf unique pn.2, if typed then pn.2.kind else none)) := by
  refine ⟨?_, ?_, ?_⟩
  · cases unique
    · simp [dotNodes, dotDeclLoop_false]
    · simp only [dotNodes, if_true, Bool.false_eq_true, if_false, List.nil_append, List.cons_append,
        dotDeclLoop_seeded, dotDeclLoop_spec, List.filter_map]
      rfl
  · unfold dotEdges
    rw [← List.filterMap_eq_map]
    apply filterMap_congr'
    intro pn _
    simp
  · unfold dotEdges
    have := filterMap_ite_none (fun pn : T × T => pn.1.id == t.id)
      (fun pn => (keyOf unique pn.1, keyOf unique pn.2, if typed then pn.2.kind else none)) (withParent t)
    rw [← this]
    apply filterMap_congr'
    intro pn _
    simp

/-- **One edge per node**: the number of edges is the number of nodes of the branch whose parent
is part of the export: all descendants, resp. all descendants that are not children of the
start node. -/
theorem one_edge_per_node (unique addSelf : Bool) (t : T) :
    (edgesSpec unique addSelf t).length = edgeCount addSelf t
    ∧ edgeCount true t = (flatL t.kids).length
    ∧ edgeCount false t + t.kids.length = (flatL t.kids).length := by
  refine ⟨?_, ?_, ?_⟩
  · rw [edgesSpec, List.length_map, edgePairs_eq, List.length_map, edgeCount_eq]
  · rw [edgeCount_eq, List.filter_eq_self.2 (by simp), ← annL_nodes true t 0 t.kids, List.length_map]; rfl
  · rw [edgeCount_eq, ← annL_nodes true t 0 t.kids, List.length_map]
    have h1 := List.length_eq_countP_add_countP (fun x : Item => x.top) (l := annL true t 0 t.kids)
    have h2 : ((annL true t 0 t.kids).filter (·.top)).length = t.kids.length := by
      have := congrArg List.length (annL_top_items t 0 t.kids)
      simpa using this
    rw [List.countP_eq_length_filter, List.countP_eq_length_filter, h2] at h1
    have h3 : (ann t).filter (fun x => false || !x.top)
        = (annL true t 0 t.kids).filter (fun a => decide ¬a.top = true) := by
      apply List.filter_congr
      intro x _
      cases x.top <;> simp
    rw [h3]; omega

/-- the models emit that many edges. -/
theorem one_edge_per_node_model (unique addSelf typed : Bool) (t : T) (hN : IdsNodup t)
    (hplain : typed = false → ∀ n ∈ flatL t.kids, n.kind = none)
    (hk : ∀ n ∈ flatL t.kids, n.kind ≠ some "") :
    (dotEdges unique addSelf typed t).length = edgeCount addSelf t
    ∧ ∃ es, mermaidEdges unique addSelf t = some es ∧ es.length = edgeCount addSelf t := by
  refine ⟨?_, ?_⟩
  · rw [dot_edges_spec unique addSelf typed t hN hplain, List.length_map, (one_edge_per_node unique addSelf t).1]
  · exact ⟨_, mermaid_edges_spec unique addSelf t hN hk, by
      rw [List.length_map, (one_edge_per_node unique addSelf t).1]⟩

end C17
end Nutree
