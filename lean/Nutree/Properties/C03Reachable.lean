/-
  C03 for every history: no parent of any reachable tree holds two children with one data_id, and adding data
  whose id a child of the target already carries is refused with the uniqueness error, whatever sequence of
  operations led there (`C01.C01_main` discharges the well-formedness hypothesis of `addData_refused`).
-/
import Nutree.Properties.C01Main
namespace Nutree.C03
open Nutree T

/-- **after any history**: sibling uniqueness holds below every node (the invisible root included) of every tree of
the reached state, and an `add` of data under an id that a child of the target carries is refused with the
uniqueness error — for every position argument that is valid for that target. -/
theorem uniqueness_after_any_history (ops : List Op) (t : Tree) (ht : t ∈ (World.run ops).trees) :
    (∀ x ∈ flat t.root, (x.kids.map T.did).Nodup) ∧
    (∀ (next parent : NodeId) (a : Atom) (before : Before) (did : DataId) (kind : Option String) (p : T)
        (ins : List T → T → List T),
        findT parent t.root = some p →
        insertPosition p.kids (t.childrenNone parent p) before = .ok ins →
        (∃ c ∈ p.kids, c.did = did) →
        t.addData next parent a before (some did) kind = .error .unique) := by
  have h : WF t := ((C01.C01_main ops).2 t ht).1
  exact ⟨h.sib, fun next parent a before did kind p ins hp hb hc =>
    C01.addData_refused t next parent a before did kind p ins h hp hb hc⟩

end Nutree.C03
