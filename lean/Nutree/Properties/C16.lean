/-
  C16 — Pretty-printing renders the tree shape faithfully in every style.
  Property theorems only; helper lemmas live in Nutree/Lemmas.
-/
import Nutree.Model.Format
import Nutree.Spec.Format
namespace Nutree.C16
open Nutree T Nutree.Fmt

/-- every style of the regenerated `CONNECTORS` table has 4 or 6 segments (so `_get_prefix`
never raises for a table style). -/
theorem table_arity : ∀ s ∈ Nutree.Generated.connectors, (unpack s.2).isSome = true := by decide

end Nutree.C16
