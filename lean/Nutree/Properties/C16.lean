/-
  C16 — Pretty-printing renders the tree shape faithfully in every style.
  Property theorems only; helper lemmas live in Nutree/Lemmas (Format*.lean).

  Setting: `root` is the system root with pairwise distinct node identities (`IdsNodup root`),
  `start` the node at path `sp` (`root.sub sp = some start`; `sp = []` is the system root itself).
-/
import Nutree.Model.Format
import Nutree.Spec.Format
import Nutree.Lemmas.Format
import Nutree.Lemmas.FormatLines
import Nutree.Lemmas.FormatShape
import Nutree.Lemmas.FormatFlags
namespace Nutree.C16
open Nutree T Nutree.Fmt Nutree.C10

/-! ### (4) the regenerated connector table -/

/-- every style of the regenerated `CONNECTORS` table has 4 or 6 segments (so `_get_prefix`
never raises for a table style). -/
theorem table_arity : ∀ s ∈ Nutree.Generated.connectors, (unpack s.2).isSome = true := by decide

/-- Bool-valued checker: the style unpacks and its widths are uniform. -/
def styleOk (segs : List String) : Bool :=
  match unpack segs with
  | some s6 => decide (Spec.UniformWidths s6)
  | none => false

theorem styleOk_iff (segs : List String) :
    styleOk segs = true ↔ ∃ s6, unpack segs = some s6 ∧ Spec.UniformWidths s6 := by
  unfold styleOk
  cases unpack segs with
  | none => simp
  | some s6 => simp

/-- every style of the regenerated table has 4 or 6 segments of uniform widths: the two
ancestor segments are equally wide (and not empty), and all own connectors are equally wide. -/
theorem table_ok : ∀ e ∈ Nutree.Generated.connectors,
    ∃ s6, unpack e.2 = some s6 ∧ Spec.UniformWidths s6 := by
  have h : ∀ e ∈ Nutree.Generated.connectors, styleOk e.2 = true := by decide
  intro e he
  exact (styleOk_iff e.2).1 (h e he)

/-! ### (1) the lines of `format_iter` -/

/-- `_get_prefix` of the node at the non-empty path `p` is the joined list of segments
`Spec.prefixParts`: one segment per ancestor below the stripped levels (`s0` iff that ancestor
is a last sibling), then the own connector. -/
theorem prefix_spec (root n : T) (p : List Nat) (hN : IdsNodup root) (hp : p ≠ [])
    (hs : root.sub p = some n) (segs : List String) (s6 : Spec.Segs6)
    (hu : unpack segs = some s6) (lstrip : Nat) :
    getPrefix root n segs lstrip = some (String.join (Spec.prefixParts root s6 lstrip p n)) :=
  getPrefix_eq hN hp hs hu lstrip

/-- `format_iter` with a custom segment list: one line per node, in pre-order,
`prefix ++ rendering`, the prefix as specified through paths. -/
theorem format_lines (root start : T) (sp : List Nat) (hN : IdsNodup root)
    (hs : root.sub sp = some start) (render : T → String) (segs : List String) (addSelf : Bool) :
    formatIter root start render (.custom segs) addSelf =
      Spec.lines root start sp render segs addSelf := by
  unfold formatIter
  rw [if_neg (by simp)]
  exact renderLines_eq hN hs render (.custom segs) segs rfl addSelf

/-- the same for every style that resolves (table styles, the default style, custom lists). -/
theorem format_lines_style (root start : T) (sp : List Nat) (hN : IdsNodup root)
    (hs : root.sub sp = some start) (render : T → String) (style : StyleArg) (segs : List String)
    (hr : resolveStyle style = some segs) (hl : style ≠ .name "list") (addSelf : Bool) :
    formatIter root start render style addSelf =
      Spec.lines root start sp render segs addSelf := by
  unfold formatIter
  rw [if_neg hl]
  exact renderLines_eq hN hs render style segs hr addSelf

/-- an unknown style name is an error (ValueError). -/
theorem format_lines_unknown (root start : T) (render : T → String) (style : StyleArg)
    (hr : resolveStyle style = none) (hl : style ≠ .name "list") (addSelf : Bool) :
    formatIter root start render style addSelf = none := by
  unfold formatIter renderLines
  rw [if_neg hl, hr]

/-! ### (2) the "list" style -/

theorem list_style (root start : T) (render : T → String) (addSelf : Bool) :
    formatIter root start render (.name "list") addSelf =
      some (((if addSelf then [start] else []) ++ flatL start.kids).map render) := by
  unfold formatIter
  rw [if_pos rfl, iterPre_flat]

/-! ### (3) `Tree.format_iter` -/

/-- the effective title: `None` means "on", except for the "list" style. -/
def effTitle (style : StyleArg) : TitleArg → TitleArg
  | .default => if style = StyleArg.name "list" then TitleArg.off else TitleArg.on
  | t => t

/-- the title line(s). -/
def titleLines (treeStr : String) : TitleArg → List String
  | .on => [treeStr]
  | .text s => if s == "" then [] else [s]
  | _ => []

/-- `Tree.format_iter` unfolded: title lines, then `Node.format_iter` of the system root. -/
theorem tree_format_unfold (root : T) (treeStr : String) (render : T → String)
    (style : StyleArg) (title : TitleArg) :
    treeFormatIter root treeStr render style title =
      (formatIter root root render style (effTitle style title != .off)).map
        (titleLines treeStr (effTitle style title) ++ ·) := by
  cases title <;> rfl

/-- `Tree.format_iter`: the title line (iff the effective title is on / a non-empty text),
followed by the lines of the root branch with `add_self := (effective title ≠ off)`. -/
theorem tree_format (root : T) (hN : IdsNodup root) (treeStr : String) (render : T → String)
    (style : StyleArg) (segs : List String) (hr : resolveStyle style = some segs)
    (hl : style ≠ .name "list") (title : TitleArg) :
    treeFormatIter root treeStr render style title =
      (Spec.lines root root [] render segs (effTitle style title != .off)).map
        (titleLines treeStr (effTitle style title) ++ ·) := by
  rw [tree_format_unfold, format_lines_style root root [] hN (sub_nil root) render style segs hr hl]

/-- for the system root `add_self` is irrelevant: the lines are the prefixed renderings of all
nodes, where a title (`add_self`) only decides whether the top level gets connectors. -/
theorem tree_format_lines (root : T) (render : T → String) (segs : List String)
    (s6 : Spec.Segs6) (hu : unpack segs = some s6) (addSelf : Bool) :
    Spec.lines root root [] render segs addSelf =
      some ((Spec.belowWithPaths root []).map fun (p, n) =>
        String.join (Spec.prefixParts root s6 (if addSelf then 0 else 1) p n) ++ render n) := by
  unfold Spec.lines
  rw [hu]
  simp

/-- `Tree.format_iter` with the "list" style. -/
theorem tree_format_list (root : T) (treeStr : String) (render : T → String) (title : TitleArg) :
    treeFormatIter root treeStr render (.name "list") title =
      some (titleLines treeStr (effTitle (.name "list") title) ++
        ((if effTitle (.name "list") title != .off then [root] else []) ++ flatL root.kids).map
          render) := by
  rw [tree_format_unfold, list_style]
  rfl

/-- an unknown style is an error for `Tree.format_iter` as well. -/
theorem tree_format_unknown (root : T) (treeStr : String) (render : T → String)
    (style : StyleArg) (hr : resolveStyle style = none) (hl : style ≠ .name "list")
    (title : TitleArg) : treeFormatIter root treeStr render style title = none := by
  rw [tree_format_unfold, format_lines_unknown root root render style hr hl]
  rfl


/-! ### (5) the prefixes alone determine the shape -/

/-- the counterexample tree: system root with the single top `A`, which has the single child `a1` -/
def cexTree : T :=
  .node rootInfo [.node { id := 1, data := rootAtom, did := .int 1 }
    [.node { id := 2, data := rootAtom, did := .int 2 } []]]

theorem cexTree_below : Spec.belowWithPaths cexTree [] =
    [([0], .node { id := 1, data := rootAtom, did := .int 1 }
        [.node { id := 2, data := rootAtom, did := .int 2 } []]),
     ([0, 0], .node { id := 2, data := rootAtom, did := .int 2 } [])] := by
  simp [cexTree, Spec.belowWithPaths, Spec.belowWithPaths.go]

/-- the decoded depths of the counterexample are `[0, 0]`: two top-level leaves -/
example : (Spec.belowWithPaths cexTree []).map (fun (p, n) =>
    Spec.decodeDepth ("    ", "│   ", "╰── ", "├── ", "╰── ", "├── ")
      (String.join (Spec.prefixParts cexTree ("    ", "│   ", "╰── ", "├── ", "╰── ", "├── ")
        (([] : List Nat).length + 1) p n)).length) = [0, 0] := by
  rw [cexTree_below]; decide

/-- **The target as first stated is false.**  With `lstrip = |sp| + 1` (`add_self=False`) the
first printed level has an *empty* prefix and the second level a bare connector, so
`decodeDepth` (which subtracts the connector width) maps both to depth 0.
Counterexample: the tree `A(a1)` in style "round43": the lines `"A"`, `"╰── a1"` decode to the
depths `[0, 0]`, i.e. two top-level leaves, not `A(a1)`. -/
theorem shape_from_prefixes_false :
    ∃ (root start : T) (sp : List Nat) (s6 : Spec.Segs6),
      Spec.UniformWidths s6 ∧ IdsNodup root ∧ root.sub sp = some start ∧
      Spec.shapeOfDepths ((Spec.belowWithPaths start sp).map fun (p, n) =>
        Spec.decodeDepth s6 (String.join (Spec.prefixParts root s6 (sp.length + 1) p n)).length)
        ≠ start.kids.map Spec.shapeOf := by
  refine ⟨cexTree, cexTree, [], ("    ", "│   ", "╰── ", "├── ", "╰── ", "├── "), by decide,
    by unfold IdsNodup; decide, rfl, ?_⟩
  rw [cexTree_below]
  intro h
  have h2 := congrArg List.length h
  revert h2
  decide

/-- the strongest true variant of the stated target, in the `add_self=True` / titled-tree form
(`lstrip = |sp|`: the first level below `start` carries a connector): the widths of the prefixes
alone determine the shape of the forest below `start`.
Missing w.r.t. the statement asked for: `lstrip` is `sp.length`, not `sp.length + 1`
(see `shape_from_prefixes_false`; for `sp.length + 1` see `shape_from_prefixes_noself`).
Neither `IdsNodup root` nor `root.sub sp = some start` is needed. -/
theorem shape_from_prefixes_self (root start : T) (sp : List Nat) (s6 : Spec.Segs6)
    (hU : Spec.UniformWidths s6) :
    Spec.shapeOfDepths ((Spec.belowWithPaths start sp).map fun (p, n) =>
        Spec.decodeDepth s6 (String.join (Spec.prefixParts root s6 sp.length p n)).length)
      = start.kids.map Spec.shapeOf := by
  rw [decoded_depths root start sp s6 hU, shapeOfDepths_depthsL]

/-- the `add_self=False` form (`lstrip = |sp| + 1`) with the decoder `decodeDepth0`
(empty prefix = depth 0, otherwise `decodeDepth + 1`); needs a non-empty connector `s2`
(true for every table style, see `table_connector_nonempty`). -/
theorem shape_from_prefixes_noself (root start : T) (sp : List Nat) (s6 : Spec.Segs6)
    (hU : Spec.UniformWidths s6) (h2 : 0 < s6.2.2.1.length) :
    Spec.shapeOfDepths ((Spec.belowWithPaths start sp).map fun (p, n) =>
        Spec.decodeDepth0 s6 (String.join (Spec.prefixParts root s6 (sp.length + 1) p n)).length)
      = start.kids.map Spec.shapeOf := by
  rw [decoded_depths0 root start sp s6 hU h2, shapeOfDepths_depthsL]

/-- every table style has non-empty connectors. -/
theorem table_connector_nonempty : ∀ e ∈ Nutree.Generated.connectors,
    ∀ s6, unpack e.2 = some s6 → 0 < s6.2.2.1.length := by
  have h : ∀ e ∈ Nutree.Generated.connectors,
      (match unpack e.2 with | some s6 => decide (0 < s6.2.2.1.length) | none => true) = true := by
    decide
  intro e he s6 hs
  have := h e he
  rw [hs] at this
  simpa using this

/-- the width of the prefix of a line, with uniform widths: `depth * w0 + w2` in the printed
levels, 0 in the stripped levels. -/
theorem prefix_width (root : T) (s6 : Spec.Segs6) (hU : Spec.UniformWidths s6)
    (lstrip : Nat) (p : List Nat) (n : T) :
    (String.join (Spec.prefixParts root s6 lstrip p n)).length =
      if p.length - 1 ≥ lstrip then (p.length - 1 - lstrip) * s6.1.length + s6.2.2.1.length
      else 0 :=
  prefixParts_length root s6 hU lstrip p n

/-! ### (6) the segments of a prefix determine the flags -/

/-- For a node in a printed level (`lstrip ≤ |p| - 1`) the list of prefix segments is
`parts ++ [own]`, and (a) with `s0 ≠ s1` decoding the ancestor segments gives, ancestor by
ancestor, whether that ancestor is a last sibling; (b) with `s2, s3, s4, s5` pairwise distinct
(the compact 6-segment styles) the own connector gives (is-last, has-children). -/
theorem flags_from_prefix (root n : T) (p : List Nat) (s6 : Spec.Segs6) (lstrip : Nat)
    (hd : lstrip ≤ p.length - 1) :
    ∃ parts own, Spec.prefixParts root s6 lstrip p n = parts ++ [own] ∧
      (s6.1 ≠ s6.2.1 →
        parts.map (Spec.decodeAnc s6) =
          ((Spec.prefixes p.dropLast).drop lstrip).map (Spec.lastAt root)) ∧
      (s6.2.2.1 ≠ s6.2.2.2.1 → s6.2.2.2.2.1 ≠ s6.2.2.2.2.2 → s6.2.2.1 ≠ s6.2.2.2.2.1 →
        s6.2.2.1 ≠ s6.2.2.2.2.2 → s6.2.2.2.1 ≠ s6.2.2.2.2.1 → s6.2.2.2.1 ≠ s6.2.2.2.2.2 →
        Spec.decodeOwn s6 own = (Spec.lastAt root p, !n.kids.isEmpty)) ∧
      (s6.2.2.1 ≠ s6.2.2.2.1 → s6.2.2.1 ≠ s6.2.2.2.2.2 → s6.2.2.2.2.1 ≠ s6.2.2.2.1 →
        s6.2.2.2.2.1 ≠ s6.2.2.2.2.2 → Spec.decodeOwnLast s6 own = Spec.lastAt root p) :=
  ⟨_, _, prefixParts_printed root s6 lstrip p n hd,
    fun h01 => map_decodeAnc root s6 h01 _,
    fun h23 h45 h24 h25 h34 h35 => decodeOwn_ite s6 h23 h45 h24 h25 h34 h35 _ _,
    fun h23 h25 h43 h45 => decodeOwnLast_ite s6 h23 h25 h43 h45 _ _⟩

/-- the same, computed from the list of segments: all but the last segment are ancestor
segments, the last one is the own connector. -/
theorem flags_from_prefix_list (root n : T) (p : List Nat) (s6 : Spec.Segs6) (lstrip : Nat)
    (hd : lstrip ≤ p.length - 1) (h01 : s6.1 ≠ s6.2.1) (h23 : s6.2.2.1 ≠ s6.2.2.2.1)
    (h45 : s6.2.2.2.2.1 ≠ s6.2.2.2.2.2) (h24 : s6.2.2.1 ≠ s6.2.2.2.2.1)
    (h25 : s6.2.2.1 ≠ s6.2.2.2.2.2) (h34 : s6.2.2.2.1 ≠ s6.2.2.2.2.1)
    (h35 : s6.2.2.2.1 ≠ s6.2.2.2.2.2) :
    (Spec.prefixParts root s6 lstrip p n).dropLast.map (Spec.decodeAnc s6) =
        ((Spec.prefixes p.dropLast).drop lstrip).map (Spec.lastAt root) ∧
      (Spec.prefixParts root s6 lstrip p n).getLast?.map (Spec.decodeOwn s6) =
        some (Spec.lastAt root p, !n.kids.isEmpty) := by
  obtain ⟨parts, own, he, ha, ho, _⟩ := flags_from_prefix root n p s6 lstrip hd
  rw [he, List.dropLast_concat, List.getLast?_concat]
  exact ⟨ha h01, by rw [Option.map_some, ho h23 h45 h24 h25 h34 h35]⟩

/-- 4-segment styles (`s4 = s2`, `s5 = s3`): with `s0 ≠ s1` and `s2 ≠ s3` the segments
determine the is-last flags of all ancestors and of the node itself. -/
theorem flags_from_prefix_4 (root n : T) (p : List Nat) (s0 s1 s2 s3 : String) (lstrip : Nat)
    (hd : lstrip ≤ p.length - 1) (h01 : s0 ≠ s1) (h23 : s2 ≠ s3) :
    ∃ s6, unpack [s0, s1, s2, s3] = some s6 ∧
      (Spec.prefixParts root s6 lstrip p n).dropLast.map (Spec.decodeAnc s6) =
        ((Spec.prefixes p.dropLast).drop lstrip).map (Spec.lastAt root) ∧
      (Spec.prefixParts root s6 lstrip p n).getLast?.map (Spec.decodeOwnLast s6) =
        some (Spec.lastAt root p) := by
  refine ⟨(s0, s1, s2, s3, s2, s3), rfl, ?_⟩
  obtain ⟨parts, own, he, ha, _, hl⟩ :=
    flags_from_prefix root n p (s0, s1, s2, s3, s2, s3) lstrip hd
  rw [he, List.dropLast_concat, List.getLast?_concat]
  exact ⟨ha h01, by rw [Option.map_some, hl h23 h23 h23 h23]⟩

/-- a node in a stripped level has no prefix at all. -/
theorem stripped_prefix (root n : T) (p : List Nat) (s6 : Spec.Segs6) (lstrip : Nat)
    (hd : ¬ lstrip ≤ p.length - 1) : Spec.prefixParts root s6 lstrip p n = [] :=
  prefixParts_stripped root s6 lstrip p n hd

/-- the compact table styles satisfy all distinctness conditions of `flags_from_prefix_list`. -/
theorem compact_styles_decodable :
    ∀ name ∈ ["lines32c", "lines43c", "round32c", "round43c"],
      ∃ segs s6, Nutree.Generated.connectors.lookup name = some segs ∧ unpack segs = some s6 ∧
        s6.1 ≠ s6.2.1 ∧ s6.2.2.1 ≠ s6.2.2.2.1 ∧ s6.2.2.2.2.1 ≠ s6.2.2.2.2.2 ∧
        s6.2.2.1 ≠ s6.2.2.2.2.1 ∧ s6.2.2.1 ≠ s6.2.2.2.2.2 ∧ s6.2.2.2.1 ≠ s6.2.2.2.2.1 ∧
        s6.2.2.2.1 ≠ s6.2.2.2.2.2 := by
  intro name h
  simp only [List.mem_cons, List.not_mem_nil, or_false] at h
  rcases h with rfl | rfl | rfl | rfl <;> exact ⟨_, _, rfl, rfl, by decide⟩

/-! ### (7) non-vacuity: a concrete tree (8 nodes with the system root, depth 3) -/

private def mkN (n : Nat) (s : String) : Info :=
  { id := n, data := { rootAtom with obj := n, eqc := n, name := s }, did := .int n }

/-- system root with tops A, B; A has a1 (with a11, a12) and a2; B has b1. -/
def exTree : T :=
  .node rootInfo
    [.node (mkN 1 "A") [.node (mkN 2 "a1") [.node (mkN 3 "a11") [], .node (mkN 4 "a12") []],
                        .node (mkN 5 "a2") []],
     .node (mkN 6 "B") [.node (mkN 7 "b1") []]]

example : IdsNodup exTree ∧ (T.flat exTree).length = 8 ∧ exTree.height = 3 := by
  refine ⟨by unfold IdsNodup; decide, by decide, by decide⟩

example : formatIter exTree exTree T.name (.name "round43") true =
    some ["├── A", "│   ├── a1", "│   │   ├── a11", "│   │   ╰── a12", "│   ╰── a2",
          "╰── B", "    ╰── b1"] := by decide

example : formatIter exTree exTree T.name (.name "round43") false =
    some ["A", "├── a1", "│   ├── a11", "│   ╰── a12", "╰── a2", "B", "╰── b1"] := by decide

/-- a sub-branch: `A.format_iter(add_self=True)` and the compact style -/
example : exTree.sub [0] = some (.node (mkN 1 "A") [.node (mkN 2 "a1") [.node (mkN 3 "a11") [], .node (mkN 4 "a12") []], .node (mkN 5 "a2") []]) ∧
    formatIter exTree ((exTree.sub [0]).getD exTree) T.name (.name "round43c") true =
      some ["A", "├─┬ a1", "│ ├── a11", "│ ╰── a12", "╰── a2"] := by decide

example : treeFormatIter exTree "Tree<'x'>" T.name .default .default =
    some ["Tree<'x'>", "├── A", "│   ├── a1", "│   │   ├── a11", "│   │   ╰── a12", "│   ╰── a2",
          "╰── B", "    ╰── b1"] := by decide

theorem exTree_below : Spec.belowWithPaths exTree [] =
    [([0], .node (mkN 1 "A") [.node (mkN 2 "a1") [.node (mkN 3 "a11") [], .node (mkN 4 "a12") []],
                              .node (mkN 5 "a2") []]),
     ([0, 0], .node (mkN 2 "a1") [.node (mkN 3 "a11") [], .node (mkN 4 "a12") []]),
     ([0, 0, 0], .node (mkN 3 "a11") []), ([0, 0, 1], .node (mkN 4 "a12") []),
     ([0, 1], .node (mkN 5 "a2") []),
     ([1], .node (mkN 6 "B") [.node (mkN 7 "b1") []]), ([1, 0], .node (mkN 7 "b1") [])] := by
  simp [exTree, Spec.belowWithPaths, Spec.belowWithPaths.go]

/-- the specification gives the same value (so `format_lines` is not vacuous here) -/
example : Spec.lines exTree exTree [] T.name ["    ", "│   ", "╰── ", "├── "] true =
    some ["├── A", "│   ├── a1", "│   │   ├── a11", "│   │   ╰── a12", "│   ╰── a2",
          "╰── B", "    ╰── b1"] := by
  unfold Spec.lines
  rw [exTree_below]
  decide

/-- the shape is recovered from the widths of these prefixes: 4, 8, 12, 12, 8, 4, 8 -/
example : Spec.shapeOfDepths ([4, 8, 12, 12, 8, 4, 8].map
      (Spec.decodeDepth ("    ", "│   ", "╰── ", "├── ", "╰── ", "├── "))) =
    exTree.kids.map Spec.shapeOf := by
  have h := shape_from_prefixes_self exTree exTree []
    ("    ", "│   ", "╰── ", "├── ", "╰── ", "├── ") (by decide)
  rw [← h, exTree_below]
  congr 1

end Nutree.C16
