/-
  C01 — The node graph stays a well-formed tree after any mutation history.
  Property theorems only; helper lemmas live in Nutree/Lemmas
  (Prim, Registry, WFBool, WFAdd, WFRemove).
-/
import Nutree.Model.Ops
import Nutree.Spec.WF
import Nutree.Lemmas.WFBool
import Nutree.Lemmas.WFAdd
import Nutree.Lemmas.WFRemove
namespace Nutree.C01
open Nutree T

/-- the empty tree is well-formed. -/
theorem WF_init : WF ({} : Tree) := by
  refine ⟨rfl, ?_, ?_, ⟨?_, ?_, ?_, ?_⟩, ?_⟩
  · simp [IdsNodup, mkRoot, T.flat, T.flatL]
  · simp [RegistryExact, mkRoot]
  · simp
  · intro e h; simp at h
  · intro e h; simp at h
  · intro d n; simp [mkRoot]
  · intro x hx
    simp [mkRoot, T.flat, T.flatL] at hx
    subst hx; simp

/-- the decidable check evaluated by the driver on observed states decides well-formedness. -/
theorem wfB_iff (t : Tree) : wfB t = true ↔ WF t := by
  unfold wfB
  simp only [Bool.and_eq_true, beq_iff_eq, idsNodupB_iff, registryExactB_iff, indexExactB_iff,
    sibUniqueB_iff]
  exact ⟨fun ⟨⟨⟨⟨h1, h2⟩, h3⟩, h4⟩, h5⟩ => ⟨h1, h2, h3, h4, h5⟩,
    fun ⟨h1, h2, h3, h4, h5⟩ => ⟨⟨⟨⟨h1, h2⟩, h3⟩, h4⟩, h5⟩⟩

/-- all node ids are below the fresh-id counter, and the counter is positive (0 is the system root) -/
def Fresh (t : Tree) (next : NodeId) : Prop := 0 < next ∧ ∀ x ∈ T.flat t.root, x.id < next

theorem Fresh.not_mem {t : Tree} {next : NodeId} (hf : Fresh t next) : next ∉ (T.flat t.root).map T.id := by
  intro hm
  obtain ⟨x, hx, hxn⟩ := mem_ids.1 hm
  have := hf.2 x hx
  rw [hxn] at this
  exact Nat.lt_irrefl _ this

/-- effect of add (C04), without the well-formedness hypotheses (they are not needed). -/
theorem addData_effect' (t t' : Tree) (next parent : NodeId) (a : Atom) (before : Before)
    (did? : Option DataId) (kind : Option String)
    (hr : t.addData next parent a before did? kind = .ok t') :
    ∃ p ins did, findT parent t.root = some p ∧
      insertPosition p.kids (t.childrenNone parent p) before = .ok ins ∧
      t'.root = modT parent (fun l => ins l (T.node { id := next, data := a, did := did, kind := if t.typed then some (kind.getD "child") else none } [])) t.root ∧
      (did? = some did ∨ (did? = none ∧ t.calcId a = .ok did)) := by
  obtain ⟨p, ins, did, t1, hp, hins, hdid, hreg, rfl⟩ := addData_ok hr
  exact ⟨p, ins, did, hp, hins, by rw [register_root hreg]; rfl, hdid⟩

set_option linter.unusedVariables false in
/-- effect of add (C04): the new node is a leaf with the given data below `parent`, nothing else changes -/
theorem addData_effect (t t' : Tree) (next parent : NodeId) (a : Atom) (before : Before)
    (did? : Option DataId) (kind : Option String)
    (h : WF t) (hf : Fresh t next) (hr : t.addData next parent a before did? kind = .ok t') :
    ∃ p ins did, findT parent t.root = some p ∧
      insertPosition p.kids (t.childrenNone parent p) before = .ok ins ∧
      t'.root = modT parent (fun l => ins l (T.node { id := next, data := a, did := did, kind := if t.typed then some (kind.getD "child") else none } [])) t.root ∧
      (did? = some did ∨ (did? = none ∧ t.calcId a = .ok did)) :=
  addData_effect' t t' next parent a before did? kind hr

/-- adding a data node keeps the state well-formed and the id counter fresh. -/
theorem addData_WF (t t' : Tree) (next parent : NodeId) (a : Atom) (before : Before)
    (did? : Option DataId) (kind : Option String)
    (h : WF t) (hf : Fresh t next) (hr : t.addData next parent a before did? kind = .ok t') :
    WF t' ∧ Fresh t' (next + 1) := by
  obtain ⟨p, ins, did, t1, hp, hins, _, hreg, rfl⟩ := addData_ok hr
  have hg : ∀ ks, (ins ks (newNode t next a did kind)).Perm (newNode t next a did kind :: ks) :=
    fun ks => insertPosition_perm hins ks _
  have hsib : ∀ c ∈ p.kids, c.did ≠ did := by
    intro c hc hcd
    have := (register_unique_iff_sibling (nid := next) h hp).2 ⟨c, hc, hcd⟩
    rw [hreg] at this; cases this
  constructor
  · have := WF_insert_leaf (i := { id := next, data := a, did := did, kind := if t.typed then some (kind.getD "child") else none })
      (g := fun l => ins l (newNode t next a did kind)) h hp hf.not_mem (hg p.kids) hsib
    refine WF.congr ?_ ?_ ?_ this
    · show modT parent _ t1.root = modT parent _ t.root
      rw [register_root hreg]
    · show t1.byId = t.byId ++ [next]
      exact register_byId hreg
    · show t1.byData = addEntry t.byData did next
      exact register_byData hreg
  · refine ⟨Nat.succ_pos _, ?_⟩
    intro x hx
    change x ∈ flat (modT parent (fun l => ins l (newNode t next a did kind)) t1.root) at hx
    rw [register_root hreg] at hx
    rcases mem_ids_insert_leaf (n := newNode t next a did kind) hg rfl (mem_ids.2 ⟨x, hx, rfl⟩) with h1 | h1
    · obtain ⟨y, hy, hyx⟩ := mem_ids.1 h1
      have := hf.2 y hy
      rw [hyx] at this
      exact Nat.lt_succ_of_lt this
    · have : x.id = next := h1
      rw [this]; exact Nat.lt_succ_self _

/-- refusal (C03): adding data whose id is already carried by a child of the target is refused with the uniqueness error -/
theorem addData_refused (t : Tree) (next parent : NodeId) (a : Atom) (before : Before) (did : DataId)
    (kind : Option String) (p : T) (ins : List T → T → List T)
    (h : WF t) (hp : findT parent t.root = some p)
    (hb : insertPosition p.kids (t.childrenNone parent p) before = .ok ins)
    (hc : ∃ c ∈ p.kids, c.did = did) :
    t.addData next parent a before (some did) kind = .error .unique := by
  have hreg := (register_unique_iff_sibling (nid := next) h hp).2 hc
  unfold Tree.addData
  simp only [hp, hb, hreg]

/-- `remove_children` keeps the state well-formed. -/
theorem removeChildren_WF (t : Tree) (n : NodeId) (h : WF t) : WF (t.removeChildren n) := by
  cases hx : findT n t.root with
  | none => rw [removeChildren_of_none hx]; exact h
  | some x =>
    rw [removeChildren_eq hx]
    exact WF_remove_kids h hx (iterPost_perm x) rfl rfl rfl

/-- after `removeChildren n` the node `n` is a leaf with the same record, and its parent has the
same identity as before. -/
private theorem removeOne_setup {t : Tree} {n : NodeId} {x par : T} (h : WF t)
    (hx : findT n t.root = some x) (hpar : findParent n t.root = some par) :
    t.parentId n = some par.id ∧
      findT n (t.removeChildren n).root = some (.node x.info []) ∧
      findParent n (t.removeChildren n).root = some (modT n (fun _ => []) par) := by
  have hN := h.idsN
  have hxN := idsNodup_of_mem_flat hN (findT_some_mem hx)
  have hnk : n ∉ idsL x.kids := by
    have := id_not_mem_idsL_kids hxN
    rwa [findT_some_id hx] at this
  refine ⟨by unfold Tree.parentId; rw [hpar]; rfl, ?_, ?_⟩
  · rw [removeChildren_root, findT_modT_self_of hx]
  · rw [removeChildren_root, findParent_modT_of hN hx hnk (by simp), hpar]; rfl

/-- plain `remove()` of one node keeps the state well-formed (also for `n = 0`, where the model
does nothing). -/
theorem removeOne_WF' (t : Tree) (n : NodeId) (h : WF t) : WF (t.removeOne n) := by
  cases hx : findT n t.root with
  | none => rw [removeOne_of_findT_none hx]; exact h
  | some x =>
    cases hpar : findParent n t.root with
    | none =>
      rw [removeOne_of_parent_none (by unfold Tree.parentId; rw [hpar]; rfl)]; exact h
    | some par =>
      obtain ⟨hp, hx1, hpar1⟩ := removeOne_setup h hx hpar
      rw [removeOne_eq hx hp]
      refine WF_remove_leaf (removeChildren_WF t n h) hx1 rfl hpar1 ?_ rfl rfl
      simp only [unregister_root, modT_id]

set_option linter.unusedVariables false in
/-- plain `remove()` of one node keeps the state well-formed. -/
theorem removeOne_WF (t : Tree) (n : NodeId) (h : WF t) (hn : n ≠ 0) : WF (t.removeOne n) :=
  removeOne_WF' t n h

/-- removed nodes are neither reachable nor registered -/
theorem removeChildren_gone (t : Tree) (n : NodeId) (x : T) (h : WF t) (hx : findT n t.root = some x) :
    ∀ y ∈ T.flatL x.kids, y.id ∉ (T.flat (t.removeChildren n).root).map T.id ∧ y.id ∉ (t.removeChildren n).byId := by
  intro y hy
  have h' := removeChildren_WF t n h
  have h1 : y.id ∉ (T.flat (t.removeChildren n).root).map T.id := by
    rw [removeChildren_root]
    have hp := remove_kids_ids_perm h.idsN hx
    have hnd := hp.nodup_iff.2 h.ids
    intro hm
    exact (List.nodup_append.1 hnd).2.2 _ hm _ (mem_idsL.2 ⟨y, hy, rfl⟩) rfl
  refine ⟨h1, fun hm => h1 ?_⟩
  rw [ids_eq]
  exact List.mem_cons_of_mem _ (h'.mem_byId.1 hm)

/-- removed nodes are neither reachable nor registered -/
theorem removeOne_gone (t : Tree) (n : NodeId) (x : T) (h : WF t) (hn : n ≠ 0) (hx : findT n t.root = some x) :
    ∀ y ∈ T.flat x, y.id ∉ (T.flat (t.removeOne n).root).map T.id ∧ y.id ∉ (t.removeOne n).byId := by
  intro y hy
  have h' := removeOne_WF t n h hn
  obtain ⟨par, hpar⟩ := findParent_of_findT hx (by rw [h.rootId]; exact hn)
  obtain ⟨hp, hx1, hpar1⟩ := removeOne_setup h hx hpar
  have h1 : y.id ∉ (T.flat (t.removeOne n).root).map T.id := by
    rw [flat_eq, List.mem_cons] at hy
    rcases hy with rfl | hy
    · rw [removeOne_eq hx hp, unregister_root, findT_some_id hx]
      have hp1 := remove_leaf_ids_perm (removeChildren_WF t n h).idsN hx1 rfl hpar1
      rw [modT_id] at hp1
      have hnd := hp1.nodup_iff.2 (removeChildren_WF t n h).ids
      intro hm
      exact (List.nodup_append.1 hnd).2.2 _ hm n (by simp) rfl
    · intro hm
      rw [removeOne_root hx hp] at hm
      have := ids_modT_subset (fun _ _ h => idsL_eraseId_subset h) hm
      rw [← removeChildren_root] at this
      exact (removeChildren_gone t n x h hx y hy).1 this
  refine ⟨h1, fun hm => h1 ?_⟩
  rw [ids_eq]
  exact List.mem_cons_of_mem _ (h'.mem_byId.1 hm)

/-- Fresh is preserved by removals (ids only disappear) -/
theorem remove_Fresh (t : Tree) (n next : NodeId) (hf : Fresh t next) :
    Fresh (t.removeOne n) next ∧ Fresh (t.removeChildren n) next := by
  refine ⟨⟨hf.1, fun x hx => ?_⟩, ⟨hf.1, fun x hx => ?_⟩⟩
  · obtain ⟨y, hy, hyx⟩ := mem_ids.1 (ids_removeOne_subset (mem_ids.2 ⟨x, hx, rfl⟩))
    rw [← hyx]; exact hf.2 y hy
  · obtain ⟨y, hy, hyx⟩ := mem_ids.1 (ids_removeChildren_subset (mem_ids.2 ⟨x, hx, rfl⟩))
    rw [← hyx]; exact hf.2 y hy

end Nutree.C01
