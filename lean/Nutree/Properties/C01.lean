/-
  C01 — The node graph stays a well-formed tree after any mutation history.
  Property theorems only; helper lemmas live in Nutree/Lemmas.
-/
import Nutree.Model.Ops
import Nutree.Spec.WF
namespace Nutree.C01
open Nutree T

/-- the empty tree is well-formed. -/
theorem WF_init : WF ({} : Tree) := by
  refine ⟨rfl, ?_, ?_, ⟨?_, ?_, ?_, ?_⟩, ?_⟩
  · simp [IdsNodup, mkRoot, T.flat, T.flatL]
  · simp [RegistryExact, mkRoot, T.flatL]
  · simp
  · intro e h; simp at h
  · intro e h; simp at h
  · intro d n; simp [mkRoot, T.flatL]
  · intro x hx
    simp [mkRoot, T.flat, T.flatL] at hx
    subst hx; simp

end Nutree.C01
